"""ECDH glue of jq255e / jq255s / GLS254 (part of C09), engine L with contract stubs.

For all secret scalars, own-public-key bytes and peer strings at the listed lengths:
   ok  = 0xFFFFFFFF  iff  len(peer) = 32, the peer decodes and is not the neutral; else 0
   key = BLAKE2s( lexmin(pk_self, peer) || lexmax(pk_self, peer) || tag || shared )     (len 32)
         BLAKE2s( pk_self || peer || tag || shared )                                      (other lengths)
   tag = 0x53 and shared = encode([sec]peer) on success; tag = 0x46 and shared = encode(sec) on failure.
Stubs: Point::set_decode, Point::set_mul, Point::encode, BLAKE2s compression (uninterpreted)."""
import time
from engines.llsym.build import Driver
from engines.llsym import terms as T
from engines.llsym.llexec import Ptr, ExecError, PanicReached
from engines.llsym.smt import BVEmitter, run_solver, bvc
from vlib.common import Obligation
from . import glue
from .lhelp import sym_run, rng, _feasible, Path

ALL1 = 0xFFFFFFFF
CURVES = {"jq255e": ("crate::jq255e", 16), "jq255s": ("crate::jq255s", 16), "gls254": ("crate::gls254", 16)}
B2S_W = [32] * 8 + [8] * 64 + [64, 8]
B2S_IV = [0x6A09E667, 0xBB67AE85, 0x3C6EF372, 0xA54FF53A, 0x510E527F, 0x9B05688C, 0x1F83D9AB, 0x5BE0CD19]


def drivers(shapes):
    ds = []
    for curve, plen in shapes:
        host = "src/%s.rs" % curve
        ds.append(Driver("drv_%s_ecdhg_%d" % (curve, plen),
                         [("sec", "in", 8, 4), ("mypk", "in", 1, 32), ("peer", "in", 1, plen), ("key", "out", 1, 32), ("st", "out", 4, 1)],
                         "        let sc: Scalar = unsafe { transmute::<[u64; 4], Scalar>(*sec) };\n"
                         "        let k = PrivateKey { sec: sc, public_key: PublicKey { point: Point::NEUTRAL, encoded: *mypk } };\n"
                         "        let (kk, ok) = k.ECDH(&peer[..]);\n        *key = kk; st[0] = ok;", host))
    for curve in sorted(set(c for c, _ in shapes)):
        host = "src/%s.rs" % curve
        pw = CURVES[curve][1]
        ds.append(Driver("drv_%s_isneutral" % curve, [("p", "in", 8, pw), ("st", "out", 4, 1)],
                         "        let x: Point = unsafe { transmute::<[u64; %d], Point>(*p) };\n        st[0] = x.isneutral();" % pw, host))
        ds.append(Driver("drv_%s_scenc" % curve, [("a", "in", 8, 4), ("out", "out", 1, 32)],
                         "        let x: Scalar = unsafe { transmute::<[u64; 4], Scalar>(*a) };\n        *out = x.encode();", host))
        # native two-sided exchange for replay
        ds.append(Driver("drv_%s_ecdh2" % curve, [("sa", "in", 1, 32), ("sb", "in", 1, 32), ("ka", "out", 1, 32), ("kb", "out", 1, 32), ("st", "out", 4, 2)],
                         "        let mut a = Scalar::decode_reduce(&sa[..]); a.set_cond(&Scalar::ONE, a.iszero());\n"
                         "        let mut b = Scalar::decode_reduce(&sb[..]); b.set_cond(&Scalar::ONE, b.iszero());\n"
                         "        let pa = PrivateKey::from_scalar(&a); let pb = PrivateKey::from_scalar(&b);\n"
                         "        let (k1, o1) = pa.ECDH(&pb.public_key.encode()[..]);\n"
                         "        let (k2, o2) = pb.ECDH(&pa.public_key.encode()[..]);\n"
                         "        *ka = k1; *kb = k2; st[0] = o1; st[1] = o2;", host))
        ds.append(Driver("drv_%s_ecdh1" % curve, [("sa", "in", 1, 32), ("peer", "in", 1, 32), ("ka", "out", 1, 32), ("st", "out", 4, 1), ("pk", "out", 1, 32)],
                         "        let mut a = Scalar::decode_reduce(&sa[..]); a.set_cond(&Scalar::ONE, a.iszero());\n"
                         "        let pa = PrivateKey::from_scalar(&a);\n"
                         "        let (k1, o1) = pa.ECDH(&peer[..]);\n        *ka = k1; st[0] = o1; *pk = pa.public_key.encode();", host))
    return ds


def install(ex, rec, curve, plen):
    pw = CURVES[curve][1]

    def h_pdec(ex_, name, argv, rty):
        self_p, buf_p = argv[0], argv[1]
        n = argv[2] if len(argv) > 2 else plen
        if isinstance(n, T.Term):
            raise ExecError("symbolic length")
        data = ex_.read_bytes(buf_p, n) if n else []
        # contract of set_decode (C06): a string of the wrong length is rejected
        ok = rec.fresh("pdec_ok", 1) if n == 32 else 0
        pt = [rec.fresh("pt", 64) for _ in range(pw)]
        for i, w in enumerate(pt):
            ex_.store(Ptr(self_p.obj, self_p.off + 8 * i), 8, w)
        rec.calls.append(("pdec", {"bytes": data, "ok": ok, "point": pt, "len": n}))
        return T.t_sub(0, T.t_zext(ok, 32), 32)
    ex.add_call_hook(r"%s5Point10set_decode" % curve, h_pdec)

    def h_mul(ex_, name, argv, rty):
        pt = ex_.read_words(argv[0], pw, 8)
        sc = ex_.read_words(argv[1], 4, 8)
        res = [rec.fresh("mul", 64) for _ in range(pw)]
        for i, w in enumerate(res):
            ex_.store(Ptr(argv[0].obj, argv[0].off + 8 * i), 8, w)
        rec.calls.append(("mul", {"P": pt, "n": sc, "res": res}))
        return None
    ex.add_call_hook(r"%s5Point7set_mul17h|%s5Point7set_mul$" % (curve, curve), h_mul)

    def h_enc(ex_, name, argv, rty):
        pt = ex_.read_words(argv[1], pw, 8)
        out = [rec.fresh("encb", 8) for _ in range(32)]
        for i, b in enumerate(out):
            ex_.store(Ptr(argv[0].obj, argv[0].off + i), 1, b)
        rec.calls.append(("enc", {"P": pt, "bytes": out}))
        return None
    ex.add_call_hook(r"%s5Point6encode" % curve, h_enc)

    def h_b2s(ex_, name, argv, rty):
        hp, bp = argv[0], argv[1]
        ints = list(argv[2:])
        if len(ints) == 3:
            ctr, last = ints[1], ints[2]
        elif len(ints) == 2:
            ctr, last = ints
        else:
            raise ExecError("unexpected signature of Blake2s::process_block")
        if isinstance(ctr, T.Term) or isinstance(last, T.Term):
            raise ExecError("symbolic BLAKE2s counter / last flag")
        h = [ex_.load(Ptr(hp.obj, hp.off + 4 * i), 4) for i in range(8)]
        b = ex_.read_bytes(bp, 64)
        rec.calls.append(("b2s", {"h": h, "block": b, "ctr": ctr, "last": last & 1}))
        for i in range(8):
            ex_.store(Ptr(hp.obj, hp.off + 4 * i), 4, glue.uf("b2s", i, h + b + [ctr, last & 1], 32, B2S_W))
        return None
    ex.add_call_hook(r"blake2s.*Blake2s.*process_block", h_b2s)


def b2s_chain(msg):
    """list of (block bytes, counter, last) of unkeyed BLAKE2s-256 over msg (list of byte terms/ints)"""
    n = len(msg)
    blocks = [msg[i:i + 64] for i in range(0, n, 64)] or [[]]
    out = []
    t = 0
    for i, b in enumerate(blocks):
        t += len(b)
        out.append((list(b) + [0] * (64 - len(b)), t, 1 if i == len(blocks) - 1 else 0))
    return out


def check_shape(built, shape, timeout):
    curve, plen = shape
    mod, pw = CURVES[curve]
    drv = "drv_%s_ecdhg_%d" % shape
    ob = Obligation("default:%s.ECDH[peer=%d]" % shape, "L", ["%s::PrivateKey::ECDH" % mod],
                    "all secret scalars, own key bytes and peer strings of this length",
                    "status and derived key are the specified functions of (peer validity, [sec]peer, sec, both public keys)")
    t0 = time.time()
    rec = glue.Recorder()
    path = Path()
    rec.path = path
    state = {"branches": 0}

    def policy(ex_, c, where):
        state["branches"] += 1
        raise ExecError("ECDH is constant-time: unexpected symbolic branch at %s" % where)

    def setup(ex):
        install(ex, rec, curve, plen)
        ex.branch_policy = policy
    try:
        ex, ins, outs = sym_run(built, drv, executor_setup=setup)
    except PanicReached as e:
        return [ob.unknown("panic path: %s" % e)]
    except ExecError as e:
        return [ob.unknown("executor: %s" % str(e)[:300])]
    nq = 0
    problems = []
    c = rec.calls
    pd = [x for t, x in c if t == "pdec"]
    ml = [x for t, x in c if t == "mul"]
    en = [x for t, x in c if t == "enc"]
    hb = [x for t, x in c if t == "b2s"]
    sec, mypk, peer = ins["sec"], ins["mypk"], ins["peer"]
    st = outs["st"][0]
    if len(pd) != 1 or (plen == 32 and not glue.same_terms(pd[0]["bytes"], peer)):
        problems.append("the peer key is not decoded from the peer bytes")
    if not ml or not glue.same_terms(ml[0]["n"], sec):
        problems.append("the secret scalar is not the multiplier")
    elif pd and not glue.same_terms(ml[0]["P"], pd[0]["point"]):
        problems.append("the point multiplied is not the decoded peer point")
    if not en or not ml or not glue.same_terms(en[0]["P"], ml[0]["res"]):
        problems.append("the shared point encoded is not [sec]peer")
    if problems or not pd or not en:
        return [_confirm(ob, built, shape, problems or ["incomplete call structure"], time.time() - t0, nq)]
    # reference terms from the real code: isneutral(Q) and encode(sec)
    _, _, nref = sym_run(built, "drv_%s_isneutral" % curve, concrete={"p": pd[0]["point"]})
    _, _, sref = sym_run(built, "drv_%s_scenc" % curve, concrete={"a": sec})
    neut = nref["st"][0]          # 0xFFFFFFFF iff neutral
    alt = sref["out"]
    # exactness of the neutral test (so that "not neutral" is a bit)
    em = BVEmitter()
    v, _, _ = run_solver(em.script(["(and (distinct %s %s) (distinct %s %s))" % (em.ref(neut, 32), bvc(0, 32), em.ref(neut, 32), bvc(ALL1, 32))],
                                   get_model=False), "z3", timeout)
    nq += 1
    if v != "unsat":
        return [ob.unknown("isneutral() is not proved to return an exact status word (%s)" % v)]
    notneut = T.t_icmp("eq", neut, 0, 32)
    okb = T.t_and(pd[0]["ok"], notneut, 1) if plen == 32 else 0
    exp_st = T.t_ite(okb, ALL1, 0, 32)

    def equal_terms(pairs, what):
        """pairs of (got, expected, width): decided on a consistent over-approximation first"""
        nonlocal nq
        pairs = [(g, e, w) for g, e, w in pairs if not ((g is e) or (not isinstance(g, T.Term) and not isinstance(e, T.Term) and g == e))]
        if not pairs:
            return True
        for depth in (6, 10, 16, 24, None):
            flat = []
            for g, e, w in pairs:
                flat += [g, e]
            cut = T.cut_multi(flat, depth) if depth is not None else flat
            em_ = BVEmitter()
            diffs = ["(distinct %s %s)" % (em_.ref(cut[2 * i], pairs[i][2]), em_.ref(cut[2 * i + 1], pairs[i][2])) for i in range(len(pairs))]
            v_, _, _ = run_solver(em_.script(["(or %s)" % " ".join(diffs)] if len(diffs) > 1 else diffs, get_model=False),
                                  "z3", min(timeout, 20) if depth is not None else timeout)
            nq += 1
            if v_ == "unsat":
                return True
        problems.append("%s: solver %s" % (what, v_))
        return False
    equal_terms([(st, exp_st, 32)], "status is not [len = 32 and peer decodes and peer is not the neutral]")
    shared = [T.t_ite(okb, e, a, 8) for e, a in zip(en[0]["bytes"], alt)]
    tag = T.t_ite(okb, 0x53, 0x46, 8)
    if plen == 32:
        def be256(bs):
            acc, w = bs[0], 8
            for b in bs[1:]:
                acc = T.t_concat(acc, b, w, 8)
                w += 8
            return acc
        lt = T.t_icmp("ult", be256(mypk), be256(peer), 256)     # byte 0 most significant: lexicographic order
        first = [T.t_ite(lt, mypk[i], peer[i], 8) for i in range(32)]
        second = [T.t_ite(lt, peer[i], mypk[i], 8) for i in range(32)]
        expect = first + second + [tag] + shared
    else:
        expect = list(mypk) + list(peer) + [tag] + shared
    chain = b2s_chain(expect)
    if len(hb) != len(chain):
        problems.append("number of BLAKE2s compression calls is %d, expected %d" % (len(hb), len(chain)))
    else:
        h = list(B2S_IV)
        h[0] ^= 0x01010020
        for k, (call, (blk, ctr, last)) in enumerate(zip(hb, chain)):
            if call["ctr"] != ctr or call["last"] != last:
                problems.append("BLAKE2s block %d: counter/last flag (%d,%d), expected (%d,%d)" % (k, call["ctr"], call["last"], ctr, last))
                break
            if not glue.same_terms(call["h"], h):
                problems.append("BLAKE2s block %d: chaining value is not the previous state / IV" % k)
                break
            if not equal_terms([(g, e, 8) for g, e in zip(call["block"], blk)],
                               "BLAKE2s block %d is not the specified key-derivation input (ordering of the keys, tag byte or shared secret)" % k):
                break
            h = [glue.uf("b2s", i, call["h"] + call["block"] + [call["ctr"], call["last"]], 32, B2S_W) for i in range(8)]
        else:
            outb = []
            for x in h:
                for k in range(4):
                    outb.append(T.t_extract(x, 8 * k, 8))
            if not glue.same_terms(outs["key"], outb):
                problems.append("returned key is not the BLAKE2s-256 digest")
    if problems:
        return [_confirm(ob, built, shape, problems, time.time() - t0, nq)]
    return [ob.ok("symbolic execution with contract stubs (single path); z3-bv x%d" % nq, time.time() - t0, nq)]


def _confirm(ob, built, shape, problems, secs, nq):
    """native replay: (1) both sides of an exchange must agree with success status, (2) neutral / invalid /
    wrong-length peers must fail, (3) a failed exchange must depend on the local secret"""
    curve, plen = shape
    # (1)
    for a in range(1, 26):
        for b in range(a + 1, 26):
            nat = built.native("drv_%s_ecdh2" % curve, {"sa": [a] + [0] * 31, "sb": [b] + [0] * 31})
            if nat["ka"] != nat["kb"] or nat["st"] != [ALL1, ALL1]:
                return ob.fail({"key": "%s.ECDH" % curve, "problems": problems, "secret_a": a, "secret_b": b,
                                "key_a": bytes(nat["ka"]).hex(), "key_b": bytes(nat["kb"]).hex(), "status": [hex(x) for x in nat["st"]],
                                "found_by": "structural mismatch in the stubbed model; natively the two sides of an exchange disagree"},
                               "z3-bv+replay", secs, nq)
    # (2), (3)
    for peer in ([0] * 32, [0xFF] * 32):
        n1 = built.native("drv_%s_ecdh1" % curve, {"sa": [5] + [0] * 31, "peer": peer})
        n2 = built.native("drv_%s_ecdh1" % curve, {"sa": [7] + [0] * 31, "peer": peer})
        if n1["st"][0] != 0 or n2["st"][0] != 0:
            return ob.fail({"key": "%s.ECDH" % curve, "problems": problems, "peer": bytes(peer).hex(), "status": hex(n1["st"][0]),
                            "found_by": "structural mismatch; natively a neutral / invalid peer key yields a success status"},
                           "z3-bv+replay", secs, nq)
        if n1["ka"] == n2["ka"]:
            return ob.fail({"key": "%s.ECDH" % curve, "problems": problems, "peer": bytes(peer).hex(),
                            "found_by": "structural mismatch; natively the failure key does not depend on the local secret"},
                           "z3-bv+replay", secs, nq)
        # the failure key must not be computable from public data: try the key-derivation hash over public material only
        import hashlib
        pkb, prb = bytes(n1["pk"]), bytes(peer)
        for first, second in ((pkb, prb), (prb, pkb)):
            for tag in (0x46, 0x53):
                for sh in (bytes(32), prb, pkb):
                    if hashlib.blake2s(first + second + bytes([tag]) + sh, digest_size=32).digest() == bytes(n1["ka"]):
                        return ob.fail({"key": "%s.ECDH" % curve, "problems": problems, "peer": prb.hex(), "own_public_key": pkb.hex(),
                                        "native_key": bytes(n1["ka"]).hex(),
                                        "found_by": "structural mismatch; natively the failure key equals BLAKE2s over public data only "
                                                    "(keys, tag %#x, shared = %s)" % (tag, sh.hex()[:16])}, "z3-bv+replay", secs, nq)
    return ob.unknown("structural mismatch (%s) not confirmed natively" % "; ".join(problems)[:300])


QUICK = [("jq255e", 32), ("jq255e", 31), ("jq255s", 32), ("gls254", 32), ("gls254", 33)]
THOROUGH = QUICK + [("jq255e", 0), ("jq255e", 33), ("jq255s", 31), ("jq255s", 33), ("gls254", 0), ("gls254", 31)]
