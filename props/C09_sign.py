"""C09, signing side (jq255e / jq255s / GLS254): the byte-level glue of `PrivateKey::sign`,
`sign_seeded` and `sign_randomized` is the documented Schnorr procedure, and the (c, s) so produced
drive the real verifier to `true` - for all secret-scalar limbs, stored public-key bytes, seeds,
hash-name and data bytes at the listed shapes (engine L, contract stubs, see props/glue.py, C09.py).

  sign_seeded(seed, name, data):
      k     = reduce(BLAKE2s(encode(d) || pk_enc || le64(len(seed)) || seed || tag || data))
      R_enc = encode(mulgen(k))
      cb    = BLAKE2s(R_enc || pk_enc || tag || data)[0..16]           (same spec function as the verifier: C09.py)
      c'    = le128(cb)                         (jq255e / jq255s)
              le64(cb[0..8]) + mu * le64(cb[8..16])        (GLS254)
      sig   = cb || encode(k + d * c')
      tag   = 0x52 (raw data) or 0x48 || name || 0x00
  sign(name, data)            = sign_seeded("", name, data)
  sign_randomized(rng, ...)   = sign_seeded(the 32 bytes delivered by rng.fill_bytes, ...)

Two obligations per shape:
  *.sign_*            the equations above.  Stubs: BLAKE2s compression (uninterpreted), `Scalar::set_decode_reduce`
                      (fresh scalar), `Point::set_mulgen` (fresh point), `Point::encode` (fresh bytes).  The inlined
                      scalar code (`d.encode()` fed to the hash, `k + d*c'` and its encoding) is compared with
                      reference drivers that apply the same library operations to the stub outputs and to the
                      16 challenge bytes (ring semantics of those operations: C05).
  *.sign_then_verify  the real `PublicKey::verify` IR is run on the *terms* the signer produced (sig[0..16], pk_enc,
                      name, data); the 32 s-bytes are abstracted to fresh bytes assumed canonical (the signer's
                      s.encode() is canonical: C05 - the verifier sees them only through the canonicity test and the
                      scalar it hands to the stubbed double multiplication), and encode(R') := the signer's R_enc.
                      Then: every path that stops early needs a non-canonical s, s is decode32(sig[16..48]), the
                      multiplier is the little-endian integer of sig[0..16] (the bytes from which the signer
                      built c'), the hashed point is the result of the double multiplication, and the verdict is
                      `true` - i.e. the verifier's challenge input is byte-identical to the signer's.
                      The premise encode(R') = encode(R) is the group identity [s]B - [c']Q = [k]B for
                      s = k + c'*d, Q = [d]B (contracts of mulgen / mul_add_mulgen: C04 / C10) plus canonical
                      point encoding (C06): mathematics, outside this check.
A structural mismatch is confirmed natively against an independent signer (hashlib BLAKE2s and Python integers
for all the glue; only mulgen+encode of a given k come from the library) and by the library's own verifier."""
import time
from engines.llsym.build import Driver
from engines.llsym import terms as T
from engines.llsym.llexec import Ptr, ExecError, PanicReached
from engines.llsym.smt import BVEmitter, run_solver, bvc
from vlib.common import Obligation
from . import glue
from .lhelp import sym_run, rng, _feasible, Path
from .C09 import CURVES, MMFN, RORD, B2S_W, B2S_IV, b2s_uf_spec
from .C09_ecdh import b2s_chain

GLS_MU = 0x17E6D0D00F54BC939F58BDDA363FE4991EEFADF1FAE163FC1B8487FC89A1F614
ALL1 = 0xFFFFFFFF
VARIANT_FN = {"det": "sign", "seeded": "sign_seeded", "rand": "sign_randomized"}

RNG_IMPL = ("        struct FixedRng<'a>(&'a [u8; 32]);\n"
            "        impl<'a> RngCore for FixedRng<'a> {\n"
            "            fn next_u32(&mut self) -> u32 { 0 }\n"
            "            fn next_u64(&mut self) -> u64 { 0 }\n"
            "            fn fill_bytes(&mut self, dest: &mut [u8]) { for i in 0..dest.len() { dest[i] = self.0[i & 31]; } }\n"
            "            fn try_fill_bytes(&mut self, dest: &mut [u8]) -> Result<(), crate::RngError> { self.fill_bytes(dest); Ok(()) }\n"
            "        }\n"
            "        impl<'a> CryptoRng for FixedRng<'a> {}\n")


def nm_sign(shape):
    return "drv_%s_sg_%s_%d_%d_%d" % shape


def nm_vf(shape):
    return "drv_%s_sgvf_%d_%d" % (shape[0], shape[3], shape[4])


def _hn(namelen):
    return "unsafe { core::str::from_utf8_unchecked(&name[..]) }" if namelen else "\"\""


def drivers(shapes):
    ds = []
    seen = set()
    for shape in shapes:
        curve, variant, seedlen, namelen, datalen = shape
        host = "src/%s.rs" % curve
        hn = _hn(namelen)
        call = {"det": "sk.sign(%s, &data[..])" % hn,
                "seeded": "sk.sign_seeded(&seed[..], %s, &data[..])" % hn,
                "rand": "{ let mut g = FixedRng(seed); sk.sign_randomized(&mut g, %s, &data[..]) }" % hn}[variant]
        body = (RNG_IMPL if variant == "rand" else "") + \
            ("        let sk = PrivateKey { sec: unsafe { transmute::<[u64; 4], Scalar>(*sec) },\n"
             "            public_key: PublicKey { point: Point::NEUTRAL, encoded: *pke } };\n"
             "        *sig = %s;" % call)
        ds.append(Driver(nm_sign(shape), [("sec", "in", 8, 4), ("pke", "in", 1, 32), ("seed", "in", 1, seedlen),
                                          ("name", "in", 1, namelen), ("data", "in", 1, datalen), ("sig", "out", 1, 48)],
                         body, host))
        if nm_vf(shape) not in seen:
            seen.add(nm_vf(shape))
            ds.append(Driver(nm_vf(shape), [("pt", "in", 8, 16), ("pke", "in", 1, 32), ("sig", "in", 1, 48),
                                            ("name", "in", 1, namelen), ("data", "in", 1, datalen), ("st", "out", 4, 1)],
                             "        let pk = PublicKey { point: unsafe { transmute::<[u64; 16], Point>(*pt) }, encoded: *pke };\n"
                             "        st[0] = pk.verify(&sig[..], %s, &data[..]) as u32;" % hn, host))
    for curve in sorted(set(s[0] for s in shapes)):
        host = "src/%s.rs" % curve
        ds.append(Driver("drv_%s_sg_scenc" % curve, [("a", "in", 8, 4), ("out", "out", 1, 32)],
                         "        let x: Scalar = unsafe { transmute::<[u64; 4], Scalar>(*a) };\n        *out = x.encode();", host))
        ds.append(Driver("drv_%s_sg_sdec32" % curve, [("buf", "in", 1, 32), ("out", "out", 8, 4), ("st", "out", 4, 1)],
                         "        let (s, ok) = Scalar::decode32(&buf[..]);\n"
                         "        *out = unsafe { transmute::<Scalar, [u64; 4]>(s) }; st[0] = ok;", host))
        if curve == "gls254":
            cexpr = ("        let c0 = u64::from_le_bytes(*<&[u8; 8]>::try_from(&cb[..8]).unwrap());\n"
                     "        let c1 = u64::from_le_bytes(*<&[u8; 8]>::try_from(&cb[8..]).unwrap());\n"
                     "        let c = Scalar::from_u64(c0) + Scalar::MU * Scalar::from_u64(c1);\n")
        else:
            cexpr = "        let c = Scalar::from_u128(u128::from_le_bytes(*cb));\n"
        ds.append(Driver("drv_%s_sg_sref" % curve, [("k", "in", 8, 4), ("d", "in", 8, 4), ("cb", "in", 1, 16), ("out", "out", 1, 32)],
                         "        let k_ = unsafe { transmute::<[u64; 4], Scalar>(*k) }; let d_ = unsafe { transmute::<[u64; 4], Scalar>(*d) };\n"
                         + cexpr + "        *out = (k_ + d_ * c).encode();", host))
        # native replay helpers: a key from seed bytes (internal limbs, encodings, point), and encode(mulgen(reduce(kb)))
        ds.append(Driver("drv_%s_sg_mk" % curve, [("seed", "in", 1, 32), ("sec", "out", 8, 4), ("senc", "out", 1, 32),
                                                  ("pke", "out", 1, 32), ("pt", "out", 8, 16)],
                         "        let mut sc = Scalar::decode_reduce(&seed[..]); sc.set_cond(&Scalar::ONE, sc.iszero());\n"
                         "        let p = Point::mulgen(&sc);\n"
                         "        *sec = unsafe { transmute::<Scalar, [u64; 4]>(sc) }; *senc = sc.encode(); *pke = p.encode();\n"
                         "        *pt = unsafe { transmute::<Point, [u64; 16]>(p) };", host))
        ds.append(Driver("drv_%s_sg_mg" % curve, [("kb", "in", 1, 32), ("renc", "out", 1, 32)],
                         "        *renc = Point::mulgen(&Scalar::decode_reduce(&kb[..])).encode();", host))
    return ds


# ---------------------------------------------------------------------------
# hooks

def _h_b2s(rec):
    def h_b2s(ex_, name, argv, rty):
        hp, bp = argv[0], argv[1]
        ints = list(argv[2:])
        if len(ints) == 3:
            ctr, last = ints[1], ints[2]
        elif len(ints) == 2:
            ctr, last = ints
        else:
            raise ExecError("unexpected signature of Blake2s::process_block")
        if isinstance(ctr, T.Term) or isinstance(last, T.Term):
            raise ExecError("symbolic BLAKE2s counter / last flag")
        h = [ex_.load(Ptr(hp.obj, hp.off + 4 * i), 4) for i in range(8)]
        b = ex_.read_bytes(bp, 64)
        rec.calls.append(("b2s", {"h": h, "block": b, "ctr": ctr, "last": last & 1}))
        for i in range(8):
            ex_.store(Ptr(hp.obj, hp.off + 4 * i), 4, glue.uf("b2s", i, h + b + [ctr, last & 1], 32, B2S_W))
        return None
    return h_b2s


def install_sign(ex, rec, curve):
    ex.add_call_hook(r"blake2s.*Blake2s.*process_block", _h_b2s(rec))

    def h_reduce(ex_, name, argv, rty):
        self_p, buf_p = argv[0], argv[1]
        n = argv[2] if len(argv) > 2 else 32
        if isinstance(n, T.Term):
            raise ExecError("symbolic length to decode_reduce")
        data = ex_.read_bytes(buf_p, n)
        sc = [rec.fresh("red", 64) for _ in range(4)]
        for i, w in enumerate(sc):
            ex_.store(Ptr(self_p.obj, self_p.off + 8 * i), 8, w)
        rec.calls.append(("reduce", {"bytes": data, "scalar": sc}))
        return None
    ex.add_call_hook(r"modint.*ModInt256.*set_decode_reduce", h_reduce)

    def h_mulgen(ex_, name, argv, rty):
        sc = ex_.read_words(argv[1], 4, 8)
        pt = [rec.fresh("mg", 64) for _ in range(16)]
        for i, w in enumerate(pt):
            ex_.store(Ptr(argv[0].obj, argv[0].off + 8 * i), 8, w)
        rec.calls.append(("mulgen", {"scalar": sc, "point": pt}))
        return None
    ex.add_call_hook(r"%s5Point10set_mulgen" % curve, h_mulgen)

    def h_enc(ex_, name, argv, rty):
        pt = ex_.read_words(argv[1], 16, 8)
        out = [rec.fresh("encb", 8) for _ in range(32)]
        for i, b in enumerate(out):
            ex_.store(Ptr(argv[0].obj, argv[0].off + i), 1, b)
        rec.calls.append(("enc", {"P": pt, "bytes": out}))
        return None
    ex.add_call_hook(r"%s5Point6encode" % curve, h_enc)


def install_verify(ex, rec, curve, renc):
    """verifier-side stubs for the composition run: set_decode32 succeeds (premise: canonical s),
    encode(R') returns the signer's R_enc (premise: R' = R)"""
    ex.add_call_hook(r"blake2s.*Blake2s.*process_block", _h_b2s(rec))

    def h_sdec(ex_, name, argv, rty):
        self_p, buf_p = argv[0], argv[1]
        data = ex_.read_bytes(buf_p, 32)
        sc = [rec.fresh("vsc", 64) for _ in range(4)]
        for i, w in enumerate(sc):
            ex_.store(Ptr(self_p.obj, self_p.off + 8 * i), 8, w)
        rec.calls.append(("sdec", {"bytes": data, "scalar": sc}))
        return ALL1
    ex.add_call_hook(r"modint.*ModInt256.*set_decode32", h_sdec)

    def h_mm(ex_, name, argv, rty):
        pt = ex_.read_words(argv[0], 16, 8)
        ints = [a for a in argv[1:] if not isinstance(a, Ptr)]
        ptrs = [a for a in argv[1:] if isinstance(a, Ptr)]
        if len(ints) == 1:
            u = ints[0]
            uw = [T.t_extract(u, 0, 64) if isinstance(u, T.Term) else u & (2**64 - 1),
                  T.t_extract(u, 64, 64) if isinstance(u, T.Term) else u >> 64]
        elif len(ints) == 2:
            uw = ints
        else:
            raise ExecError("unexpected signature of %s" % MMFN[curve])
        v = ex_.read_words(ptrs[-1], 4, 8)
        res = [rec.fresh("vmm", 64) for _ in range(16)]
        for i, w in enumerate(res):
            ex_.store(Ptr(argv[0].obj, argv[0].off + 8 * i), 8, w)
        rec.calls.append(("mulmul", {"P": pt, "u": uw, "v": v, "res": res}))
        return None
    ex.add_call_hook(r"%s.*Point.*%s" % (curve, MMFN[curve]), h_mm)

    def h_enc(ex_, name, argv, rty):
        pt = ex_.read_words(argv[1], 16, 8)
        for i, b in enumerate(renc):
            ex_.store(Ptr(argv[0].obj, argv[0].off + i), 1, b)
        rec.calls.append(("enc", {"P": pt, "bytes": list(renc)}))
        return None
    ex.add_call_hook(r"%s5Point6encode" % curve, h_enc)


# ---------------------------------------------------------------------------
# helpers

def _equal(xs, ys, w, timeout):
    """term identity, else z3 on the differing elements; returns (verdict, queries)"""
    if glue.same_terms(xs, ys):
        return "unsat", 0
    if len(xs) != len(ys):
        return "sat", 0
    em = BVEmitter()
    diffs = ["(distinct %s %s)" % (em.ref(x, w) if isinstance(x, T.Term) else bvc(x, w),
                                   em.ref(y, w) if isinstance(y, T.Term) else bvc(y, w))
             for x, y in zip(xs, ys) if not (x is y or (not isinstance(x, T.Term) and not isinstance(y, T.Term) and x == y))]
    if not diffs:
        return "unsat", 0
    v, _, _ = run_solver(em.script(["(or %s)" % " ".join(diffs)] if len(diffs) > 1 else diffs, get_model=False), "z3", timeout)
    return v, 1


def _digest(call):
    h = [glue.uf("b2s", i, call["h"] + call["block"] + [call["ctr"], call["last"]], 32, B2S_W) for i in range(8)]
    return [T.t_extract(x, 8 * k, 8) for x in h for k in range(4)]


def match_chain(calls, msg, what, timeout):
    """the recorded compression calls are exactly unkeyed BLAKE2s-256 over msg; returns (digest bytes or None, problem or None, queries)"""
    chain = b2s_chain(msg)
    nq = 0
    if len(calls) != len(chain):
        return None, "%s: %d BLAKE2s compression calls, expected %d (input length differs)" % (what, len(calls), len(chain)), nq
    h = list(B2S_IV)
    h[0] ^= 0x01010020
    for k, (call, (blk, ctr, last)) in enumerate(zip(calls, chain)):
        if call["ctr"] != ctr or call["last"] != last:
            return None, "%s, block %d: counter/last flag (%d,%d), expected (%d,%d)" % (what, k, call["ctr"], call["last"], ctr, last), nq
        if not glue.same_terms(call["h"], h):
            return None, "%s, block %d: chaining value is not the previous state / parameterised IV" % (what, k), nq
        v, q = _equal(call["block"], blk, 8, timeout)
        nq += q
        if v != "unsat":
            bad = [i for i, (x, y) in enumerate(zip(call["block"], blk)) if x is not y and not (not isinstance(x, T.Term) and not isinstance(y, T.Term) and x == y)]
            return None, "%s, block %d: bytes %s.. differ from the documented input (solver: %s)" % (what, k, bad[:4], v), nq
        h = [glue.uf("b2s", i, call["h"] + call["block"] + [call["ctr"], call["last"]], 32, B2S_W) for i in range(8)]
    return _digest(calls[-1]), None, nq


def tag_bytes(namelen, nm):
    return [0x52] if namelen == 0 else [0x48] + list(nm) + [0x00]


def le_words(bs):
    out = []
    for half in (0, 1):
        acc, width = bs[8 * half], 8
        for b in bs[8 * half + 1:8 * half + 8]:
            acc = T.t_concat(b, acc, 8, width)
            width += 8
        out.append(acc)
    return out


# ---------------------------------------------------------------------------
# the two obligations of a shape

def check_sign(built, shape, timeout):
    curve, variant, seedlen, namelen, datalen = shape
    mod = CURVES[curve]
    fn = VARIANT_FN[variant]
    label = "%s.%s[seed=%d,name=%d,data=%d]" % (curve, fn, seedlen, namelen, datalen)
    fns = ["%s::PrivateKey::%s" % (mod, fn), "%s::make_challenge" % mod]
    if variant != "seeded":
        fns.append("%s::PrivateKey::sign_seeded" % mod)
    ob = Obligation("default:" + label, "L", fns,
                    "all secret-scalar limbs, stored public-key bytes, seed / RNG bytes, hash-name and data bytes at these lengths",
                    "sig = cb || encode(k + d*c'), k = reduce(BLAKE2s(encode(d) || pk || le64(|seed|) || seed || tag || data)), "
                    "cb = BLAKE2s(encode(mulgen(k)) || pk || tag || data)[0..16], c' the documented integer of cb (see module doc)")
    ob2 = Obligation("default:%s.sign_then_verify[%s,seed=%d,name=%d,data=%d]" % (curve, fn, seedlen, namelen, datalen), "L",
                     ["%s::PrivateKey::%s" % (mod, fn), "%s::PublicKey::verify" % mod, "%s::make_challenge" % mod],
                     "the signer's symbolic output at this shape, any key point; premises: s canonical (C05), encode([s]B - [c']Q) = encode([k]B) (C04/C10/C06)",
                     "verify(sig) = true: s read from sig[16..48], c' from sig[0..16], and the verifier's challenge input is byte-identical to the signer's")
    t0 = time.time()
    nq = 0
    rec = glue.Recorder()

    def policy(ex_, c, where):
        raise ExecError("signing is constant-time: unexpected data-dependent branch at %s" % where)

    def setup(ex):
        install_sign(ex, rec, curve)
        ex.branch_policy = policy
    try:
        ex, ins, outs = sym_run(built, nm_sign(shape), executor_setup=setup)
    except PanicReached as e:
        r = "panic reached in the stubbed model: %s" % e.callee[:80]
        return [ob.unknown(r), ob2.unknown("signer run: " + r)]
    except ExecError as e:
        r = "executor: %s" % str(e)[:300]
        return [ob.unknown(r), ob2.unknown("signer run: " + r)]
    sec, pke, seed, nm, data = ins["sec"], ins["pke"], ins.get("seed", []), ins.get("name", []), ins["data"]
    sig = outs["sig"]
    if sig is None:
        return [ob.unknown("signature not fully written"), ob2.unknown("signer run: signature not fully written")]
    tag = tag_bytes(namelen, nm)
    seq = [t for t, _ in rec.calls]
    red = [c for t, c in rec.calls if t == "reduce"]
    mg = [c for t, c in rec.calls if t == "mulgen"]
    enc = [c for t, c in rec.calls if t == "enc"]
    problems = []       # R = mulgen(k), published challenge bytes, response scalar: the composition depends on these
    kproblems = []      # derivation of k: any k gives an acceptable signature
    fproblems = []      # content of the challenge hash input: the composition run compares signer and verifier itself
    renc = None
    if len(red) != 1 or len(mg) != 1 or len(enc) != 1:
        problems.append("unexpected call structure: %d reductions, %d mulgen, %d point encodings" % (len(red), len(mg), len(enc)))
    else:
        i_red, i_mg, i_enc = seq.index("reduce"), seq.index("mulgen"), seq.index("enc")
        if not (i_red < i_mg < i_enc) or any(t != "b2s" for t in seq[:i_red]) or any(t != "b2s" for t in seq[i_enc + 1:]) \
                or i_mg != i_red + 1 or i_enc != i_mg + 1:
            problems.append("unexpected call order: %s" % " ".join(seq)[:200])
        else:
            kcalls = [c for _, c in rec.calls[:i_red]]
            ccalls = [c for _, c in rec.calls[i_enc + 1:]]
            renc = enc[0]["bytes"]
            # (1) per-signature secret
            _, _, so = sym_run(built, "drv_%s_sg_scenc" % curve, concrete={"a": list(sec)})
            senc = so["out"]
            slen = 32 if variant == "rand" else seedlen
            kin = list(senc) + list(pke) + list(slen.to_bytes(8, "little")) + list(seed) + tag + list(data)
            kd, pb, q = match_chain(kcalls, kin, "per-signature secret hash", min(timeout, 20))
            nq += q
            if pb:
                kproblems.append(pb + " [documented: encode(d) || pk || le64(|seed|) || seed || tag || data]")
            elif len(red[0]["bytes"]) != 32 or not glue.same_terms(red[0]["bytes"], kd):
                kproblems.append("k is not reduce(the 32-byte digest of the per-signature secret hash)")
            # (2) R = mulgen(k), and it is R that is encoded into the challenge
            if not glue.same_terms(mg[0]["scalar"], red[0]["scalar"]):
                problems.append("R is not mulgen(k) for the reduced hash k")
            if not glue.same_terms(enc[0]["P"], mg[0]["point"]):
                problems.append("the point encoded into the challenge is not R")
            # (3) challenge: same spec function as on the verifier side
            cin = list(renc) + list(pke) + tag + list(data)
            cd, pb, q = match_chain(ccalls, cin, "challenge hash", min(timeout, 20))
            nq += q
            if pb:
                fproblems.append(pb + " [specified: encode(R) || pk || tag || data]")
            elif not glue.same_terms(cd[:16], b2s_uf_spec(cin)[:16]):
                fproblems.append("challenge digest differs from the verifier-side spec function b2s_uf_spec")
            if not ccalls:
                problems.append("no challenge hash is computed after encode(R)")
            else:
                # whatever was hashed: the 16 bytes the signer publishes and multiplies by are the head of that digest
                cda = _digest(ccalls[-1])
                if not glue.same_terms(list(sig[0:16]), cda[:16]):
                    problems.append("sig[0..16] is not the first 16 bytes of the challenge digest")
                # (4) response scalar: the real inlined arithmetic against the reference driver on the stub outputs
                _, _, sr = sym_run(built, "drv_%s_sg_sref" % curve,
                                   concrete={"k": red[0]["scalar"], "d": list(sec), "cb": cda[:16]})
                v, q = _equal(list(sig[16:48]), sr["out"], 8, min(timeout, 20))
                nq += q
                if v != "unsat":
                    problems.append("sig[16..48] is not encode(k + d*c') with c' the documented integer of the 16 challenge bytes (solver: %s)" % v)
    res = []
    if problems or kproblems or fproblems:
        res.append(_confirm(ob, built, shape, kproblems + fproblems + problems, time.time() - t0, nq))
    else:
        res.append(ob.ok("symbolic execution with contract stubs; hash chains and wiring by term identity; response scalar %s"
                         % ("equal to the reference driver's by z3-bv x%d" % nq if nq else "term-identical to the reference driver's"),
                         time.time() - t0, max(nq, 1), syntactic=(nq == 0)))
    if problems:
        # R = mulgen(k) / sig[0..16] / s = k + d*c' not established: the premise R' = R of the composition has no support
        res.append(_confirm_rt(ob2, built, shape, ["signing-side equations not established (%s): the premise R' = R is unsupported"
                                                   % "; ".join(problems)[:200]], time.time() - t0, nq))
    else:
        res.append(check_compose(ob2, built, shape, ins, sig, renc, timeout))
    return res


def check_compose(ob, built, shape, ins, sig, renc, timeout):
    curve, variant, seedlen, namelen, datalen = shape
    t0 = time.time()
    nq = 0
    pke, nm, data = ins["pke"], ins.get("name", []), ins["data"]
    # the verifier sees sig[16..48] only through the canonicity test and the decoded scalar handed to the (stubbed)
    # double multiplication: the signer's 32 s-bytes are abstracted to fresh bytes constrained to be canonical
    sfresh = [T.var("s_enc%d" % i, 8) for i in range(32)]
    vsig = list(sig[0:16]) + sfresh
    work, paths = [[]], []
    while work and len(paths) < 16:
        dec = work.pop()
        rec = glue.Recorder()
        path = Path()
        pos = [0]

        def policy(ex_, c, where, dec=dec, path=path, pos=pos):
            nonlocal nq
            i = pos[0]
            pos[0] += 1
            if i < len(dec):
                path.conds.append((c, dec[i]))
                return dec[i]
            sides = []
            for val in (1, 0):
                st, _ = _feasible(path.conds + [(c, val)], 20)
                nq += 1
                if st != "unsat":
                    sides.append(val)
            if not sides:
                raise ExecError("both sides infeasible at %s" % where)
            if len(sides) == 2:
                work.append(dec[:i] + [sides[1]])
            dec.append(sides[0])
            path.conds.append((c, sides[0]))
            return sides[0]

        def setup(ex, rec=rec):
            install_verify(ex, rec, curve, renc)
            ex.branch_policy = policy
        conc = {"pke": list(pke), "sig": list(vsig), "data": list(data)}
        if namelen:
            conc["name"] = list(nm)
        try:
            ex, vins, vouts = sym_run(built, nm_vf(shape), executor_setup=setup, concrete=conc)
            path.outcome, path.ins, path.outs = "ret", vins, vouts
        except PanicReached as e:
            path.outcome, path.info = "panic", {"callee": e.callee}
        except ExecError as e:
            return ob.unknown("verifier run, executor: %s" % str(e)[:300])
        path.rec = rec
        paths.append(path)
    if work:
        return ob.unknown("path budget exhausted in the verifier run")
    problems = []
    reached = False
    for p in paths:
        if p.outcome == "panic":
            st, _ = _feasible(p.conds, timeout)
            nq += 1
            if st != "unsat":
                return ob.unknown("a panic path is reachable in the verifier run: %s" % p.info["callee"][:80])
            continue
        c = p.rec.calls
        sd = [x for t, x in c if t == "sdec"]
        mm = [x for t, x in c if t == "mulmul"]
        en = [x for t, x in c if t == "enc"]
        st = p.outs["st"][0]
        em = BVEmitter()
        pc = ["(= %s %s)" % (em.ref(cc, 1), "#b1" if v_ else "#b0") for cc, v_ in p.conds]
        Sint = em.ref(sfresh[0], 8)
        for b in sfresh[1:]:
            Sint = "(concat %s %s)" % (em.ref(b, 8), Sint)
        canon = "(bvult %s %s)" % (Sint, bvc(RORD[curve], 256))
        if not mm:
            # a path that stops before the point computation must be excluded by the premise (s canonical)
            v, _, _ = run_solver(em.script(pc + [canon], get_model=False), "z3", timeout)
            nq += 1
            if v != "unsat":
                problems.append("the verifier rejects a 48-byte signature with canonical s before the point computation (solver: %s)" % v)
            continue
        reached = True
        if sd:
            if len(sd) != 1 or not glue.same_terms(sd[0]["bytes"], sfresh):
                problems.append("the verifier does not decode s from sig[16..48]")
                continue
            s_scalar = sd[0]["scalar"]
        else:
            _, _, so = sym_run(built, "drv_%s_sg_sdec32" % curve, concrete={"buf": sfresh})
            s_scalar = so["out"]
        v, q = _equal(mm[0]["v"], s_scalar, 64, timeout)
        nq += q
        if v != "unsat":
            problems.append("the verifier's generator multiplier is not Scalar::decode32(sig[16..48]) (solver: %s)" % v)
        v, q = _equal(mm[0]["u"], le_words(list(sig[0:16])), 64, timeout)
        nq += q
        if v != "unsat":
            problems.append("the verifier's multiplier is not the little-endian integer of the signer's sig[0..16] (solver: %s)" % v)
        pvars = set(x.aux[0] for x in T.variables([w for w in mm[0]["P"] if isinstance(w, T.Term)]))
        kvars = set(x.aux[0] for x in T.variables([w for w in p.ins["pt"] if isinstance(w, T.Term)]))
        if not pvars or not pvars <= kvars:
            problems.append("the point operand of the double multiplication is not derived from the key point alone")
        if len(mm) != 1 or len(en) != 1 or not glue.same_terms(en[0]["P"], mm[0]["res"]):
            problems.append("the point hashed by the verifier is not the result of the double multiplication")
            continue
        if isinstance(st, T.Term) or st != 1:
            v, _, _ = run_solver(em.script(pc + [canon, "(distinct %s %s)" % (em.ref(st, 32) if isinstance(st, T.Term) else bvc(st, 32), bvc(1, 32))],
                                           get_model=False), "z3", timeout)
            nq += 1
            if v != "unsat":
                problems.append("with R' encoded as the signer's R, the verifier's verdict is not `true` (solver: %s): "
                                "its challenge input differs from the signer's" % v)
    if not reached:
        problems.append("no verifier path reaches the point computation (vacuous)")
    if problems:
        return _confirm_rt(ob, built, shape, problems, time.time() - t0, nq)
    return ob.ok("real verifier IR run on the signer's symbolic output (contract stubs, %d path%s); term identity%s"
                 % (len(paths), "" if len(paths) == 1 else "s", "; z3-bv x%d" % nq if nq else ""),
                 time.time() - t0, max(nq, 1), syntactic=(nq == 0))


# ---------------------------------------------------------------------------
# native confirmation

def cprime(curve, cb):
    if curve == "gls254":
        return (int.from_bytes(cb[:8], "little") + GLS_MU * int.from_bytes(cb[8:16], "little")) % RORD[curve]
    return int.from_bytes(cb[:16], "little")


def ref_sign(built, curve, senc, pke, seed, name, data):
    """independent signer: hashlib + Python integers; encode(mulgen(k)) from the library (stub domain)"""
    import hashlib
    r = RORD[curve]
    tag = b"\x52" if not name else b"\x48" + bytes(name) + b"\x00"
    d = int.from_bytes(bytes(senc), "little")
    kd = hashlib.blake2s(bytes(senc) + bytes(pke) + len(seed).to_bytes(8, "little") + bytes(seed) + tag + bytes(data)).digest()
    k = int.from_bytes(kd, "little") % r
    renc = bytes(built.native("drv_%s_sg_mg" % curve, {"kb": list(kd)})["renc"])
    cb = hashlib.blake2s(renc + bytes(pke) + tag + bytes(data)).digest()[:16]
    s = (k + d * cprime(curve, cb)) % r
    return cb + s.to_bytes(32, "little"), renc


def _native_cases(built, shape, count):
    curve, variant, seedlen, namelen, datalen = shape
    r = rng("c09s", nm_sign(shape))
    for it in range(count):
        kseed = [r.getrandbits(8) for _ in range(32)]
        if it == 1:
            kseed = [1] + [0] * 31
        mk = built.native("drv_%s_sg_mk" % curve, {"seed": kseed})
        inp = {"sec": mk["sec"], "pke": mk["pke"], "seed": [r.getrandbits(8) for _ in range(seedlen)],
               "name": [0x41 + r.randrange(26) for _ in range(namelen)], "data": [r.getrandbits(8) for _ in range(datalen)]}
        if it == 2 and datalen:
            inp["data"] = [0xFF] * datalen
        sig = built.native(nm_sign(shape), inp)["sig"]
        want, renc = ref_sign(built, curve, mk["senc"], mk["pke"], inp["seed"], inp["name"], inp["data"])
        vf = built.native(nm_vf(shape), {"pt": mk["pt"], "pke": mk["pke"], "sig": sig, "name": inp["name"], "data": inp["data"]})["st"][0]
        yield kseed, mk, inp, sig, want, vf


def _hexin(kseed, mk, inp):
    return {"key_seed": bytes(kseed).hex(), "secret_enc": bytes(mk["senc"]).hex(), "pk": bytes(mk["pke"]).hex(),
            "seed": bytes(inp["seed"]).hex(), "name": bytes(inp["name"]).hex(), "data": bytes(inp["data"]).hex()}


def _confirm(ob, built, shape, problems, secs, nq):
    """structural mismatch in the signer: confirmed when a native signature differs from the independent signer
    or is rejected by the library verifier"""
    curve = shape[0]
    if pow(GLS_MU, 2, RORD["gls254"]) != RORD["gls254"] - 1:
        return ob.unknown("machinery: the mu constant of the reference is not a square root of -1")
    for kseed, mk, inp, sig, want, vf in _native_cases(built, shape, 16):
        if bytes(sig) != want or vf != 1:
            return ob.fail({"key": "%s.sign" % curve, "problems": problems, "inputs": _hexin(kseed, mk, inp),
                            "native": {"sig": bytes(sig).hex(), "verify": vf}, "expected": {"sig": want.hex(), "verify": 1},
                            "found_by": "structural mismatch in the stubbed model, confirmed natively against an independent signer "
                                        "(hashlib BLAKE2s + Python integers for the documented glue; library mulgen/encode for R)"},
                           "z3-bv+replay", secs, nq)
    return ob.unknown("structural mismatch (%s) not confirmed natively (16 keys at this shape)" % "; ".join(problems)[:300])


def _confirm_rt(ob, built, shape, problems, secs, nq):
    """structural mismatch in the composition: confirmed when the library verifier rejects a library-made signature"""
    curve = shape[0]
    for kseed, mk, inp, sig, want, vf in _native_cases(built, shape, 16):
        if vf != 1:
            return ob.fail({"key": "%s.sign_then_verify" % curve, "problems": problems, "inputs": _hexin(kseed, mk, inp),
                            "native": {"sig": bytes(sig).hex(), "verify": vf}, "expected": {"verify": 1},
                            "found_by": "structural mismatch in the stubbed model; natively a signature made by the library is rejected by its verifier"},
                           "z3-bv+replay", secs, nq)
    return ob.unknown("structural mismatch (%s) not confirmed natively: the library verifier accepts the library's signatures "
                      "(16 keys at this shape)" % "; ".join(problems)[:300])


# (curve, variant, seed length, hash-name length, data length); k-hash input = 73 + seed + (name + 1 if name) + data bytes
QUICK = [("jq255e", "det", 0, 0, 8), ("jq255e", "seeded", 32, 0, 0), ("jq255e", "seeded", 5, 3, 8), ("jq255e", "seeded", 0, 0, 55),
         ("jq255e", "det", 0, 6, 32), ("jq255e", "rand", 32, 0, 24), ("jq255e", "det", 0, 0, 70),
         ("jq255s", "det", 0, 0, 8), ("jq255s", "seeded", 16, 6, 32), ("jq255s", "rand", 32, 0, 24),
         ("gls254", "det", 0, 0, 8), ("gls254", "seeded", 32, 4, 24), ("gls254", "rand", 32, 0, 8), ("gls254", "seeded", 1, 0, 64)]
THOROUGH = QUICK + [(c, "seeded", sl, 0, d) for c in ("jq255e", "jq255s", "gls254") for sl, d in ((0, 0), (0, 54), (0, 56), (7, 121), (64, 1), (33, 200))] + \
    [(c, "det", 0, n, 64) for c in ("jq255s", "gls254") for n in (1, 8)] + [("jq255e", "rand", 32, 3, 32)]
