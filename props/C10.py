"""C10 Variable-time fast paths agree with the constant-time reference.

Engine P, algorithm mode with symbolic control flow: the interleaved wNAF
loops `set_mul_add_mulgen_vartime` / `set_mul128_add_mulgen_vartime` are
executed from their MIR over the free module with *arbitrary valid wNAF digit
arrays* (contract of the recoders: every digit 0 or odd with |d| <= 15).  The
loop is cut at every iteration: from an arbitrary state (zz flag, pending
doubling count N, accumulator A) one iteration is executed along every
feasible path (zero column skipped, first non-zero column, sign branches,
data-dependent window index), and z3 decides on each path the column lemma

        V' = 2*V + D_i ,   V := (zz ? 0 : A*2^N),

D_i the value of the digits of column i.  With V = 0 before the loop and
`result = V` after it (both decided the same way) this gives, by Horner,
result = sum_i 2^i D_i = u*P + v*G.  See engines/polyid/NOTES.md."""
import random
import re
import threading
import time

import z3

from vlib.common import Obligation, finish, log, NCPU, SEED
from vlib.par import pmap
from engines.polyid.build import dump_mir
from engines.polyid.interp import Cell, Ref, IntV, BoolV, Agg, MirError, Unsupported
from engines.polyid.algo import (AlgoInterp, Config, Lin, PendLin, PathEnd, ScalarTok, SymV, SymB, NotAbstractable,
                                 decide, _iv)
from engines.polyid.curves import models
from engines.polyid import replay as RP
from . import C04 as K4
from . import C10_helper as HP

MIR = None
MODELS = None
Z3_TIMEOUT_MS = 30000
Z3_VERSION = "z3 " + z3.get_version_string()

NAF = ["recode_scalar_NAF", "recode_u128_NAF", "recode_u129_NAF", "recode_halfwidth_NAF"]
ROUTINES = {
    "ed25519": ["set_mul_add_mulgen_vartime"],
    "p256": ["set_mul_add_mulgen_vartime"],
    "jq255s": ["set_mul_add_mulgen_vartime", "set_mul128_add_mulgen_vartime"],
    "ed448": ["set_mul_add_mulgen_vartime"],
    "secp256k1": ["set_mul_add_mulgen_vartime"],
    "jq255e": ["set_mul_add_mulgen_vartime", "set_mul128_add_mulgen_vartime"],
    "gls254": ["set_mul_add_mulgen_vartime", "set_mul64mu_add_mulgen_vartime"],
}
QUICK = ["ed25519", "p256"]
STRAIGHT = {("gls254", "set_mul_add_mulgen_vartime")}
NCHUNK = 48


class Machinery(Exception):
    pass


def config_for(name):
    c = dict(K4.CURVES[name]["cfg"])
    tabs = dict(c["tables"])
    if name == "jq255e":
        tabs["PRECOMP_B130_ODD"] = (130, "odd", "B")
    c["tables"] = tabs
    c["naf_recoders"] = NAF
    return Config(name, **c)


def make_args(it, name, fn):
    """arguments of the routine: self = P, then (u, v)"""
    it.scalar_gen = {"u": Lin.gen("P"), "v": Lin.gen("B")}
    cell = Cell(it.wrap(Lin.gen("P")))
    if fn == "set_mul128_add_mulgen_vartime":
        U = z3.Int("u")
        it.assumptions.append(z3.And(U >= 0, U < (1 << 128)))
        it.int_gen.append((U, Lin.gen("P")))
        u = SymV(z3.Int2BV(U, 128), 128, False, U)
        return cell, [Ref(cell), u, Ref(Cell(ScalarTok("v")))]
    if fn == "set_mul64mu_add_mulgen_vartime":
        U0, U1 = z3.Int("u0"), z3.Int("u1")
        for U in (U0, U1):
            it.assumptions.append(z3.And(U >= 0, U < (1 << 64)))
        it.int_gen.append((U0, Lin.gen("P")))
        it.int_gen.append((U1, Lin.gen("P").endo(it.cfg.endo)))
        return cell, [Ref(cell), SymV(z3.Int2BV(U0, 64), 64, False, U0), SymV(z3.Int2BV(U1, 64), 64, False, U1),
                      Ref(Cell(ScalarTok("v")))]
    return cell, [Ref(cell), Ref(Cell(ScalarTok("u"))), Ref(Cell(ScalarTok("v")))]


ACC_MODE = {("gls254", "set_mul64mu_add_mulgen_vartime"): 5}     # plain accumulate loops: window bits


def scout(name, fn):
    """loop length of the main (reversed) loop, with all digits fixed to zero"""
    it = AlgoInterp(MIR, config_for(name))
    it.col_range = (1, 0, 1)
    info = {"L": None, "n": 0}
    top = name + "::"

    def hook(interp, fr, k, it_ref):
        if not (fr.body.name.startswith(top) and fr.body.name.endswith("::" + fn)):
            return
        rng = it_ref.get()
        if isinstance(rng, Agg) and rng.path and rng.path.endswith("Rev"):
            inner = rng.fields[0]
            if info["L"] is None:
                info["L"] = inner.fields[1].v
            info["n"] += 1
    it.loop_hook = hook
    cell, args = make_args(it, name, fn)
    it.run_forking(it.find_fn(name, "Point", fn), args, lambda f, rv: None)
    return info["L"], it


def task_chunk(name, fn, lo, hi, L):
    """column lemmas for columns lo..hi (and the initial / final segments when
    the chunk contains the top / bottom column)"""
    t0 = time.time()
    cfg = config_for(name)
    it = AlgoInterp(MIR, cfg)
    it.prune = False
    it.col_range = (lo, hi, L)
    top = name + "::"
    st = {"cur": None, "items": [], "init": None, "final_seen": False, "k": 0}
    gens = None

    def mine(fr):
        return fr.body.name.startswith(top) and fr.body.name.endswith("::" + fn)

    wbits = ACC_MODE.get((name, fn))
    accmode = wbits is not None
    base_w = wbits or 1

    def read_state(fr):
        if accmode:
            return BoolV(False), IntV(0, 32), interp_lin(fr)
        zz = fr.cell(fr.debug_local("zz")).val
        nd = fr.cell(fr.debug_local("ndbl")).val
        acc = interp_lin(fr)
        return zz, nd, acc

    def interp_lin(fr):
        return it.as_lin(fr.cell(1).val.get(), pending=True)

    def value(zz, nd, acc):
        """V = zz ? 0 : acc * 2^ndbl"""
        if isinstance(zz, BoolV) or (isinstance(zz, IntV) and not isinstance(zz, SymV)):
            zc = bool(zz.v)
        elif isinstance(zz, SymB):
            zc = zz.e
        else:
            raise NotAbstractable("zz flag is %r" % (zz,))
        if zc is True:
            return Lin()
        if isinstance(acc, PendLin):
            if isinstance(nd, IntV):
                d = z3.simplify(z3.IntVal(nd.v) - acc.N)
            elif nd.iv is not None:
                d = z3.simplify(nd.iv - acc.N)
            else:
                raise NotAbstractable("pending count without integer view")
            if not z3.is_int_value(d) or d.as_long() < 0:
                # only acceptable when the path forces ndbl = N = 0... not expected at a cut
                raise NotAbstractable("pending doublings %s" % d)
            v = acc.W.scale(1 << d.as_long())
        else:
            if not isinstance(nd, IntV):
                raise NotAbstractable("symbolic doubling count on a concrete accumulator")
            v = acc.scale(1 << nd.v)
        if zc is False:
            return v
        return Lin.ite(zc, Lin(), v)

    def havoc(fr, tag):
        nonlocal gens
        if accmode:
            W = Lin({g: z3.Int("W_%s_%s_%d" % (tag, g[0], g[1])) for g in gens})
            fr.cell(1).val.set(it.wrap(W))
            return W
        zzv = z3.Bool("zz_%s" % tag)
        N = z3.Int("N_%s" % tag)
        it.assumptions.append(z3.And(N >= 0, N <= 100000))
        W = Lin({g: z3.Int("W_%s_%s_%d" % (tag, g[0], g[1])) for g in gens})
        fr.cell(fr.debug_local("zz")).val = SymB(zzv)
        fr.cell(fr.debug_local("ndbl")).val = SymV(z3.Int2BV(N, 32), 32, False, N)
        fr.cell(1).val.set(it.wrap(PendLin(W, N)))
        return Lin.ite(zzv, Lin(), W)

    def park(fr):
        if accmode:
            fr.cell(1).val.set(it.wrap(Lin()))
            return
        fr.cell(fr.debug_local("zz")).val = BoolV(True)
        fr.cell(fr.debug_local("ndbl")).val = IntV(0, 32)
        fr.cell(1).val.set(it.wrap(Lin()))

    def hook(interp, fr, k, it_ref):
        nonlocal gens
        if not mine(fr):
            return
        rng = it_ref.get()
        if not (isinstance(rng, Agg) and rng.path and rng.path.endswith("Rev")):
            return
        inner = rng.fields[0]
        s_, e_ = inner.fields[0].v, inner.fields[1].v
        col = e_ - 1 if s_ < e_ else None       # column the coming iteration will process
        if gens is None:
            gens = sorted({g for ds, gl in it.streams for g in gl.c} | {("P", 0), ("B", 0)})
        if st["cur"] is not None:
            zz, nd, acc = read_state(fr)
            st["items"].append((st["cur"]["col"], list(it.path), st["cur"]["V"], value(zz, nd, acc)))
            if it.pending_paths:
                raise PathEnd()
            st["cur"] = None
        else:
            if st["init"] is None and accmode:
                if col == L - 2 and hi == L - 1:
                    zz, nd, acc = read_state(fr)
                    st["items"].append((L - 1, list(it.path), Lin(), value(zz, nd, acc)))
                st["init"] = True
            elif st["init"] is None and col == L - 1:
                zz, nd, acc = read_state(fr)
                st["init"] = (isinstance(zz, IntV) and not isinstance(zz, SymV) and bool(zz.v)) or \
                    (isinstance(zz, BoolV) and bool(zz.v))
        it.path = []
        if col is not None and lo <= col <= hi:
            V = havoc(fr, "c%d" % col)
            st["cur"] = dict(col=col, V=V)
        elif col is None and lo == 0:
            V = havoc(fr, "fin")
            st["cur"] = dict(col=-1, V=V)
            st["final_seen"] = True
        else:
            park(fr)

    def on_return(fr, rv):
        if st["cur"] is None or st["cur"]["col"] != -1:
            return
        acc = it.as_lin(fr.cell(1).val.get(), pending=True)
        if isinstance(acc, PendLin):
            # no doubling applied on this path: only right if the pending count is 0 here
            stt, _, _ = decide(it.assumptions + list(it.path), acc.N == 0, Z3_TIMEOUT_MS)
            if stt != "unsat":
                st["items"].append((-1, list(it.path), st["cur"]["V"], None))
                return
            acc = acc.W
        st["items"].append((-1, list(it.path), st["cur"]["V"], acc))

    it.loop_hook = hook
    cell, args = make_args(it, name, fn)
    it.run_forking(it.find_fn(name, "Point", fn), args, on_return)
    # ---- decide the lemmas
    res = {"checked": 0, "fails": [], "unknown": [], "secs": 0.0, "queries": 0, "paths": len(st["items"]),
           "init": st["init"], "ops": dict(it.ops), "fns": sorted(n for n in it.executed if "::<impl" in n),
           "cols": set(), "forks": it.nforks, "feas": getattr(it, "nfeas", 0)}
    for col, path, V0, V1 in st["items"]:
        res["cols"].add(col)
        if V1 is None:
            res["fails"].append("final segment: accumulator returned with pending doublings")
            continue
        if col >= 0:
            D = Lin()
            for ds, gl in it.streams:
                m = 0
                while col + m * L < len(ds):
                    d = ds[col + m * L]
                    dv = d.iv if isinstance(d, SymV) else d.v
                    for g, c in gl.c.items():
                        from engines.polyid.algo import _mul_int
                        term = _mul_int(_iv(dv), c) if not isinstance(c, int) else _iv(dv) * c
                        D = D + Lin({g: term * (1 << (base_w * m * L)) if m else term})
                    m += 1
            want = V0.scale(1 << base_w) + D
        else:
            want = V0
        keys = set(V1.c) | set(want.c)
        goal = z3.And([_iv(V1.get(g)) == _iv(want.get(g)) for g in sorted(keys)])
        stt, secs, mdl = decide(it.assumptions + path, goal, Z3_TIMEOUT_MS)
        res["checked"] += 1
        res["secs"] += secs
        res["queries"] += 1
        if stt == "sat":
            res["fails"].append("column %d: V' != 2V + D on a feasible path" % col)
        elif stt != "unsat":
            res["unknown"].append("column %d: %s" % (col, stt))
    side = {}
    for lab, c in it.side:
        side.setdefault(lab, []).append(c)
    for lab, cs in side.items():
        stt, secs, mdl = decide(it.assumptions, z3.And(cs), Z3_TIMEOUT_MS)
        res["secs"] += secs
        res["queries"] += 1
        if stt == "sat":
            res["fails"].append("side condition fails: " + lab)
        elif stt != "unsat":
            res["unknown"].append("side condition %s: %s" % (lab, stt))
    res["wall"] = time.time() - t0
    res["cols"] = sorted(res["cols"])
    return res


def task_straight(name, fn):
    """windowed (Booth) two-scalar routine without data-dependent control flow:
    decided like C04's set_mul, over Z[mu] on (P, B)"""
    cfg, base = K4.config_for(name)
    it = AlgoInterp(MIR, cfg)
    it.scalar_gen = {"u": Lin.gen("P"), "v": Lin.gen("B")}
    cell = Cell(it.wrap(Lin.gen("P")))
    it.run(it.find_fn(name, "Point", fn), [Ref(cell), Ref(Cell(ScalarTok("u"))), Ref(Cell(ScalarTok("v")))])
    out = it.as_lin(cell.val)
    res = {"fails": [], "unknown": [], "secs": 0.0, "queries": 0, "ops": dict(it.ops),
           "fns": sorted(n for n in it.executed if "::<impl" in n)}
    if it.ops.get("lookup", 0) < 20 or len(it.splits_seen) != 2:
        raise Machinery("%s.%s: unexpected shape %r" % (name, fn, it.ops))
    want = {}
    for src, k0, k1 in it.splits_seen:
        g = "P" if src.name == "u" else "B"
        want[(g, 0)] = k0
        want[(g, 1)] = k1
    for lab, stt, secs in it.lemmas:
        res["queries"] += 1
        res["secs"] += secs
        if stt != "unsat":
            res["unknown"].append("lemma not proved: " + lab)
    keys = set(out.keys()) | set(want)
    goal = z3.And([_iv(out.get(k)) == _iv(want.get(k, 0)) for k in sorted(keys)])
    stt, secs, mdl = decide(it.assumptions, goal, Z3_TIMEOUT_MS)
    res["queries"] += 1
    res["secs"] += secs
    if stt == "sat":
        res["fails"].append("coefficients differ from (u, v)")
    elif stt != "unsat":
        res["unknown"].append("coefficient query: " + stt)
    side = {}
    for lab, c in it.side:
        side.setdefault(lab, []).append(c)
    for lab, cs in side.items():
        stt, secs, mdl = decide(it.assumptions, z3.And(cs), Z3_TIMEOUT_MS)
        res["queries"] += 1
        res["secs"] += secs
        if stt == "sat":
            res["fails"].append("side condition fails: " + lab)
        elif stt != "unsat":
            res["unknown"].append("side condition %s: %s" % (lab, stt))
    return res


def _order_of(curve):
    from engines.polyid.recoders import scalar_order
    return scalar_order(MIR, curve)


def work(task):
    if isinstance(task[0], str) and task[0] in ("hglue", "hdirect", "hwrap", "hlemma", "hloop"):
        return HP.work(MIR, config_for, _order_of, task, Z3_TIMEOUT_MS)
    if task[0] == "straight":
        try:
            return task_straight(task[1], task[2])
        except NotAbstractable as e:
            return {"na": str(e)[:300]}
    if task[0] == "recoder":
        from engines.polyid.recoders import NAFS, recoder_task
        _, name, fn = task
        return recoder_task(MIR, name, fn, NAFS[name][fn], Z3_TIMEOUT_MS)
    name, fn, lo, hi, L = task
    try:
        return task_chunk(name, fn, lo, hi, L)
    except NotAbstractable as e:
        return {"na": str(e)[:300]}


# --------------------------------------------------------------------------

def native_check(rp, name, fn, rng, count):
    """u*P + v*B natively against the Python group"""
    m = MODELS[K4.CURVES[name]["model"]]
    B = K4.base_point(rp, name)
    if B is None:
        return 0, None, "cannot read the base point"
    if m.char2 and m.base is None:
        m.base = B
    r = K4.group_order(name) or (1 << 250)
    lines, exps = [], []
    special = [(0, 0), (1, 0), (0, 1), (r - 1, r - 1), (1, r - 1), ((1 << 128) - 1, 5), (1 << 127, 1 << 200)]
    for i in range(count):
        u, v = special[i] if i < len(special) else (rng.randrange(r), rng.randrange(r))
        if fn == "set_mul128_add_mulgen_vartime":
            u &= (1 << 128) - 1
        P = m.c_rand(rng)
        F = m.c_embed(P, m.c_scalar(rng))
        SL = K4.SCALAR_LEN[name]
        if fn == "set_mul64mu_add_mulgen_vartime":
            u0, u1 = u & ((1 << 64) - 1), (u >> 64) & ((1 << 64) - 1)
            if i == 3:
                u0 = u1 = (1 << 64) - 1
            coords = " ".join(int(x).to_bytes(K4.ENC[name], "little").hex() for x in F)
            r_mu = K4.run_lines(rp, ["%s mu 0 %s" % (name, coords)])[0]
            if r_mu[0] != "ok":
                return 0, None, "cannot compute mu*P natively"
            muP = m.c_decode(r_mu[1])[0]
            lines.append("%s vt64 0 %s %s %s %s" % (name, coords, int(u0).to_bytes(8, "little").hex(),
                                                    int(u1).to_bytes(8, "little").hex(),
                                                    int(v).to_bytes(SL, "little").hex()))
            exps.append(((u1 << 64) | u0, v, m.c_add(m.c_add(K4.c_mul(m, u0, P), K4.c_mul(m, u1, muP)),
                                                      K4.c_mul(m, v, B))))
            continue
        ub = int(u).to_bytes(16 if fn == "set_mul128_add_mulgen_vartime" else SL, "little").hex()
        lines.append("%s %s 0 %s %s %s" % (name, "vt128" if "128" in fn else "vt",
                                           " ".join(int(x).to_bytes(K4.ENC[name], "little").hex() for x in F),
                                           ub, int(v).to_bytes(SL, "little").hex()))
        exps.append((u, v, m.c_add(K4.c_mul(m, u, P), K4.c_mul(m, v, B))))
    res = K4.run_lines(rp, lines)
    checked = 0
    for (u, v, E), r_, ln in zip(exps, res, lines):
        if r_[0] == "error":
            return checked, None, r_[1]
        if r_[0] == "panic":
            return checked, dict(key="%s.%s" % (name, fn), u=hex(u), v=hex(v), request=ln, native="panic"), None
        got, valid = m.c_decode(r_[1])
        checked += 1
        if not valid or not m.c_same(got, E):
            return checked, dict(key="%s.%s" % (name, fn), u=hex(u), v=hex(v), request=ln,
                                 native_output=[hex(x) for x in r_[1]],
                                 expected_affine=([hex(x) for x in E] if E is not None else None),   # None: neutral
                                 valid_representation=bool(valid)), None
    return checked, None, None


def run(tier, only=None):
    global MIR, MODELS, Z3_TIMEOUT_MS
    t0 = time.time()
    Z3_TIMEOUT_MS = 30000 if tier == "quick" else 300000
    MODELS = models()
    K4.MODELS = MODELS
    only = list(only or [])
    names = [c for c in ROUTINES if c in only] or (QUICK if tier == "quick" else list(ROUTINES))
    fsel = [o for o in only if o not in ROUTINES]
    # `--only helper` (or verify_helper_vartime): the verification helpers alone; no selection: everything
    # (`helper-glue` / `helper-loop`: one half of it)
    HTOK = {"helper": ("glue", "loop"), "verify_helper_vartime": ("glue", "loop"), "helper-glue": ("glue",),
            "helper-loop": ("loop",)}
    hparts = tuple(sorted({p for o in fsel if o in HTOK for p in HTOK[o]})) or ("glue", "loop")
    want_helper = (not fsel) or any(o in HTOK for o in fsel)
    rp = RP.Replay(list(RP.CURVES))
    th = threading.Thread(target=rp.build, daemon=True)
    th.start()
    try:
        MIR, mir_secs, sc = dump_mir()
    except Exception as e:  # noqa
        th.join()
        return finish("C10", tier, [], t0, machinery_error="MIR dump failed: %s" % str(e)[:800])
    K4.MIR = MIR
    log("C10: MIR dump %.1fs" % mir_secs)
    from engines.polyid.algo import bv_lemmas
    bvl = bv_lemmas()
    routines = [(c, fn) for c in names for fn in ROUTINES[c] if not fsel or fn in fsel]
    tasks = []
    meta = {}
    straight_meta = []
    obs = []
    merr = None
    for c, fn in routines:
        o = Obligation("%s.%s:column-lemmas" % (c, fn), "P", [],
                       "all valid wNAF digit arrays (every digit 0 or odd, |d| <= 15), all accumulator states; "
                       "free module over " + ("Z[mu]" if K4.CURVES[c]["cfg"].get("endo") else "Z"),
                       "from V = 0, every loop iteration maps V to 2V + (digits of the column)*(their generators) on "
                       "every feasible path, and the value returned is V: the result is u*P + v*G")
        o.hint = dict(curve=c, func=fn)
        o.candidate = False
        obs.append(o)
        if (c, fn) in STRAIGHT:
            o.name = "%s.%s:coefficients" % (c, fn)
            o.desc = ("straight-line windowed routine executed with splits / recoders / vartime lookups replaced by "
                      "their contracts: the result is (k0(u) + k1(u) mu) P + (k0(v) + k1(v) mu) B")
            o.bounds = "all split halves in [0, 2^128) with all signs, all digit vectors in the recoders' ranges"
            straight_meta.append((o, len(tasks)))
            tasks.append(("straight", c, fn))
            continue
        try:
            L, sc_it = scout(c, fn)
            if not L:
                raise NotAbstractable("no reversed main loop found")
        except (NotAbstractable, MirError, Unsupported) as e:
            o.unknown("not abstractable: %s" % str(e)[:300])
            o.not_abstractable = True
            continue
        if (c, fn) in ACC_MODE:
            L = L + 1           # the top column is processed before the loop
            step = L
        else:
            step = max(1, (L + NCHUNK - 1) // NCHUNK)
        mine = []
        for lo in range(0, L, step):
            t = (c, fn, lo, min(L - 1, lo + step - 1), L)
            mine.append(len(tasks))
            tasks.append(t)
        meta[(c, fn)] = (o, mine, L)
    # helpers that only wrap a two-scalar routine (secp256k1): when that routine is not posed in full in this run,
    # pose its entry and exit segments (top and bottom column, "entered with V = 0", "returns V")
    if want_helper and "glue" in hparts:
        hsel = [c for c in only if c in HP.HELPERS]
        for c, fn in HP.DIRECT.items():
            if (c, fn) in routines or (hsel and c not in hsel) or (c, fn) in STRAIGHT:
                continue
            o = Obligation("%s.%s:entry-exit" % (c, fn), "P", [],
                           "all valid wNAF digit arrays in the top and the bottom column, all accumulator states",
                           "used by %s.verify_helper_vartime: the loop is entered with V = 0, the top and the bottom "
                           "column satisfy V' = 2V + D_i, and the value returned is V (in particular the neutral when "
                           "no non-zero digit was seen); the other columns are posed by `--only %s` / the thorough tier"
                           % (c, c))
            o.hint = dict(curve=c, func=fn)
            o.candidate = False
            obs.append(o)
            try:
                L, sc_it = scout(c, fn)
                if not L:
                    raise NotAbstractable("no reversed main loop found")
            except (NotAbstractable, MirError, Unsupported) as e:
                o.unknown("not abstractable: %s" % str(e)[:300])
                o.not_abstractable = True
                continue
            o.partial_cols = [0, L - 1, -1]
            mine = []
            for lo in (0, L - 1):
                mine.append(len(tasks))
                tasks.append((c, fn, lo, lo, L))
            meta[(c, fn)] = (o, mine, L)
    # the wNAF recoders themselves (branch-free integer code)
    from engines.polyid.recoders import NAFS, native_recoder_check, scalar_order
    rec_meta = []
    # the recoders of every curve are cheap: posed in both tiers (the loops of the other curves stay in the thorough tier)
    for c in (names if only else list(ROUTINES)):
        if tier == "quick" and not only and c == "ed448" and c not in names:
            continue          # 225-digit recoder: close to the quick tier's worker cap under load; posed in the thorough tier
        for fn, spec in NAFS.get(c, {}).items():
            if fsel and fn not in fsel:
                continue
            ro = Obligation("%s.%s:contract" % (c, fn), "P", [],
                            "all arguments of the type" + ((" below %#x" % spec.max_value) if spec.max_value else "") +
                            (" (scalars: all values below the group order)" if spec.arg == "scalar" else ""),
                            "every digit is 0 or odd with |d| <= 15, sum d_i 2^i = argument, nothing is left after the "
                            "last digit; decided per loop iteration from an arbitrary state inside the invariant. "
                            + spec.note)
            ro.hint = dict(curve=c, func=fn, recoder=True)
            ro.candidate = False
            obs.append(ro)
            rec_meta.append((ro, len(tasks), c, fn, spec))
            tasks.append(("recoder", c, fn))
    # the verification helpers (props/C10_helper.py): glue up to the last recoder call, loop after it
    hmeta = []
    if want_helper:
        try:
            hobs, htasks, hmeta0 = HP.plan(MIR, config_for, _order_of, tier, [c for c in only if c in HP.HELPERS],
                                           Obligation, hparts)
        except (MirError, Unsupported) as e:
            hobs, htasks, hmeta0 = [], [], []
            merr = merr or "helper planning failed: %s" % str(e)[:400]
        base = len(tasks)
        tasks += htasks
        obs += hobs
        hmeta = [(m[0], m[1], [i + base for i in m[2]]) + tuple(m[3:]) for m in hmeta0]
    res = pmap(work, tasks, nproc=NCPU, timeout=220 if tier == "quick" else 1700) if tasks else []
    if hmeta:
        merr = HP.collect(hmeta, tasks, res, Z3_VERSION) or merr
    for o, ti in straight_meta:
        stt, val = res[ti]
        if stt != "ok":
            o.unknown("%s: %s" % (stt, str(val)[:300]))
            if stt == "err":
                merr = merr or "task %r: %s" % (tasks[ti], str(val)[:400])
            continue
        if "na" in val:
            o.unknown("not abstractable: " + val["na"])
            o.not_abstractable = True
            continue
        o.functions = val["fns"]
        solver = "%s (unsat on %d queries)" % (Z3_VERSION, val["queries"])
        if val["fails"]:
            o.unknown("candidate: " + "; ".join(val["fails"][:4]), solver, val["secs"], val["queries"])
            o.candidate = True
        elif val["unknown"]:
            o.unknown("; ".join(val["unknown"][:4]), solver, val["secs"], val["queries"])
        else:
            o.ok(solver, val["secs"], val["queries"])
    for ro, ti, c, fn, spec in rec_meta:
        stt, val = res[ti]
        if stt != "ok":
            ro.unknown("%s: %s" % (stt, str(val)[:300]))
            if stt == "err":
                merr = merr or "recoder task %s.%s: %s" % (c, fn, str(val)[:400])
            continue
        ro.functions = val.get("fns") or []
        solver = "%s (unsat on %d bit-vector queries over %d iterations)" % (Z3_VERSION, val["queries"],
                                                                            val["iterations"])
        ro.witness_n = val.get("witness_n")
        if val["status"] == "ok":
            if val["iterations"] < 10 or val["queries"] < 10:
                merr = merr or "recoder %s.%s: vacuous run" % (c, fn)
            ro.ok(solver, val["secs"], val["queries"])
        elif val["status"] == "fail":
            ro.unknown("candidate: " + "; ".join(val["detail"]), solver, val["secs"], val["queries"])
            ro.candidate = True
        else:
            ro.unknown("; ".join(val["detail"]) or val["status"], solver, val["secs"], val["queries"])
    for (c, fn), (o, idxs, L) in meta.items():
        fails, unk, secs, q, paths, cols, fns = [], [], 0.0, 0, 0, set(), set()
        init = None
        na = None
        for i in idxs:
            stt, val = res[i]
            if stt != "ok":
                unk.append("chunk %r: %s %s" % (tasks[i][2:4], stt, str(val)[:200]))
                if stt == "err":
                    merr = merr or "task %r: %s" % (tasks[i], str(val)[:500])
                continue
            if "na" in val:
                na = val["na"]
                continue
            fails += val["fails"]
            unk += val["unknown"]
            secs += val["secs"]
            q += val["queries"]
            paths += val["paths"]
            cols |= set(val["cols"])
            fns |= set(val["fns"])
            if val["init"] is not None:
                init = val["init"]
        o.functions = sorted(fns)
        solver = "%s (unsat on %d queries: %d path lemmas over %d columns + side conditions)" % (
            Z3_VERSION, q, paths, len(getattr(o, "partial_cols", [0] * (L + 1))) - 1)
        if na:
            o.unknown("not abstractable: " + na, solver, secs, q)
            o.not_abstractable = True
            continue
        missing = [i for i in getattr(o, "partial_cols", list(range(L)) + [-1]) if i not in cols]
        if not fails and not unk:
            if missing:
                merr = merr or "%s.%s: no path lemma for columns %r" % (c, fn, missing[:8])
                o.unknown("machinery: columns without lemma %r" % missing[:8], solver, secs, q)
                continue
            if init is not True:
                fails.append("the loop is not entered with zz = true")
        if fails:
            o.unknown("candidate: " + "; ".join(sorted(set(fails))[:5]), solver, secs, q)
            o.candidate = True
        elif unk:
            o.unknown("; ".join(unk[:4]), solver, secs, q)
        else:
            o.ok(solver, secs, q)
    if any(stt != "unsat" for _, stt, _ in bvl):
        merr = merr or "bit-vector rewrite lemma not proved: %r" % ([l for l in bvl if l[1] != "unsat"][:2],)
    log("C10: symbolic part done in %.1fs" % (time.time() - t0))
    th.join()
    rng = random.Random(SEED or 20261005)
    native = {"checked": 0, "failed": 0, "error": rp.error}
    if rp.exe:
        for ro, ti, c, fn, spec in rec_meta:
            try:
                n, mism, err = native_recoder_check(K4.run_lines, rp, c, fn, spec, scalar_order(MIR, c),
                                                    [getattr(ro, "witness_n", None)], rng)
            except Exception as e:  # noqa
                n, mism, err = 0, None, "native check error: %s" % e
            native["checked"] += n
            if mism is not None:
                native["failed"] += 1
                if ro.verdict == "discharged":
                    merr = merr or "native disagreement on a discharged obligation %s: %r" % (ro.name, mism)
                else:
                    ro.fail(mism, ro.solver, ro.seconds, ro.queries)
            elif ro.verdict != "discharged":
                if err:
                    ro.reason += " | native replay unavailable: %s" % err[:200]
                elif ro.candidate:
                    ro.reason += " | native replay of %d arguments meets the contract" % n
        for o in obs:
            h = o.hint
            if h.get("recoder") or h.get("helper"):
                continue
            try:
                n, mism, err = native_check(rp, h["curve"], h["func"], rng, 6 if o.verdict == "discharged" else 24)
            except Exception as e:  # noqa
                n, mism, err = 0, None, "native check error: %s" % e
            native["checked"] += n
            if mism is not None:
                native["failed"] += 1
                if o.verdict == "discharged":
                    # the loop is proved relative to the recoders' contract: a native failure is
                    # explained when a recoder of that curve violates its contract
                    if not any(x.verdict == "violated" and x.hint.get("recoder") and x.hint["curve"] == h["curve"]
                               for x in obs):
                        merr = merr or "native disagreement on a discharged obligation %s: %r" % (o.name, mism)
                    else:
                        o.desc += (" [relative to the recoders' contract: natively %s(u=%s) is wrong because of the "
                                   "violated recoder contract reported separately]" % (h["func"], mism.get("u")))
                else:
                    o.fail(mism, o.solver, o.seconds, o.queries)
            elif o.verdict != "discharged":
                if err:
                    o.reason += " | native replay unavailable: %s" % err[:200]
                elif getattr(o, "candidate", False):
                    o.reason += " | native replay of %d (u, v, P) triples agrees with u*P + v*G" % n
        if any(o.hint.get("helper") for o in obs):
            hcnt, herr = HP.native(K4, MODELS, rp, obs, _order_of, rng)
            native["checked"] += hcnt["checked"]
            native["failed"] += hcnt["failed"]
            native["helper"] = hcnt
            merr = merr or herr
    else:
        for o in obs:
            if o.verdict != "discharged":
                o.reason += " | native replay not built: %s" % (rp.error or "")[:200]
    na = [o.name for o in obs if getattr(o, "not_abstractable", False)]
    has_helper = any(o.hint.get("helper") for o in obs)
    return finish(
        "C10", tier, obs, t0,
        functions_encoded=sorted({f for o in obs for f in o.functions}),
        bounds={"digits": "all arrays with every digit 0 or odd in [-15, 15] (no use is made of the non-adjacency rule)",
                "state": "all (zz, pending doubling count, accumulator) at every loop head",
                "columns": "every column of the main loop, the segment before and the segment after it"},
        stubs=dict({"set_add/set_sub/set_xdouble/... -> group law": "C03", "recode_*_NAF -> valid wNAF digits of the value": "C10 recoders (other engine)",
                    "split_mu/split_theta": "C11", "PRECOMP_* contents": "C04 ground facts"},
                   **(HP.EVIDENCE["stubs"] if has_helper else {})),
        assumptions=["Horner: V_0 = 0 and V_(i) = 2 V_(i+1) + D_i for all columns give V = sum 2^i D_i (meta-argument)",
                     "MIR semantics of engines/polyid/interp.py + algo.py, path forking with z3 feasibility checks"]
        + (HP.EVIDENCE["assumptions"] if has_helper else []),
        outside=(HP.EVIDENCE["outside"] if has_helper else
                 ["verify_helper_vartime (not selected in this run; `--only helper`)"]) +
        ["split_vartime itself: C11", "not abstractable in this run: " + (", ".join(na) if na else "none")],
        ground_facts={"checked": native["checked"], "failed": native["failed"], "native": native},
        extra={"mir_seconds": round(mir_secs, 1),
               "encoder_lemmas": [{"lemma": l, "z3": stt, "s": round(sc_, 3)} for l, stt, sc_ in bvl]},
        machinery_error=merr)


def replay(path):
    import json
    global MODELS
    with open(path) as fh:
        d = json.load(fh)
    model = d["obligation"].get("model") or {}
    req = model.get("request")
    if not req:
        print("replay: no native request")
        return 2
    MODELS = models()
    K4.MODELS = MODELS
    rp = RP.Replay(list(RP.CURVES))
    if not rp.build():
        print("replay: harness build failed")
        return 2
    r = K4.run_lines(rp, [req])[0]
    name = req.split()[0]
    if " recode:" in req:
        from engines.polyid.recoders import NAFS, reference_digits_ok
        fn = req.split()[1].split(":", 1)[1]
        if r[0] != "ok":
            print("REPRODUCED: %r" % (r[:1],))
            return 1
        ok, why = reference_digits_ok(NAFS[name][fn], int(model["argument"], 16), r[2])
        if ok:
            print("NOT REPRODUCED: the digits meet the contract")
            return 0
        print("REPRODUCED: property=C10 key=%s (%s)" % (model.get("key"), why))
        return 1
    m = MODELS[K4.CURVES[name]["model"]]
    if r[0] == "panic":
        print("REPRODUCED: native panic")
        return 1
    if req.split()[1] == "vh":
        if r[0] != "ok":
            print("replay: native run failed %r" % (r,))
            return 2
        if bool(r[1][0]) != bool(model.get("expected")) or bool(r[1][0]) != bool(r[1][1]):
            print("REPRODUCED: property=C10 key=%s (helper returned %s, s*G = R + k*Q is %s)" % (
                model.get("key"), bool(r[1][0]), bool(r[1][1])))
            return 1
        print("NOT REPRODUCED")
        return 0
    if r[0] != "ok":
        print("replay: native run failed %r" % (r,))
        return 2
    got, valid = m.c_decode(r[1])
    ea = model.get("expected_affine")
    exp = None if ea is None else tuple(int(v, 16) for v in ea)      # None: the point at infinity
    if valid and m.c_same(got, exp):
        print("NOT REPRODUCED")
        return 0
    print("REPRODUCED: property=C10 key=%s" % model.get("key"))
    return 1
