"""C10, verification helpers: `Point::verify_helper_vartime(self = Q, R, s, k)`.

Engine P, algorithm mode.  The function is cut once, right after its last
wNAF recoder call:

 (glue)  everything before the cut is executed from the MIR on symbolic
         inputs, along every feasible path: `split_vartime` is a contract
         stub (C11), scalars are polynomials over Z/n in (k, s) whose
         coefficients are integer atoms (values of machine integers, kept as
         z3 bit-vector terms), machine integers are bit-vectors.  Per path
         z3 decides that the multipliers handed to the recoders are
         |C1|*s mod n on the generator, |C1| on +-R and |C0| on +-Q with
         k*C1 = C0 (mod n), C1 != 0 (mod n), that they lie in the recoders'
         proved domains, and that no panic is reachable.
         Integer identities between atoms are bit-vector queries at a width
         that cannot wrap; statements modulo n are integer queries after the
         contract k*c1 = c0 (+ corrections) has been used as a rewrite rule.
 (loop)  everything after the cut, from arbitrary points P1, P2 and
         arbitrary valid digit arrays: column lemmas V' = 2V + D_i as for the
         two-scalar routines (props/C10.py), then "the returned Boolean is
         the neutral / low-order test of the accumulated value".

The composition (sum_i 2^i D_i = d1*P1 + d2*P2 + ss*G = C1*(s*G - R - k*Q))
uses the recoders' contract (sum of digits = argument, C10 recoders)."""
import random
import re
import time

import z3

from engines.polyid.interp import (Cell, Ref, IntV, BoolV, MaskV, Agg, Variant, MirError, Unsupported, UNIT,
                                   strip_generics)
from engines.polyid import terms as R
from engines.polyid.algo import (AlgoInterp, Config, Lin, PendLin, PathEnd, SymV, SymB, NotAbstractable,
                                 decide, _iv, _mul_int)

T128 = 1 << 128
Z3_TIMEOUT_MS = 30000


# --------------------------------------------------------------------------
# per-curve description of the helper

class HSpec:
    def __init__(self, kind, streams, nrec, acc="T", flag=None, final="isneutral", cof=1, c_bits=128, c_bound=None,
                 top_zero=(), corr=False):
        self.kind = kind          # representation of the split result: 'i128' | 'bytes'
        self.streams = streams    # per recoder call, in call order: debug name of the point it multiplies / 'B'
        self.nrec = nrec
        self.acc = acc            # debug name of the accumulator
        self.flag = flag          # debug name of the "accumulator is still the neutral" flag (or None)
        self.final = final        # point predicate applied to the accumulator
        self.cof = cof
        self.c_bits = c_bits      # width of the signed integers returned by split_vartime
        self.c_bound = c_bound    # contract: |c0|, |c1| < c_bound (None: no magnitude in the contract)
        self.top_zero = top_zero  # (stream index, first digit index the loop never reads)
        self.corr = corr          # contract with +-2^128 corrections (moduli above 1.73*2^253)


HELPERS = {
    "p256": HSpec("i128", ["P1", "P2", "B"], 3, flag="zz", final="isneutral", corr=True),
    "ed25519": HSpec("i128", ["B", "P1", "P2"], 3, final="has_low_order", cof=8, c_bound=1 << 127,
                     top_zero=((1, 128), (2, 128))),
    "ed448": HSpec("bytes", ["P0", "P1", "B"], 3, flag="isneu", final="has_low_order", cof=4, c_bits=232,
                   c_bound=1 << 224),
}
# wrappers over another group's helper: name -> (inner module, factor applied to s)
WRAPPERS = {"ristretto255": ("ed25519", 1), "decaf448": ("ed448", 2)}
# helpers that call the two-scalar routine directly (no split): decided by `run_direct`
DIRECT = {"secp256k1": "set_mul_add_mulgen_vartime"}
HELPERS["secp256k1"] = HSpec("direct", [], 0)
SCALAR_TYPES = ("ModInt256", "Scalar")
POINT_ARGS = ("Q", "R")


# --------------------------------------------------------------------------
# polynomials over Z/n

class SPoly:
    """sum of monomials (sorted tuples of variable names) with coefficients in [0, n)"""
    __slots__ = ("n", "c")

    def __init__(self, n, c=None):
        self.n = n
        self.c = {m: v % n for m, v in (c or {}).items() if v % n}

    @staticmethod
    def const(n, v):
        return SPoly(n, {(): v})

    @staticmethod
    def var(n, name):
        return SPoly(n, {(name,): 1})

    def __add__(self, o):
        r = dict(self.c)
        for m, v in o.c.items():
            r[m] = r.get(m, 0) + v
        return SPoly(self.n, r)

    def __neg__(self):
        return SPoly(self.n, {m: -v for m, v in self.c.items()})

    def __sub__(self, o):
        return self + (-o)

    def __mul__(self, o):
        if isinstance(o, int):
            return SPoly(self.n, {m: v * o for m, v in self.c.items()})
        r = {}
        for m1, v1 in self.c.items():
            for m2, v2 in o.c.items():
                m = tuple(sorted(m1 + m2))
                r[m] = (r.get(m, 0) + v1 * v2) % self.n
        return SPoly(self.n, r)

    def iszero(self):
        return not self.c

    def vars(self):
        return {x for m in self.c for x in m}

    def subst(self, name, p):
        out = SPoly(self.n)
        for m, v in self.c.items():
            k = m.count(name)
            rest = SPoly(self.n, {tuple(x for x in m if x != name): v})
            for _ in range(k):
                rest = rest * p
            out = out + rest
        return out

    def rewrite(self, rules):
        """rules: [((x, y), poly)]: x*y -> poly, applied until no monomial contains both"""
        cur = self
        for _ in range(16):
            changed = False
            out = SPoly(self.n)
            for m, v in cur.c.items():
                hit = None
                for (x, y), p in rules:
                    if x in m and y in m and (x != y or m.count(x) >= 2):
                        hit = (x, y, p)
                        break
                if hit is None:
                    out = out + SPoly(self.n, {m: v})
                    continue
                x, y, p = hit
                lst = list(m)
                lst.remove(x)
                lst.remove(y)
                out = out + SPoly(self.n, {tuple(lst): v}) * p
                changed = True
            cur = out
            if not changed:
                return cur
        raise NotAbstractable("rewrite rules do not terminate")

    def centered(self, v):
        return v - self.n if v > self.n // 2 else v

    def normalised(self):
        """multiply by the unit that makes the coefficients smallest (same zero set)"""
        best, bw = self, max((abs(self.centered(v)) for v in self.c.values()), default=0)
        for v in set(self.c.values()):
            try:
                u = pow(v, -1, self.n)
            except ValueError:
                continue
            cand = self * u
            w = max(abs(cand.centered(x)) for x in cand.c.values())
            if w < bw:
                best, bw = cand, w
        return best

    def __repr__(self):
        if not self.c:
            return "0"
        return " + ".join("%s%s" % (("%d" % self.centered(v)) if abs(self.centered(v)) < (1 << 40)
                                    else "%#x" % v, "".join("*" + x for x in m))
                          for m, v in sorted(self.c.items()))

    def __deepcopy__(self, memo):
        return self


class ScalV:
    """a scalar (element of Z/n) as a polynomial"""
    __slots__ = ("p",)

    def __init__(self, p):
        self.p = p

    def __deepcopy__(self, memo):
        return self

    def __repr__(self):
        return "ScalV(%r)" % (self.p,)


class SliceV:
    """&a[lo..hi] of an array held in a cell"""
    __slots__ = ("ref", "lo", "hi")

    def __init__(self, ref, lo, hi):
        self.ref, self.lo, self.hi = ref, lo, hi

    def elems(self):
        return self.ref.get().fields[self.lo:self.hi]

    def __deepcopy__(self, memo):
        import copy
        return SliceV(copy.deepcopy(self.ref, memo), self.lo, self.hi)


class Cut(Exception):
    pass


# --------------------------------------------------------------------------

def _ext(e, W, signed):
    if e.size() == W:
        return e
    if e.size() > W:
        raise NotAbstractable("atom wider than the proof width")
    return (z3.SignExt if signed else z3.ZeroExt)(W - e.size(), e)


class HelperInterp(AlgoInterp):
    """algorithm mode + the scalar ring + byte slices + contract stub of split_vartime"""

    def __init__(self, mir, cfg, curve, order, mode, **kw):
        AlgoInterp.__init__(self, mir, cfg, **kw)
        self.curve = curve
        self.hs = HELPERS[curve]
        self.n = order
        self.mode = mode                    # 'glue' | 'loop'
        self.atoms = {}                     # name -> (bit-vector term, signed)
        self._atom_ids = {}
        self.small = {}                     # ghost variables of the contract: name -> (lo, hi)
        self.rules = []                     # rewrite rules of the contract
        self.bv_assume = []                 # bit-vector side of the contract (magnitudes)
        self.int_assume = []                # integer side of the contract
        self.rec_calls = []                 # per recoder call: (method, [argument values])
        self.ends = []                      # glue mode: (path, kind, payload) per finished path
        self.ivars = {}                     # polynomial variable -> z3 Int
        self.cvars = {}                     # 'c0'/'c1' -> bit-vector variable
        self.ntests = {}                    # loop mode: Bool variable -> (Lin or PendLin) tested
        self.digit_info = {}                # digit index -> [(stream, variable, its range assumption)]
        self.direct_calls = []              # direct mode: (token, receiver Lin, u, v) of the two-scalar routine
        self.on_cut = None
        self.prune = (mode != "glue")       # glue paths are few: infeasible ones are discarded by counted queries
        for nm in ("k", "s"):
            v = z3.Int(nm)
            self.ivars[nm] = v
            self.int_assume.append(z3.And(v >= 0, v < order))

    # ------------------------------------------------------------------
    # polynomial <-> z3
    def ivar(self, name):
        v = self.ivars.get(name)
        if v is None:
            v = self.ivars[name] = z3.Int(name)
            if name in self.atoms:
                e, sg = self.atoms[name]
                w = e.size()
                lo, hi = (-(1 << (w - 1)), (1 << (w - 1)) - 1) if sg else (0, (1 << w) - 1)
                self.int_assume.append(z3.And(v >= lo, v <= hi))
        return v

    def poly_int(self, p):
        """z3 Int term with the value of p (before reduction mod n); products with the small ghost
        variables are expanded into ite, any other product of two variables is non-linear"""
        tot = []
        for m, v in sorted(p.c.items()):
            c = p.centered(v)
            small = [x for x in m if x in self.small]
            big = [x for x in m if x not in self.small]
            if not big:
                t = z3.IntVal(c)
            else:
                t = self.ivar(big[0]) * c if c != 1 else self.ivar(big[0])
                for x in big[1:]:
                    t = t * self.ivar(x)
            for x in small:
                lo, hi = self.small[x]
                xv = self.ivar(x)
                e = z3.IntVal(0)
                for val in range(lo, hi + 1):
                    if val:
                        e = z3.If(xv == val, t * val if val != 1 else t, e)
                t = e
            tot.append(t)
        return z3.Sum(tot) if tot else z3.IntVal(0)

    def congruent_zero(self, p):
        """z3 Bool: p = 0 in Z/n (after the contract's rewrite rules)"""
        q = p.rewrite(self.rules).normalised()
        if q.iszero():
            return z3.BoolVal(True), q
        if all(not m for m in q.c):
            return z3.BoolVal(False), q
        return self.poly_int(q) % self.n == 0, q

    # ------------------------------------------------------------------
    def atom(self, e, signed, prefer=None):
        """polynomial variable standing for the integer value of the bit-vector term e"""
        key = (e.get_id(), signed)
        nm = self._atom_ids.get(key)
        if nm is None:
            nm = prefer or "a%d" % len(self.atoms)
            self._atom_ids[key] = nm
            self.atoms[nm] = (e, signed)
        return nm

    def scalar_of_int(self, v, signed):
        if isinstance(v, SymV):
            return ScalV(SPoly.var(self.n, self.atom(v.e, signed)))
        if isinstance(v, IntV):
            return ScalV(SPoly.const(self.n, v.v))
        raise NotAbstractable("scalar from %r" % (v,))

    # ------------------------------------------------------------------
    # constants of the scalar type
    def const_value(self, text, body=None):
        text = text.strip()
        try:
            v = AlgoInterp.const_value(self, text, body)
        except MirError:
            v = self._local_const(text, body)
        if isinstance(v, R.T):
            if R.is_const(v):
                return ScalV(SPoly.const(self.n, int(v.aux)))
            if v.op == "sym" and v.aux in self.named_consts:
                return ScalV(SPoly.const(self.n, int(self.named_consts[v.aux])))
        return v

    def _local_const(self, text, body):
        """`const X` declared inside a function body: printed with a bare name right after the function"""
        base = strip_generics(text).split("::")
        last, owner = base[-1], (base[-2] if len(base) >= 2 else "")
        lst = self.mir.items.get(last)
        if not lst or not owner:
            raise MirError("cannot resolve constant " + text)
        starts = []
        for nm in self.mir.by_last.get(owner, []):
            if nm.startswith(base[0] + "::<impl"):
                for kind, s, e in self.mir.items[nm]:
                    if kind == "fn":
                        starts.append(e)
        if len(starts) != 1:
            raise MirError("cannot resolve constant %s (%d enclosing functions)" % (text, len(starts)))
        after = [(s, i) for i, (kind, s, e) in enumerate(lst) if kind == "const" and s > starts[0]]
        if not after:
            raise MirError("cannot resolve constant " + text)
        s, which = min(after)
        # no other function may start in between
        for nm, items in self.mir.items.items():
            for kind, s2, e2 in items:
                if kind == "fn" and starts[0] < s2 < s:
                    raise MirError("constant %s is not adjacent to its function" % text)
        return self._run_body(self.mir.body(last, which), [], 2)

    # ------------------------------------------------------------------
    def op_ext(self, op, a, b=None):
        if b is None and op == "PtrMetadata":
            v = a.get() if isinstance(a, Ref) else a
            if isinstance(v, SliceV):
                return IntV(v.hi - v.lo, 64)
            if isinstance(v, Agg):
                return IntV(len(v.fields), 64)
            raise NotAbstractable("length of %r" % (v,))
        return AlgoInterp.op_ext(self, op, a, b)

    # ------------------------------------------------------------------
    def builtin(self, fr, cal, args):
        m = cal.method
        if m in ("panic", "panic_fmt", "panic_bounds_check", "unwrap_failed", "expect_failed"):
            self.ends.append((list(self.path), "panic", "%s in %s" % (m, fr.body.name.rsplit("::", 1)[-1])))
            raise PathEnd()
        vals = [a.get() if isinstance(a, Ref) else a for a in args]
        if cal.self_short in SCALAR_TYPES or any(isinstance(v, ScalV) for v in vals):
            r = self.scalar_call(fr, cal, args, vals)
            if r is not NotImplemented:
                return r
        # slices of byte arrays
        if cal.trait in ("Index", "IndexMut") and m in ("index", "index_mut") and len(args) == 2:
            rg = args[1]
            if isinstance(rg, Agg) and rg.path and isinstance(args[0], Ref):
                arr = args[0].get()
                last = rg.path.split("::")[-1]
                n = len(arr.fields)
                if last == "RangeTo":
                    lo, hi = 0, rg.fields[0].v
                elif last == "RangeFrom":
                    lo, hi = rg.fields[0].v, n
                elif last == "Range":
                    lo, hi = rg.fields[0].v, rg.fields[1].v
                else:
                    raise NotAbstractable("slice index " + rg.path)
                if not (0 <= lo <= hi <= n):
                    self.ends.append((list(self.path), "panic", "slice index out of range"))
                    raise PathEnd()
                return SliceV(args[0], lo, hi)
            if isinstance(args[0], Ref):
                return args[0]
        if m == "copy_from_slice" and len(args) == 2:
            def view(x):
                if isinstance(x, SliceV):
                    return x.ref, x.lo, x.hi
                if isinstance(x, Ref) and isinstance(x.get(), Agg):
                    return x, 0, len(x.get().fields)
                raise NotAbstractable("copy_from_slice on %r" % (x,))
            dr, dlo, dhi = view(args[0])
            sr, slo, shi = view(args[1])
            if dhi - dlo != shi - slo:
                self.ends.append((list(self.path), "panic", "copy_from_slice length mismatch"))
                raise PathEnd()
            src = list(sr.get().fields[slo:shi])
            dst = dr.get()
            for i, x in enumerate(src):
                dst.fields[dlo + i] = x
            return UNIT
        if m == "len" and len(args) == 1 and isinstance(vals[0], (Agg, SliceV)):
            v = vals[0]
            return IntV(len(v.fields) if isinstance(v, Agg) else v.hi - v.lo, 64)
        return AlgoInterp.builtin(self, fr, cal, args)

    # ------------------------------------------------------------------
    def scalar_call(self, fr, cal, args, vals):
        m, tr = cal.method, cal.trait
        n = self.n

        def sv(x):
            if isinstance(x, ScalV):
                return x.p
            raise NotAbstractable("scalar operation %s on %r" % (m, x))
        if m == "split_vartime" and len(args) == 1:
            return self.split_stub(fr, cal, vals[0])
        if m in ("from_i128", "from_i64", "from_i32") and len(args) == 1:
            self.count("scalar.from_int")
            return self.scalar_of_int(vals[0], True)
        if m in ("from_u128", "from_u64", "from_u32") and len(args) == 1:
            self.count("scalar.from_int")
            return self.scalar_of_int(vals[0], False)
        if m == "decode_reduce" and len(args) == 1:
            self.count("scalar.decode_reduce")
            bs = vals[0].elems() if isinstance(vals[0], SliceV) else vals[0].fields
            return self.scalar_of_bytes(bs)
        if m in ("add", "sub", "mul") and len(args) == 2 and tr in (None, "Add", "Sub", "Mul"):
            self.count("scalar." + m)
            a, b = sv(vals[0]), sv(vals[1])
            return ScalV(a + b if m == "add" else a - b if m == "sub" else a * b)
        if m in ("add_assign", "sub_assign", "mul_assign", "set_add", "set_sub", "set_mul") and len(args) == 2:
            op = m.replace("_assign", "").replace("set_", "")
            self.count("scalar." + op)
            a, b = sv(vals[0]), sv(vals[1])
            args[0].set(ScalV(a + b if op == "add" else a - b if op == "sub" else a * b))
            return UNIT
        if m == "neg" and len(args) == 1:
            self.count("scalar.neg")
            return ScalV(-sv(vals[0]))
        if m == "set_neg" and len(args) == 1:
            self.count("scalar.neg")
            args[0].set(ScalV(-sv(vals[0])))
            return UNIT
        if m == "mul2" and len(args) == 1:
            self.count("scalar.mul2")
            return ScalV(sv(vals[0]) * 2)
        if m == "equals" and len(args) == 2:
            self.count("scalar.equals")
            if self.mode == "loop":
                return IntV(0xFFFFFFFF, 32)
            cond, q = self.congruent_zero(sv(vals[0]) - sv(vals[1]))
            if z3.is_true(cond):
                return IntV(0xFFFFFFFF, 32)
            if z3.is_false(cond):
                return IntV(0, 32)
            ones, zero = z3.BitVecVal(-1, 32), z3.BitVecVal(0, 32)
            return SymV(z3.If(cond, ones, zero), 32, False, None, z3.Not(cond))
        if m in ("w64be", "from_w64be", "w64le", "from_w64le") or m in ("ZERO", "ONE"):
            return NotImplemented
        if cal.self_short in SCALAR_TYPES and any(isinstance(v, ScalV) for v in vals):
            raise NotAbstractable("scalar operation %s is not modelled" % m)
        return NotImplemented

    def scalar_of_bytes(self, bs):
        if all(isinstance(b, IntV) and not isinstance(b, SymV) for b in bs):
            return ScalV(SPoly.const(self.n, sum((b.v & 0xFF) << (8 * i) for i, b in enumerate(bs))))
        parts = [b.e if isinstance(b, SymV) else z3.BitVecVal(b.v, 8) for b in bs]
        e = z3.Concat(*reversed(parts)) if len(parts) > 1 else parts[0]
        return ScalV(SPoly.var(self.n, self.atom(e, False)))

    # ------------------------------------------------------------------
    def split_stub(self, fr, cal, src):
        """contract of Scalar::split_vartime (C11)"""
        self.count("split_vartime")
        hs = self.hs
        if not (isinstance(src, ScalV) and list(src.p.c) == [("k",)] and src.p.c[("k",)] == 1):
            raise NotAbstractable("split_vartime of something else than k")
        if self.cvars:
            raise NotAbstractable("second call of split_vartime")
        w = hs.c_bits
        if self.mode == "loop":
            # any concrete admissible pair: the state after the cut is replaced anyway
            if hs.kind == "i128":
                return Agg("tuple", [IntV(3, 128, True), IntV(5, 128, True)])
            z = [IntV(0, 8) for _ in range(w // 8 - 1)]
            return Agg("tuple", [Agg("array", [IntV(3, 8)] + z), Agg("array", [IntV(5, 8)] + list(z))])
        c0, c1 = z3.BitVec("c0", w), z3.BitVec("c1", w)
        self.cvars = {"c0": c0, "c1": c1}
        n = self.n
        for nm, e in (("c0", c0), ("c1", c1)):
            self._atom_ids[(e.get_id(), True)] = nm
            self.atoms[nm] = (e, True)
            v = self.ivar(nm)
            if hs.c_bound:
                self.int_assume.append(z3.And(v > -hs.c_bound, v < hs.c_bound))
                B = z3.BitVecVal(hs.c_bound, w + 8)
                ew = z3.SignExt(8, e)
                self.bv_assume.append(z3.And(ew < B, ew > -B))
        P = lambda nm: SPoly.var(n, nm)
        if hs.corr:
            # k*(c1 + Bt*2^128) = c0 + A*2^128 (mod n), A, Bt in {-1, 0, 1}, c1 + Bt*2^128 != 0
            self.small = {"A": (-1, 1), "Bt": (-1, 1)}
            for g in self.small:
                v = self.ivar(g)
                self.int_assume.append(z3.And(v >= -1, v <= 1))
            self.rules = [(("c1", "k"), P("c0") + P("A") * T128 - P("k") * P("Bt") * T128)]
            self.int_assume.append(self.ivar("c1") + self.ivar("Bt") * T128 != 0)
            self.contract = "exists A, Bt in {-1,0,1}: k*(c1 + Bt*2^128) = c0 + A*2^128 (mod n), c1 + Bt*2^128 != 0"
        else:
            self.rules = [(("c1", "k"), P("c0"))]
            self.int_assume.append(self.ivar("c1") != 0)
            self.bv_assume.append(c1 != 0)
            self.contract = "k*c1 = c0 (mod n), c1 != 0, |c0|, |c1| < 2^%d" % (hs.c_bound.bit_length() - 1)
        if hs.kind == "i128":
            return Agg("tuple", [SymV(c0, w, True), SymV(c1, w, True)])
        by = lambda e: Agg("array", [SymV(z3.Extract(8 * i + 7, 8 * i, e), 8, False) for i in range(w // 8)])
        return Agg("tuple", [by(c0), by(c1)])

    # ------------------------------------------------------------------
    def recode_naf(self, fr, cal, args):
        """the cut: record the argument, hand out digit variables (loop mode)"""
        self.count("recode_naf")
        ret = self._ret_type(fr, cal, len(args))
        mm = re.fullmatch(r"\[i8; (\d+)\]", ret.strip())
        if not mm:
            raise NotAbstractable("NAF recoder returning %s" % ret)
        nd = int(mm.group(1))
        vals = [a.get() if isinstance(a, Ref) else a for a in args]
        idx = len(self.rec_calls)
        self.rec_calls.append((cal.method, vals, nd))
        rng = getattr(self, "col_range", None)
        ds = []
        for j in range(nd):
            if self.mode == "glue" or (rng is not None and not (rng[0] <= (j % rng[2]) <= rng[1])):
                ds.append(IntV(0, 8, True))
                continue
            D = z3.Int("e%d_%d" % (idx, j))
            self.assumptions.append(z3.Or(D == 0, z3.And(D % 2 == 1, D >= -15, D <= 15)))
            self.digit_info.setdefault(j, []).append((idx, D, self.assumptions[-1]))
            ds.append(SymV(z3.Int2BV(D, 8), 8, True, D))
        self.streams.append((ds, None))
        if len(self.rec_calls) == self.hs.nrec and self.on_cut is not None:
            self.on_cut(self, fr)
        return Agg("array", ds)

    # ------------------------------------------------------------------
    def intercept(self, fr, cal, args):
        m = cal.method
        if cal.trait is None and cal.self_short == self.cfg.point and m in ("isneutral", "has_low_order") \
                and len(args) == 1:
            self.count(m)
            a = self.as_lin(args[0], pending=True)
            b = z3.Bool("nt%d" % len(self.ntests))
            self.ntests[b] = (m, a, list(self.path))
            return SymV(z3.If(b, z3.BitVecVal(-1, 32), z3.BitVecVal(0, 32)), 32, False, None, z3.Not(b))
        if self.mode == "wrap" and cal.trait is None and cal.self_short == self.cfg.point and \
                m == "verify_helper_vartime" and len(args) == 4:
            # the inner group's helper (its own obligations): an opaque Boolean of its arguments
            self.count(m)
            sv, kv = args[2].get(), args[3].get()
            if not (isinstance(sv, ScalV) and isinstance(kv, ScalV)):
                raise NotAbstractable("inner helper called with %r, %r" % (sv, kv))
            b = z3.Bool("inner%d" % len(self.direct_calls))
            self.direct_calls.append((b, self.as_lin(args[0]), self.as_lin(args[1]), sv.p, kv.p))
            return SymB(b)
        if self.mode == "direct" and cal.trait is None and cal.self_short == self.cfg.point:
            if m == DIRECT.get(self.curve) and len(args) == 3:
                # contract of the two-scalar routine (its own C10 obligation): self := u*self + v*G
                self.count(m)
                u, v = args[1].get(), args[2].get()
                if not (isinstance(u, ScalV) and isinstance(v, ScalV)):
                    raise NotAbstractable("two-scalar routine called with %r, %r" % (u, v))
                tok = "T%d" % len(self.direct_calls)
                self.direct_calls.append((tok, self.as_lin(args[0]), u.p, v.p))
                args[0].set(self.wrap(Lin.gen(tok)))
                return UNIT
            if m == "equals" and len(args) == 2:
                self.count(m)
                a, b_ = self.as_lin(args[0]), self.as_lin(args[1])
                b = z3.Bool("eq%d" % len(self.ntests))
                self.ntests[b] = ("equals", (a, b_), list(self.path))
                return SymV(z3.If(b, z3.BitVecVal(-1, 32), z3.BitVecVal(0, 32)), 32, False, None, z3.Not(b))
        return AlgoInterp.intercept(self, fr, cal, args)


# --------------------------------------------------------------------------
# the glue: every path from the entry to the cut

def helper_config(cfgmod, name):
    """Config of the curve as used by props/C10.py (tables, affine type, NAF recoders)"""
    return cfgmod(name)


def run_glue(mir, cfg, curve, order):
    it = HelperInterp(mir, cfg, curve, order, "glue")
    hs = it.hs

    def on_cut(interp, fr):
        pts = {}
        for g in hs.streams:
            if g != "B":
                pts[g] = interp.as_lin(fr.cell(fr.debug_local(g)).val)
        interp.ends.append((list(interp.path), "cut", dict(recs=list(interp.rec_calls), points=pts)))
        interp.rec_calls = interp.rec_calls[:0]
        raise PathEnd()
    it.on_cut = on_cut
    n = order
    q = Cell(it.wrap(Lin.gen("Q")))
    r = Cell(it.wrap(Lin.gen("R")))
    args = [q.val, Ref(r), Ref(Cell(ScalV(SPoly.var(n, "s")))), Ref(Cell(ScalV(SPoly.var(n, "k"))))]
    returned = []

    # the recoder call list must restart on every path: forks copy the frame, not the interpreter
    orig_exec = it._exec

    def _exec(fr, bb):
        if fr.depth == 1:
            it.rec_calls = list(getattr(fr, "_recs", []))
        return orig_exec(fr, bb)
    it._exec = _exec
    it.run_forking(it.find_fn(curve, "Point", "verify_helper_vartime"), args, lambda f, rv: returned.append(rv))
    if returned:
        raise NotAbstractable("a path returned without reaching the cut")
    return it


class Q:
    """bookkeeping of solver queries"""

    def __init__(self):
        self.n, self.secs = 0, 0.0

    def ask(self, assumptions, goal, timeout=None):
        st, secs, mdl = decide(assumptions, goal, timeout or Z3_TIMEOUT_MS)
        self.n += 1
        self.secs += secs
        return st, mdl


def _bits_needed(v):
    return max(1, abs(int(v)).bit_length())


def bv_linear_identity(it, terms, const=0):
    """z3 Bool: sum coef * value(atom) + const == 0 over the integers, as a bit-vector equation at a
    width that cannot wrap.  terms: [(coef int, atom name)]"""
    W = _bits_needed(const) + 2
    for c, a in terms:
        e, sg = it.atoms[a]
        W = max(W, e.size() + _bits_needed(c) + 2)
    W += len(terms) + 2
    if W > 1200:
        return None
    tot = z3.BitVecVal(const % (1 << W), W)
    for c, a in terms:
        e, sg = it.atoms[a]
        tot = tot + _ext(e, W, sg) * z3.BitVecVal(c % (1 << W), W)
    return tot == 0


def split_scalar_part(p):
    """group the monomials of p by their (k, s) part: {scalar monomial: SPoly in the other variables}"""
    out = {}
    for m, v in p.c.items():
        sp = tuple(x for x in m if x in ("k", "s"))
        rest = tuple(x for x in m if x not in ("k", "s"))
        out.setdefault(sp, SPoly(p.n))
        out[sp] = out[sp] + SPoly(p.n, {rest: v})
    return out


def integer_identity(it, p, hyp, q):
    """p (a polynomial whose coefficients are to be read as integers) vanishes coefficient-wise: every
    (k, s)-coefficient is a linear combination of atoms that z3 proves to be 0 over the integers"""
    for sp, co in split_scalar_part(p).items():
        terms, const = [], 0
        for m, v in co.c.items():
            c = co.centered(v)
            if len(m) == 0:
                const += c
            elif len(m) == 1 and m[0] in it.atoms:
                terms.append((c, m[0]))
            else:
                return "unknown", "coefficient of %s is not linear in the machine integers: %r" % (sp or "1", co)
        goal = bv_linear_identity(it, terms, const)
        if goal is None:
            return "unknown", "coefficient of %s needs a modular argument: %r" % (sp or "1", co)
        st, mdl = q.ask(hyp, goal)
        if st != "unsat":
            return ("sat" if st == "sat" else "unknown"), (mdl if st == "sat" else "solver: " + st)
    return "unsat", None


def canonical_form(it, atom, hyp, q):
    """value(atom) = sigma * c + j * 2^128 for c in (c0, c1): guessed from models, proved by z3.
    Returns (polynomial, (c, sigma, j), None) or (None, best guess, counter-models of the best guess)"""
    e, sg = it.atoms[atom]
    W = max(e.size(), it.hs.c_bits) + 8
    js = (-2, -1, 0, 1, 2) if it.hs.corr else (0,)

    def val(mdl, x, signed):
        v = mdl.eval(x, model_completion=True).as_long()
        if signed and v >> (x.size() - 1):
            v -= 1 << x.size()
        return v

    def goal_of(ce, sigma, j):
        return _ext(e, W, sg) == _ext(ce, W, True) * z3.BitVecVal(sigma % (1 << W), W) + \
            z3.BitVecVal((j * T128) % (1 << W), W)
    tried = set()
    best = None
    for mdl in sample_models(it, hyp, None, 6):
        av = val(mdl, e, sg)
        for cn, ce in it.cvars.items():
            cv = val(mdl, ce, True)
            if abs(cv) < 2:
                continue            # too special to tell the forms apart
            for sigma in (1, -1):
                for j in js:
                    if av != sigma * cv + j * T128 or (cn, sigma, j) in tried:
                        continue
                    tried.add((cn, sigma, j))
                    goal = goal_of(ce, sigma, j)
                    st, mdl2 = q.ask(hyp, goal)
                    if st == "unsat":
                        P = SPoly.var(it.n, cn) * sigma + SPoly.const(it.n, j * T128)
                        return P, (cn, sigma, j), None
                    if st == "sat" and best is None:
                        best = ((cn, sigma, j), goal)
    if best is None:
        return None, None, []
    return None, best[0], sample_models(it, hyp, best[1], 10)


def sample_models(it, hyp, goal, maxn):
    """models of hyp (and of `not goal` when given), diversified over sign and size of c0, c1: small
    coprime-looking values first (the native replay needs a scalar whose real split is that pair)"""
    s = z3.Solver()
    s.set("timeout", 10000)
    for h in hyp:
        s.add(h)
    if goal is not None:
        s.add(z3.Not(goal))
    out, seen = [], set()
    names = sorted(it.cvars)

    def key(mdl):
        return tuple(mdl.eval(it.cvars[nm], model_completion=True).as_long() for nm in names)
    w = it.hs.c_bits

    def constrain(nm, neg, bits):
        e = it.cvars[nm]
        cs = [e < -2 if neg else e > 2]
        if bits is not None:
            B = z3.BitVecVal(1 << bits, w)
            cs += [e < B, e > -B]
            if nm == "c1":
                cs.append(z3.Extract(0, 0, e) == 1)
        return cs
    for bits in (12, 40, 100, None):
        for sg0 in (False, True):
            for sg1 in (False, True):
                if len(out) >= maxn:
                    return out
                for which in (names, ["c1"], ["c0"]):
                    s.push()
                    for nm, neg in zip(names, (sg0, sg1)):
                        if nm in which and nm in it.cvars:
                            s.add(constrain(nm, neg, bits))
                    r = s.check()
                    mdl = s.model() if r == z3.sat else None
                    s.pop()
                    if mdl is not None:
                        kk = key(mdl)
                        if kk not in seen:
                            seen.add(kk)
                            out.append(mdl)
                        break
    if not out and s.check() == z3.sat:
        out.append(s.model())
    return out


def model_values(it, mdl):
    out = {}
    if mdl is None:
        return out
    for nm, e in it.cvars.items():
        v = mdl.eval(e, model_completion=True).as_long()
        if v >> (e.size() - 1):
            v -= 1 << e.size()
        out[nm] = v
    for nm in ("k", "s", "A", "Bt"):
        if nm in it.ivars:
            try:
                out[nm] = mdl.eval(it.ivars[nm], model_completion=True).as_long()
            except Exception:  # noqa
                pass
    return out


def recoder_arg(it, method, vals):
    """(bit-vector value, domain condition, description) of an integer recoder argument"""
    from engines.polyid.recoders import NAFS
    spec = NAFS[it.curve][method]

    def bvof(v, bits):
        if isinstance(v, SymV):
            return v.e
        if isinstance(v, IntV):
            return z3.BitVecVal(v.v, bits)
        raise NotAbstractable("recoder argument %r" % (v,))
    if spec.arg == "u129":
        # the recoder reads nh only through `(nh as u128) << 127`, i.e. its low bit (lemma `:high-word`)
        h, l = bvof(vals[0], 32), bvof(vals[1], 128)
        e = z3.Concat(z3.BitVecVal(0, 31), z3.Extract(0, 0, h), l)
        dom = z3.ULT(e, z3.BitVecVal((1 << 129) - 16, 160))
        return e, dom, "(nh mod 2)*2^128 + nl < 2^129 - 16"
    if spec.arg == "u128":
        e = bvof(vals[0], 128)
        top = spec.max_value or (1 << 128)
        return e, z3.ULT(e, z3.BitVecVal(top, 128)) if top < (1 << 128) else z3.BoolVal(True), "n < %#x" % top
    if spec.arg == "bytes28":
        bs = vals[0].fields
        if len(bs) != 28:
            raise NotAbstractable("half-width recoder argument of %d bytes" % len(bs))
        e = z3.Concat(*[bvof(b, 8) for b in reversed(bs)])
        return e, z3.BoolVal(True), "28 bytes"
    raise NotAbstractable("recoder argument kind " + spec.arg)


def decide_glue(it):
    """per finished path: the claims of the module docstring.  Returns dict(paths, fails, unknown, ...)"""
    hs = it.hs
    n = it.n
    q = Q()
    res = {"paths": 0, "cuts": 0, "panics": 0, "fails": [], "unknown": [], "models": [], "shapes": set()}
    base = list(it.int_assume) + list(it.bv_assume)
    for path, kind, payload in it.ends:
        res["paths"] += 1
        hyp = base + list(path)
        if kind == "panic":
            res["panics"] += 1
            st, mdl = q.ask(hyp, z3.BoolVal(False))
            if st == "sat":
                res["fails"].append("a panic is reachable: " + payload)
                res["models"].append(("panic", model_values(it, mdl), None))
            elif st != "unsat":
                res["unknown"].append("panic path (%s): %s" % (payload, st))
            continue
        # feasibility (vacuous paths are dropped; a path that z3 cannot classify is kept)
        st, _ = q.ask(hyp, z3.BoolVal(False))
        if st == "unsat":
            continue
        res["cuts"] += 1
        recs, pts = payload["recs"], payload["points"]
        if len(recs) != hs.nrec:
            res["fails"].append("%d recoder calls before the cut" % len(recs))
            continue
        role = {}
        ss = None
        bad = None
        for (method, vals, nd), g in zip(recs, hs.streams):
            if g == "B":
                if not (len(vals) == 1 and isinstance(vals[0], ScalV)):
                    bad = "the generator's multiplier is not a scalar"
                    break
                ss = vals[0].p
                continue
            L_ = pts[g]
            nz = {kk: vv for kk, vv in L_.c.items() if not (isinstance(vv, int) and vv == 0)}
            if len(nz) != 1:
                bad = "%s is not a signed input point: %r" % (g, L_)
                break
            (gen, mu), coef = list(nz.items())[0]
            if gen not in POINT_ARGS or mu or not isinstance(coef, int) or coef not in (1, -1) or gen in role:
                bad = "%s is not a signed input point: %r" % (g, L_)
                break
            e, dom, domtxt = recoder_arg(it, method, vals)
            role[gen] = dict(sign=coef, e=e, dom=dom, domtxt=domtxt, atom=it.atom(e, False), method=method, nd=nd,
                             stream=g)
        if bad or ss is None or set(role) != set(POINT_ARGS):
            res["fails"].append(bad or "the three multipliers are not (generator, +-R, +-Q)")
            continue
        res["shapes"].add((role["R"]["sign"], role["Q"]["sign"]))
        tag = "path %d (R%+d, Q%+d)" % (res["paths"], role["R"]["sign"], role["Q"]["sign"])

        def fail(what, mdl):
            res["fails"].append("%s: %s" % (tag, what))
            res["models"].append((what, model_values(it, mdl), dict(eR=role["R"]["sign"], eQ=role["Q"]["sign"])))

        # (a) domains of the recoders
        for gen in POINT_ARGS:
            d = role[gen]
            goal = d["dom"]
            for si, first in hs.top_zero:
                if hs.streams[si] == d["stream"]:
                    goal = z3.And(goal, z3.ULT(d["e"], z3.BitVecVal(1 << (first - 1), d["e"].size())))
            st, mdl = q.ask(hyp, goal)
            if st == "sat":
                fail("multiplier of %s outside the recoder's domain (%s)" % (gen, d["domtxt"]), mdl)
            elif st != "unsat":
                res["unknown"].append("%s: domain of %s: %s" % (tag, gen, st))
        # (b) ss = s * C1', C1' := -sign(R) * d_R   (integer identity between machine integers)
        aR, aQ = role["R"]["atom"], role["Q"]["atom"]
        C1 = SPoly.var(n, aR) * (-role["R"]["sign"])
        C0 = SPoly.var(n, aQ) * (-role["Q"]["sign"])
        st, info = integer_identity(it, ss - SPoly.var(n, "s") * C1, hyp, q)
        if st == "sat":
            fail("the generator's multiplier is not s*C1 with C1 = -(sign on R)*(multiplier of R)", info)
        elif st != "unsat":
            res["unknown"].append("%s: s*C1: %s" % (tag, info))
        # (c) k*C1' = C0' (mod n): through the canonical forms of the two multipliers
        cR = canonical_form(it, aR, hyp, q)
        cQ = canonical_form(it, aQ, hyp, q)
        stop = False
        for gen, cf in (("R", cR), ("Q", cQ)):
            if cf[0] is not None:
                continue
            stop = True
            if cf[1] is None:
                res["unknown"].append("%s: multiplier of %s is not of the form +-c + j*2^128" % (tag, gen))
                continue
            cn, sigma, j = cf[1]
            what = "multiplier of %s is not %s%s%s for every split result of this path" % (
                gen, "-" if sigma < 0 else "", cn, (" %+d*2^128" % j) if j else "")
            if cf[2]:
                for mdl in cf[2]:
                    fail(what, mdl)
            else:
                res["unknown"].append("%s: %s (no model)" % (tag, what))
        if stop:
            continue
        C1c = cR[0] * (-role["R"]["sign"])
        C0c = cQ[0] * (-role["Q"]["sign"])
        if cR[1][0] != "c1" or cQ[1][0] != "c0":
            fail("multipliers attached to the wrong points (R gets %s, Q gets %s)" % (cR[1][0], cQ[1][0]), None)
            continue
        cond, red = it.congruent_zero(SPoly.var(n, "k") * C1c - C0c)
        st, mdl = q.ask(hyp, cond)
        if st == "sat":
            fail("k*C1 != C0 (mod n)", mdl)
        elif st != "unsat":
            res["unknown"].append("%s: k*C1 = C0: %s" % (tag, st))
        # (d) C1' != 0 (mod n)
        c1i = it.poly_int(C1c)
        st, mdl = q.ask(hyp, z3.And(c1i > -n, c1i < n))
        if st != "unsat":
            res["unknown"].append("%s: |C1| < n: %s" % (tag, st))
        extra = [c1i == 0]
        if hs.corr:
            # under C1' = 0 the contract becomes linear: c1 = -sigma*j*2^128
            cn, sigma, j = cR[1]
            c1val = SPoly.const(n, -sigma * j * T128)
            (x, y), rhs = it.rules[0]
            Hp = (SPoly.var(n, "k") * c1val - rhs).subst("c1", c1val)
            extra.append(it.poly_int(Hp.normalised()) % n == 0)
        st, mdl = q.ask(hyp + extra, z3.BoolVal(False))
        if st == "sat":
            fail("C1 = 0 (mod n): the test would accept everything", mdl)
        elif st != "unsat":
            res["unknown"].append("%s: C1 != 0: %s" % (tag, st))
    # side conditions collected by the interpreter (bounds checks, ...)
    side = {}
    for lab, c in it.side:
        side.setdefault(lab, []).append(c)
    for lab, cs in side.items():
        st, mdl = q.ask(base, z3.And(cs))
        if st == "sat":
            res["fails"].append("side condition fails: " + lab)
            res["models"].append((lab, model_values(it, mdl), None))
        elif st != "unsat":
            res["unknown"].append("side condition %s: %s" % (lab, st))
    res["queries"], res["secs"] = q.n, q.secs
    res["shapes"] = sorted(res["shapes"])
    res["ops"] = dict(it.ops)
    res["fns"] = sorted(nm for nm in it.executed if "::<impl" in nm)
    res["contract"] = getattr(it, "contract", "")
    return res


# --------------------------------------------------------------------------
# native confirmation (engines/polyid/replay.py, request `vh`)

def _inv_mod(a, n):
    try:
        return pow(a % n, -1, n)
    except ValueError:
        return None


def scalars_from_models(curve, order, models, limit=40):
    """scalars k whose real split may be the (c0, c1) of a solver model: k = (c0 + A 2^128)/(c1 + B 2^128)"""
    hs = HELPERS[curve]
    out, seen = [], set()
    for what, vals, signs in models:
        ks = []
        if "k" in vals and what in ("panic", "k*C1 != C0 (mod n)", "C1 = 0 (mod n): the test would accept everything"):
            ks.append(vals["k"] % order)
            if hs.corr and "A" in vals and "Bt" in vals:
                # the integer queries use the contract as a rewrite rule only: build scalars that do have the
                # model's corrections, k = (c0 + A 2^128)/(c1 + Bt 2^128) for a few small pairs
                for c0s, c1s in ((0, 1), (1, 1), (-1, 3), (5, -3), (-7, -5), ((1 << 64) + 1, 3), (3, -(1 << 64) - 1)):
                    den = c1s + vals["Bt"] * T128
                    iv = _inv_mod(den, order) if den else None
                    if iv is not None:
                        ks.append((c0s + vals["A"] * T128) * iv % order)
        if "c0" in vals and "c1" in vals:
            corr = (-1, 0, 1) if hs.corr else (0,)
            for A in corr:
                for B in corr:
                    den = vals["c1"] + B * T128
                    iv = _inv_mod(den, order) if den else None
                    if iv is not None:
                        ks.append((vals["c0"] + A * T128) * iv % order)
        for k in ks:
            if k not in seen:
                seen.add(k)
                out.append((what, k))
    return out[:limit]


def native_helper_check(K4, models_mod, rp, curve, order, rng, ks, count):
    """the helper's Boolean against s*G = R + k*Q (times the cofactor), on true and false equations.
    Returns (checked, mismatch dict | None, error)"""
    m = models_mod[K4.CURVES[curve]["model"]]
    B = K4.base_point(rp, curve)
    if B is None:
        return 0, None, "cannot read the base point"
    SL, EL = K4.SCALAR_LEN[curve], K4.ENC[curve]
    wrapper = curve in WRAPPERS         # quotient groups: operands are multiples of the generator, no torsion cases
    cof = 1 if wrapper else HELPERS[curve].cof
    special = [0, 1, order - 1, 2, (order - 1) // 2, (1 << 128) % order, _inv_mod(1 << 128, order)]
    cases = [("solver model: " + w, k) for w, k in ks]
    cases += [("special", k) for k in special]
    cases += [("random", rng.randrange(order)) for _ in range(max(0, count - len(special)))]
    lines, exps = [], []
    for what, k in cases:
        Qp = K4.c_mul(m, rng.randrange(1, order), B) if wrapper else m.c_rand(rng)
        s = rng.randrange(order)
        Rt = m.c_add(K4.c_mul(m, s, B), m.c_neg(K4.c_mul(m, k, Qp)))
        variants = [(True, Rt), (False, m.c_add(Rt, B))]
        if what != "random" and not m.c_same(K4.c_mul(m, 2 * cof, Rt), m.c_neutral()):
            variants.append((False, m.c_neg(Rt)))       # same abscissa, opposite point: s*G - k*Q - R = 2*Rt
        if cof > 1 and what != "random":
            # equations that hold only up to the cofactor
            for _, t in m.c_special()[1:]:
                variants.append((True, m.c_add(Rt, t)))
        for truth, Rp in variants:
            fq = m.c_embed(Qp, m.c_scalar(rng))
            fr = m.c_embed(Rp, m.c_scalar(rng))
            lines.append("%s vh 0 %s %s %s" % (curve, " ".join(int(x).to_bytes(EL, "little").hex() for x in fq + fr),
                                               int(s).to_bytes(SL, "little").hex(), int(k).to_bytes(SL, "little").hex()))
            exps.append((what, k, s, truth))
    res = K4.run_lines(rp, lines)
    checked = 0
    for (what, k, s, truth), r_, ln in zip(exps, res, lines):
        if r_[0] == "error":
            return checked, None, r_[1]
        key = "%s.verify_helper_vartime" % curve
        if r_[0] == "panic":
            return checked, dict(key=key, k=hex(k), s=hex(s), request=ln, native="panic", expected=truth,
                                 origin=what), None
        checked += 1
        got, ref = bool(r_[1][0]), bool(r_[1][1])
        if ref != truth:
            return checked, None, "reference expression disagrees with the Python group (k=%#x)" % k
        if got != truth:
            return checked, dict(key=key, k=hex(k), s=hex(s), request=ln, helper_returned=got, expected=truth,
                                 origin=what), None
    return checked, None, None


def native_low_order_check(K4, models_mod, rp, curve, rng, count=6):
    """ground facts for the final test: has_low_order(P) <=> cofactor*P = 0 on torsion points, random points and
    their sums; isneutral for the prime-order curve"""
    m = models_mod[K4.CURVES[curve]["model"]]
    hs = HELPERS[curve]
    EL = K4.ENC[curve]
    pts = []
    if hasattr(m, "c_special"):
        tors = [p for _, p in m.c_special()]
    else:
        tors = [m.c_neutral()]
    for t in tors:
        pts.append(t)
    for _ in range(count):
        P = m.c_rand(rng)
        pts.append(P)
        for t in tors:
            pts.append(m.c_add(P, t))
    lines, exps = [], []
    for P in pts:
        X = P
        for _ in range(hs.cof.bit_length() - 1):
            X = m.c_add(X, X)
        exps.append(m.c_same(X, m.c_neutral()))
        lines.append("%s low_order 0 %s" % (curve, " ".join(int(x).to_bytes(EL, "little").hex()
                                                          for x in m.c_embed(P, m.c_scalar(rng)))))
    res = K4.run_lines(rp, lines)
    n = 0
    for e, r_, ln in zip(exps, res, lines):
        if r_[0] != "ok":
            return n, None, "low_order request failed: %r" % (r_[:2],)
        n += 1
        if bool(r_[1][0]) != e:
            return n, dict(key="%s.%s" % (curve, hs.final), request=ln, native=bool(r_[1][0]), expected=e), None
    return n, None, None


# --------------------------------------------------------------------------
# the loop: column lemmas from the cut to the return

class PendZ(PendLin):
    """PendLin guarded by the loop's "still neutral" flag: while the flag holds the accumulator IS the
    neutral (part of the loop invariant), so it may be used without applying doublings"""
    __slots__ = ("zz",)

    def __init__(self, W, N, zz):
        PendLin.__init__(self, W, N)
        self.zz = zz


class Poison:
    """value of a local that was computed before the cut: the code after the cut must not read it"""
    __slots__ = ("name",)

    def __init__(self, name):
        self.name = name

    def __deepcopy__(self, memo):
        return self

    def __repr__(self):
        return "Poison(%s)" % self.name


class CutLeak(Exception):
    pass


class LoopInterp(HelperInterp):
    def operand(self, fr, op):
        v = HelperInterp.operand(self, fr, op)
        if isinstance(v, Poison):
            raise CutLeak("the code after the last recoder call reads `%s`, computed before it" % v.name)
        return v

    def poison_frame(self, fr, keep):
        """after the cut only the digit arrays and the points in `keep` may flow on"""
        names = {}
        for nm, pl in fr.body.debug:
            if re.fullmatch(r"_\d+", pl):
                names[int(pl[1:])] = nm
        for idx, cell in fr.locals.items():
            v = cell.val
            if v is None or idx in keep or idx == 0:
                continue
            if isinstance(v, Agg) and v.kind == "array" and v.fields and \
                    all(isinstance(d, (IntV, SymV)) and d.bits == 8 and d.signed for d in v.fields):
                continue            # a digit array
            cell.val = Poison(names.get(idx, "_%d" % idx))

    def as_lin(self, v, what="point", pending=False):
        x = v.get() if isinstance(v, Ref) else v
        if isinstance(x, Poison):
            raise CutLeak("the code after the last recoder call reads `%s`, computed before it" % x.name)
        try:
            return HelperInterp.as_lin(self, v, what, pending)
        except NotAbstractable:
            l0 = HelperInterp.as_lin(self, v, what, True)
            if isinstance(l0, PendZ) and not pending:
                st, _, _ = decide(self.assumptions + list(self.path), l0.zz, 10000)
                if st == "unsat":
                    return Lin()
            raise


def loop_geometry(curve, Lloop):
    """(number of columns, first column handled before the loop)"""
    hs = HELPERS[curve]
    top = max([first for _, first in hs.top_zero] + [Lloop])
    ncol = Lloop + (2 if hs.top_zero else 0)
    return ncol, Lloop


def loop_scout(mir, cfg, curve, order):
    """length of the main loop, with all digits fixed to zero"""
    it = LoopInterp(mir, cfg, curve, order, "loop")
    it.col_range = (1, 0, 1)
    info = {"L": None}
    top = curve + "::"

    def hook(interp, fr, k, it_ref):
        if not (fr.depth == 1 and fr.body.name.endswith("::verify_helper_vartime")):
            return
        rng = it_ref.get()
        if isinstance(rng, Agg) and rng.path and rng.path.endswith("Rev") and info["L"] is None:
            info["L"] = rng.fields[0].fields[1].v
    it.loop_hook = hook
    n = order
    args = [it.wrap(Lin.gen("Q")), Ref(Cell(it.wrap(Lin.gen("R")))), Ref(Cell(ScalV(SPoly.var(n, "s")))),
            Ref(Cell(ScalV(SPoly.var(n, "k"))))]
    try:
        it.run_forking(it.find_fn(curve, "Point", "verify_helper_vartime"), args, lambda f, rv: None)
    except CutLeak:
        pass            # reported by the chunk workers
    return info["L"]


def loop_chunk(mir, cfg, curve, order, lo, hi, Lloop):
    """column lemmas for columns lo..hi (plus the segment before the loop when the chunk holds the top column and
    the segment after it when it holds column 0)"""
    t0 = time.time()
    hs = HELPERS[curve]
    ncol, _ = loop_geometry(curve, Lloop)
    it = LoopInterp(mir, cfg, curve, order, "loop")
    it.prune = False
    it.col_range = (lo, hi, ncol)
    st = {"cur": None, "items": [], "init": None, "gens": None, "havoc": None, "inv": []}
    fname = "verify_helper_vartime"

    def mine(fr):
        return fr.depth == 1 and fr.body.name.endswith("::" + fname)

    def on_cut(interp, fr):
        # arbitrary points in place of the two signed inputs; the streams multiply them (in call order)
        gens = []
        for i, g in enumerate(hs.streams):
            if g == "B":
                gens.append(Lin.gen("B"))
                continue
            L_ = Lin.gen(g)
            fr.cell(fr.debug_local(g)).val = interp.wrap(L_)
            gens.append(L_)
        interp.streams = [(ds, gens[i]) for i, (ds, _) in enumerate(interp.streams)]
        interp.poison_frame(fr, {fr.debug_local(g) for g in hs.streams if g != "B"})
        # digits the loop never reads are zero (glue: domain of the multiplier; recoder: range lemma)
        for si, first in hs.top_zero:
            ds = interp.streams[si][0]
            for j in range(first, len(ds)):
                ds[j] = IntV(0, 8, True)
    it.on_cut = on_cut

    def acc_of(fr):
        a = it.as_lin(fr.cell(fr.debug_local(hs.acc)).val, pending=True)
        if isinstance(a, PendZ) and any(z3.simplify(c).eq(a.zz) for c in it.path):
            return Lin()            # invariant: the accumulator is the neutral while the flag is set
        return a

    def read_state(fr):
        zz = fr.cell(fr.debug_local(hs.flag)).val if hs.flag else BoolV(False)
        nd = fr.cell(fr.debug_local("ndbl")).val
        return zz, nd, acc_of(fr)

    def flag_cond(zz):
        if isinstance(zz, SymB):
            return zz.e
        if isinstance(zz, (BoolV, IntV)) and not isinstance(zz, SymV):
            return bool(zz.v)
        raise NotAbstractable("flag is %r" % (zz,))

    def value(zz, nd, acc):
        """V = flag ? 0 : acc * 2^ndbl"""
        zc = flag_cond(zz)
        if zc is True:
            return Lin()
        if isinstance(acc, PendLin):
            if isinstance(nd, IntV) and not isinstance(nd, SymV):
                d = z3.simplify(z3.IntVal(nd.v) - acc.N)
            elif nd.iv is not None:
                d = z3.simplify(nd.iv - acc.N)
            else:
                raise NotAbstractable("pending count without integer view")
            if not z3.is_int_value(d) or d.as_long() < 0:
                raise NotAbstractable("pending doublings %s" % d)
            v = acc.W.scale(1 << d.as_long())
        else:
            if not (isinstance(nd, IntV) and not isinstance(nd, SymV)):
                raise NotAbstractable("symbolic doubling count on a concrete accumulator")
            v = acc.scale(1 << nd.v)
        if zc is False:
            return v
        return Lin.ite(zc, Lin(), v)

    def invariant_ok(zz, acc):
        """flag => accumulator is the neutral"""
        zc = flag_cond(zz)
        if zc is False:
            return True
        if isinstance(acc, PendZ):
            if zc is True:
                return None
            stt, _, _ = decide(it.assumptions + list(it.path), z3.Implies(zc, acc.zz), Z3_TIMEOUT_MS)
            return True if stt == "unsat" else None
        if isinstance(acc, PendLin):
            return None
        goal = z3.And([_iv(c) == 0 for c in acc.c.values()]) if acc.c else z3.BoolVal(True)
        stt, _, _ = decide(it.assumptions + list(it.path) + ([zc] if zc is not True else []), goal, Z3_TIMEOUT_MS)
        return True if stt == "unsat" else None

    havocs = {}

    def havoc(fr, tag, col):
        gens = st["gens"]
        N = z3.Int("N_%s" % tag)
        it.assumptions.append(z3.And(N >= 0, N <= 100000))
        W = Lin({g: z3.Int("W_%s_%s_%d" % (tag, g[0], g[1])) for g in gens})
        havocs[col] = [(N, it.assumptions[-1])] + [(w, None) for w in W.c.values()]
        if hs.flag:
            havocs[col].append((z3.Bool("zz_%s" % tag), None))
        fr.cell(fr.debug_local("ndbl")).val = SymV(z3.Int2BV(N, 32), 32, False, N)
        if hs.flag:
            zzv = z3.Bool("zz_%s" % tag)
            fr.cell(fr.debug_local(hs.flag)).val = SymB(zzv)
            pl = PendZ(W, N, zzv)
            V = Lin.ite(zzv, Lin(), W)
        else:
            pl = PendLin(W, N)
            V = W
        fr.cell(fr.debug_local(hs.acc)).val = it.wrap(pl)
        st["havoc"] = pl
        return V

    def park(fr):
        if hs.flag:
            fr.cell(fr.debug_local(hs.flag)).val = BoolV(True)
        fr.cell(fr.debug_local("ndbl")).val = IntV(0, 32)
        fr.cell(fr.debug_local(hs.acc)).val = it.wrap(Lin())

    def hook(interp, fr, k, it_ref):
        if not mine(fr):
            return
        rng = it_ref.get()
        if not (isinstance(rng, Agg) and rng.path and rng.path.endswith("Rev")):
            return
        inner = rng.fields[0]
        s_, e_ = inner.fields[0].v, inner.fields[1].v
        col = e_ - 1 if s_ < e_ else None
        if st["gens"] is None:
            st["gens"] = sorted({g for ds, gl in it.streams for g in gl.c})
        if st["cur"] is not None:
            zz, nd, acc = read_state(fr)
            ok = invariant_ok(zz, acc)
            st["items"].append((st["cur"]["col"], list(it.path), st["cur"]["V"], value(zz, nd, acc), ok))
            if it.pending_paths:
                raise PathEnd()
            st["cur"] = None
        elif col == Lloop - 1:
            # first loop head of this path: the segment before the loop
            zz, nd, acc = read_state(fr)
            if hi == ncol - 1:
                st["items"].append((ncol, list(it.path), None, value(zz, nd, acc), invariant_ok(zz, acc)))
            st["init"] = True
            if it.pending_paths:
                raise PathEnd()
        it.path = []
        if col is not None and lo <= col <= hi:
            V = havoc(fr, "c%d" % col, col)
            st["cur"] = dict(col=col, V=V)
        elif col is None and lo == 0:
            V = havoc(fr, "fin", -1)
            st["cur"] = dict(col=-1, V=V)
        else:
            park(fr)
    it.loop_hook = hook
    finals = []

    def on_return(fr, rv):
        if st["cur"] is None or st["cur"]["col"] != -1:
            return
        finals.append((list(it.path), rv, st["cur"]["V"], st["havoc"]))
    n = order
    args = [it.wrap(Lin.gen("Q")), Ref(Cell(it.wrap(Lin.gen("R")))), Ref(Cell(ScalV(SPoly.var(n, "s")))),
            Ref(Cell(ScalV(SPoly.var(n, "k"))))]
    leak = None
    try:
        it.run_forking(it.find_fn(curve, "Point", fname), args, on_return)
    except CutLeak as e:
        leak = str(e)
    # ---- decide
    res = {"checked": 0, "fails": [leak] if leak else [], "unknown": [], "secs": 0.0, "queries": 0,
           "paths": len(st["items"]),
           "init": st["init"], "ops": dict(it.ops), "fns": sorted(nm for nm in it.executed if "::<impl" in nm),
           "cols": set(), "forks": it.nforks, "finals": len(finals)}

    base_n = len(it.assumptions)
    S = z3.Solver()
    S.set("timeout", int(Z3_TIMEOUT_MS))
    for a_ in it.assumptions:
        S.add(a_)
    # Columns of one regime give the same lemmas up to the names of their variables.  A lemma is first looked up
    # (and decided) in canonical form: variables of the column renamed position-independently, assumptions
    # restricted to those over the lemma's own variables.  Only `unsat` is ever cached, and `unsat` on a subset
    # of the assumptions is valid for all of them; anything else falls back to the full query.
    cache = {}
    canon = {}
    res["cache_hits"] = 0

    def canonical(col):
        """renaming of the column's own variables (digits, havoc'd state) and their range assumptions"""
        if col in canon:
            return canon[col]
        pairs, rel = [], []
        m = 0
        while col + m * ncol in it.digit_info or col + m * ncol < max(it.digit_info, default=0):
            for idx, D, asm in it.digit_info.get(col + m * ncol, []):
                pairs.append((D, z3.Int("e%d@%d" % (idx, m))))
                rel.append(asm)
            m += 1
        hv = havocs.get(col)
        if hv is not None:
            for v, asm in hv:
                nm = v.decl().name().replace("_c%d" % col, "@", 1)
                pairs.append((v, z3.Bool(nm) if z3.is_bool(v) else z3.Int(nm)))
                if asm is not None:
                    rel.append(asm)
        canon[col] = (pairs, rel)
        return canon[col]

    def ask(assum, goal, col=None):
        t1 = time.time()
        res["queries"] += 1
        extra = list(assum[base_n:])
        if col is not None and 0 <= col < ncol:
            cn = canonical(col)
            if cn is not None:
                pairs, rel = cn
                f = z3.substitute(z3.And(rel + extra + [z3.Not(goal)]), *pairs) if pairs else None
                if f is not None:
                    key = f.sexpr()
                    if cache.get(key):
                        res["cache_hits"] += 1
                        res["secs"] += time.time() - t1
                        return "unsat"
                    s2 = z3.Solver()
                    s2.set("timeout", int(Z3_TIMEOUT_MS))
                    s2.add(f)
                    if s2.check() == z3.unsat:
                        cache[key] = True
                        res["secs"] += time.time() - t1
                        return "unsat"
        S.push()
        for a_ in extra:
            S.add(a_)
        S.add(z3.Not(goal))
        stt = str(S.check())
        S.pop()
        res["secs"] += time.time() - t1
        return stt

    def column_value(col):
        D = Lin()
        for ds, gl in it.streams:
            m = 0
            while col + m * ncol < len(ds):
                d = ds[col + m * ncol]
                dv = d.iv if isinstance(d, SymV) else d.v
                for g, c in gl.c.items():
                    term = _mul_int(_iv(dv), c) if not isinstance(c, int) else _iv(dv) * c
                    D = D + Lin({g: term * (1 << (m * ncol)) if m else term})
                m += 1
        return D
    for col, path, V0, V1, inv in st["items"]:
        res["cols"].add(col)
        if col == ncol:
            want = Lin()
            for c in range(ncol - 1, Lloop - 1, -1):
                want = want.scale(2) + column_value(c)
            label = "segment before the loop"
        else:
            want = V0.scale(2) + column_value(col)
            label = "column %d" % col
        if inv is not True:
            res["fails"].append("%s: the accumulator is not the neutral while the flag is set" % label)
        keys = set(V1.c) | set(want.c)
        goal = z3.And([_iv(V1.get(g)) == _iv(want.get(g)) for g in sorted(keys)])
        stt = ask(it.assumptions + path, goal, col)
        res["checked"] += 1
        if stt == "sat":
            res["fails"].append("%s: V' != 2V + D on a feasible path" % label)
        elif stt != "unsat":
            res["unknown"].append("%s: %s" % (label, stt))
    for path, rv, V, pl in finals:
        res["cols"].add(-1)
        # the returned Boolean is the test applied to the havoc'd accumulator (pending doublings dropped)
        if not isinstance(rv, SymB):
            res["fails"].append("final segment: the result is not a Boolean of the final test (%r)" % (rv,))
            continue
        cands = [b for b, (m, a, p) in it.ntests.items() if a is pl and m == hs.final]
        if len(cands) != 1:
            res["fails"].append("final segment: the %s test is not applied to the accumulator" % hs.final)
            continue
        stt = ask(it.assumptions + path, rv.e == cands[0])
        res["checked"] += 1
        if stt == "sat":
            res["fails"].append("final segment: the result is not the %s test of the accumulator" % hs.final)
        elif stt != "unsat":
            res["unknown"].append("final segment: %s" % stt)
    if lo == 0 and not finals:
        res["fails"].append("final segment: no path returned")
    side = {}
    for lab, c in it.side:
        side.setdefault(lab, []).append(c)
    for lab, cs in side.items():
        stt = ask(it.assumptions, z3.And(cs))
        if stt == "sat":
            res["fails"].append("side condition fails: " + lab)
        elif stt != "unsat":
            res["unknown"].append("side condition %s: %s" % (lab, stt))
    res["wall"] = time.time() - t0
    res["cols"] = sorted(res["cols"])
    res["streams"] = [len(ds) for ds, _ in it.streams]
    return res


# --------------------------------------------------------------------------
# two small facts about the recoders that the helpers rely on

def top_digit_spec():
    """ed25519: `recode_u128_NAF(n)` with n < 2^127: the invariant y_j <= 2^(127-j) gives y_128 = 0, hence
    digit 128 is 0 (digit 129 is never written): the helper's loop reads digits 0..127 only"""
    from engines.polyid.recoders import Spec
    return Spec("naf", 1, "u128", ["y"], value_bits=127, max_value=1 << 127,
                note="instance for the verification helper: arguments below 2^127; the invariant "
                     "y_j <= 2^(127-j) makes the remaining value 0 from digit 128 on, so digits 128 and 129 are 0")


def highword_lemma(mir, module="p256", fname="recode_u129_NAF"):
    """`recode_u129_NAF(nh, nl)` depends on nh through its low bit only: at the head of its loop the state
    (y, digits written so far) is the same for nh and nh & 1"""
    from engines.polyid.algo import _free_vars
    t0 = time.time()
    it = AlgoInterp(mir, Config(module))
    nh, nl = z3.BitVec("nh", 32), z3.BitVec("nl", 128)
    snap = {}

    class Stop(Exception):
        pass

    def hook(interp, fr, k, it_ref):
        if not fr.body.name.endswith("::" + fname) or snap:
            return
        y = fr.cell(fr.debug_local("y")).val
        sd = fr.cell(fr.debug_local("sd")).val
        snap["y"] = y.e if isinstance(y, SymV) else z3.BitVecVal(y.v, 128)
        snap["sd"] = [d.e for d in sd.fields if isinstance(d, SymV)]
        snap["others"] = [nm for nm, pl in fr.body.debug if nm not in ("y", "sd", "nh", "nl")]
        raise Stop()
    it.loop_hook = hook
    res = {"status": "unknown", "detail": [], "queries": 0, "secs": 0.0, "fns": []}
    try:
        item = it.find_sibling_fn(module, "Point", fname)
        it.run(item, [SymV(nh, 32, False), SymV(nl, 128, False)])
        res["detail"].append("no loop reached")
        return res
    except Stop:
        pass
    except (NotAbstractable, Unsupported, MirError) as e:
        res["detail"].append("not abstractable: %s" % str(e)[:200])
        return res
    res["fns"] = [nm for nm in it.executed if nm.endswith("::" + fname)]
    # nh must not be live at the loop head except through y / sd: the loop body may not mention it
    body = it.mir.body(*item)
    first_loop_text = "\n".join(l for b in body.blocks.values() for l in b._lines)
    nh_local = [pl for nm, pl in body.debug if nm == "nh"]
    uses = len(re.findall(r"\b%s\b" % re.escape(nh_local[0]), first_loop_text)) if nh_local else -1
    res["nh_uses"] = uses
    goals = [snap["y"] == z3.substitute(snap["y"], (nh, nh & 1))]
    for d in snap["sd"]:
        goals.append(d == z3.substitute(d, (nh, nh & 1)))
    st, secs, mdl = decide([], z3.And(goals), Z3_TIMEOUT_MS)
    res["queries"] += 1
    res["secs"] += secs
    if uses != 1:
        res["detail"].append("nh is used %d times in the function (expected once, before the loop)" % uses)
        res["status"] = "unknown"
    elif st == "unsat":
        res["status"] = "ok"
    elif st == "sat":
        res["status"] = "fail"
        res["detail"].append("the state at the loop head depends on more than the low bit of nh")
        res["witness"] = dict(nh=mdl.eval(nh, model_completion=True).as_long(),
                              nl=mdl.eval(nl, model_completion=True).as_long())
    else:
        res["detail"].append("solver: " + st)
    res["wall"] = time.time() - t0
    return res


# --------------------------------------------------------------------------
# helpers that are a thin wrapper around the two-scalar routine (secp256k1)

def run_direct(mir, cfg, curve, order):
    """the wrapper executed from MIR with the two-scalar routine and Point::equals as contracts:
    result <=> (-k)*Q + s*G == R"""
    t0 = time.time()
    it = HelperInterp(mir, cfg, curve, order, "direct")
    n = order
    args = [it.wrap(Lin.gen("Q")), Ref(Cell(it.wrap(Lin.gen("R")))), Ref(Cell(ScalV(SPoly.var(n, "s")))),
            Ref(Cell(ScalV(SPoly.var(n, "k"))))]
    rets = []
    it.run_forking(it.find_fn(curve, "Point", "verify_helper_vartime"), args, lambda f, rv: rets.append((list(it.path), rv)))
    res = {"fails": [], "unknown": [], "queries": 0, "secs": 0.0, "ops": dict(it.ops),
           "fns": sorted(nm for nm in it.executed if "::<impl" in nm), "paths": len(rets)}
    if len(rets) != 1 or len(it.direct_calls) != 1 or len(it.ntests) != 1:
        res["fails"].append("unexpected shape: %d paths, %d calls of the two-scalar routine, %d comparisons"
                            % (len(rets), len(it.direct_calls), len(it.ntests)))
        return res
    path, rv = rets[0]
    tok, recv, u, v = it.direct_calls[0]
    (b, (kind, (a, b_), _)), = it.ntests.items()
    k_, s_ = SPoly.var(n, "k"), SPoly.var(n, "s")

    def is_gen(L_, g):
        nz = {kk: vv for kk, vv in L_.c.items() if not (isinstance(vv, int) and vv == 0)}
        return nz == {(g, 0): 1}
    if not is_gen(recv, "Q"):
        res["fails"].append("the two-scalar routine is not applied to Q")
    if not (u + k_).iszero():
        res["fails"].append("the multiplier of Q is %r, not -k" % (u,))
    if not (v - s_).iszero():
        res["fails"].append("the multiplier of the generator is %r, not s" % (v,))
    if not ((is_gen(a, tok) and is_gen(b_, "R")) or (is_gen(b_, tok) and is_gen(a, "R"))):
        res["fails"].append("the comparison is not between the combination and R")
    if not isinstance(rv, SymB):
        res["fails"].append("the result is not the comparison's Boolean")
    else:
        st, secs, mdl = decide(path, rv.e == b, Z3_TIMEOUT_MS)
        res["queries"] += 1
        res["secs"] += secs
        if st == "sat":
            res["fails"].append("the result is not (combination == R)")
        elif st != "unsat":
            res["unknown"].append("result query: " + st)
    res["wall"] = time.time() - t0
    return res


def run_wrapper(mir, cfg, name, order):
    """ristretto255 / decaf448: the helper delegates to the Edwards point's helper on the inner points, with s
    (decaf448: 2*s, its generator is twice the Edwards generator: ground fact of C04) and k unchanged"""
    t0 = time.time()
    base, factor = WRAPPERS[name]
    it = HelperInterp(mir, cfg, base, order, "wrap")
    n = order
    w = lambda g: Agg("struct", [it.wrap(Lin.gen(g))], name + "::Point")
    args = [w("Q"), Ref(Cell(w("R"))), Ref(Cell(ScalV(SPoly.var(n, "s")))), Ref(Cell(ScalV(SPoly.var(n, "k"))))]
    rets = []
    it.run_forking(it.find_fn(name, "Point", "verify_helper_vartime"), args,
                   lambda f, rv: rets.append((list(it.path), rv)))
    res = {"fails": [], "unknown": [], "queries": 0, "secs": 0.0, "ops": dict(it.ops),
           "fns": sorted(nm for nm in it.executed if "::<impl" in nm), "paths": len(rets)}
    if len(rets) != 1 or len(it.direct_calls) != 1:
        res["fails"].append("unexpected shape: %d paths, %d calls of the inner helper" % (len(rets), len(it.direct_calls)))
        return res
    path, rv = rets[0]
    b, q_, r_, sp, kp = it.direct_calls[0]

    def is_gen(L_, g):
        nz = {kk: vv for kk, vv in L_.c.items() if not (isinstance(vv, int) and vv == 0)}
        return nz == {(g, 0): 1}
    if not (is_gen(q_, "Q") and is_gen(r_, "R")):
        res["fails"].append("the inner helper does not receive (Q, R)")
    if not (sp - SPoly.var(n, "s") * factor).iszero():
        res["fails"].append("the inner helper receives s' = %r, expected %d*s" % (sp, factor))
    if not (kp - SPoly.var(n, "k")).iszero():
        res["fails"].append("the inner helper receives k' = %r, expected k" % (kp,))
    if not isinstance(rv, SymB):
        res["fails"].append("the result is not the inner helper's Boolean")
    else:
        st, secs, mdl = decide(path, rv.e == b, Z3_TIMEOUT_MS)
        res["queries"] += 1
        res["secs"] += secs
        if st == "sat":
            res["fails"].append("the result is not the inner helper's Boolean")
        elif st != "unsat":
            res["unknown"].append("result query: " + st)
    res["wall"] = time.time() - t0
    return res


# --------------------------------------------------------------------------
# wiring for props/C10.py

LOOP_CURVES = ["p256", "ed25519", "ed448"]
LOOP_QUICK = ["p256", "ed25519"]
NCHUNK = 64
KEYFMT = "%s.verify_helper_vartime"


def plan(mir, cfgfn, order_of, tier, curve_sel, Obligation, parts=("glue", "loop")):
    """(obligations, tasks, meta).  tasks are tuples starting with 'h...' for `work`"""
    obs, tasks, meta = [], [], []
    glue_curves = [c for c in HELPERS if c in curve_sel] or list(HELPERS)
    loop_curves = [c for c in LOOP_CURVES if c in curve_sel] or (
        [] if curve_sel else (LOOP_QUICK if tier == "quick" else LOOP_CURVES))
    if "glue" not in parts:
        glue_curves = []
    if "loop" not in parts:
        loop_curves = []
    for c in glue_curves:
        hs = HELPERS[c]
        if hs.kind == "direct":
            o = Obligation("%s.verify_helper_vartime:glue" % c, "P", [], "all k, s, Q, R (scalars: free commutative ring "
                           "modulo n; points: free module)",
                           "the wrapper executed from MIR with the two-scalar routine (its own obligation) and "
                           "Point::equals (C06) as contracts: the result is ((-k)*Q + s*G == R)")
            kind = "hdirect"
        else:
            o = Obligation("%s.verify_helper_vartime:glue" % c, "P", [],
                           "all k, s; every split_vartime result admitted by its contract; every path from the entry to "
                           "the last recoder call",
                           "the multipliers handed to the wNAF recoders are d_R on e_R*R, d_Q on e_Q*Q (e = +-1) and ss on "
                           "the generator with C1 := -e_R*d_R, C0 := -e_Q*d_Q satisfying ss = s*C1 (mod n), k*C1 = C0 "
                           "(mod n), C1 != 0 (mod n), d_R and d_Q inside the recoders' proved domains; no panic is "
                           "reachable.  Hence sum = C1*(s*G - R - k*Q)")
            kind = "hglue"
        o.hint = dict(curve=c, func="verify_helper_vartime", helper=kind)
        o.candidate = False
        obs.append(o)
        meta.append((kind, o, [len(tasks)], c))
        tasks.append((kind, c))
    for wn, (base, factor) in WRAPPERS.items():
        if base not in glue_curves or (curve_sel and wn not in curve_sel and base not in curve_sel):
            continue
        o = Obligation("%s.verify_helper_vartime:glue" % wn, "P", [], "all k, s, Q, R",
                       "the wrapper executed from MIR with %s::Point::verify_helper_vartime as an opaque Boolean: the "
                       "result is that Boolean on the inner points with s' = %s and k' = k%s"
                       % (base, "s" if factor == 1 else "%d*s" % factor,
                          "" if factor == 1 else " (this group's generator is twice the Edwards generator: C04 ground fact)"))
        o.hint = dict(curve=wn, func="verify_helper_vartime", helper="hwrap")
        o.candidate = False
        obs.append(o)
        meta.append(("hwrap", o, [len(tasks)], wn))
        tasks.append(("hwrap", wn))
    if "p256" in glue_curves:
        o = Obligation("p256.recode_u129_NAF:high-word", "P", [], "all (nh, nl)",
                       "the recoder reads `nh` once, as `(nh as u128) << 127`: at the head of its loop the state is the "
                       "same for nh and nh & 1 (the helper passes !(h + carry), whose upper 31 bits are not zero when "
                       "the value is 2^128)")
        o.hint = dict(curve="p256", func="recode_u129_NAF", helper="hlemma")
        o.candidate = False
        obs.append(o)
        meta.append(("hlemma", o, [len(tasks)], "p256"))
        tasks.append(("hlemma", "highword"))
    if "ed25519" in glue_curves:
        sp = top_digit_spec()
        o = Obligation("ed25519.recode_u128_NAF:contract[n<2^127]", "P", [], "all n < 2^127",
                       "wNAF contract of the recoder on the helper's domain. " + sp.note)
        o.hint = dict(curve="ed25519", func="recode_u128_NAF", helper="hlemma")
        o.candidate = False
        obs.append(o)
        meta.append(("hlemma", o, [len(tasks)], "ed25519"))
        tasks.append(("hlemma", "topdigit"))
    for c in loop_curves:
        hs = HELPERS[c]
        o = Obligation("%s.verify_helper_vartime:column-lemmas" % c, "P", [],
                       "all valid wNAF digit arrays (every digit 0 or odd, |d| <= 15), arbitrary points P1, P2 in place "
                       "of +-R, +-Q, all accumulator states; free module over Z",
                       "from the last recoder call on: windows, then from V = 0%s every loop iteration maps V to 2V + "
                       "(digits of the column)*(their points) on every feasible path, the accumulator is the neutral "
                       "while the flag says so, and the value returned is the %s test of the accumulator: the result is "
                       "test(d1*P1 + d2*P2 + ss*G)" % (" (ed25519: from the two top digits of ss)" if hs.top_zero else "",
                                                      hs.final))
        o.hint = dict(curve=c, func="verify_helper_vartime", helper="hloop")
        o.candidate = False
        obs.append(o)
        try:
            L = loop_scout(mir, cfgfn(c), c, order_of(c))
            if not L:
                raise NotAbstractable("no reversed main loop found")
        except (NotAbstractable, MirError, Unsupported) as e:
            if "assertion failed" in str(e) and not isinstance(e, Unsupported):
                # a bounds / overflow assertion of the MIR fails on the concrete all-zero-digits run
                o.unknown("candidate: a panic is reached when all digits are zero: %s" % str(e)[:300])
                o.candidate = True
                o.models = []
                continue
            o.unknown("not abstractable: %s" % str(e)[:300])
            o.not_abstractable = True
            continue
        ncol, _ = loop_geometry(c, L)
        step = max(1, (ncol + NCHUNK - 1) // NCHUNK)
        mine = []
        for lo in range(0, ncol, step):
            mine.append(len(tasks))
            tasks.append(("hloop", c, lo, min(ncol - 1, lo + step - 1), L))
        meta.append(("hloop", o, mine, c, ncol, L))
    return obs, tasks, meta


def work(mir, cfgfn, order_of, task, timeout_ms):
    global Z3_TIMEOUT_MS
    Z3_TIMEOUT_MS = timeout_ms
    kind = task[0]
    try:
        if kind == "hglue":
            c = task[1]
            it = run_glue(mir, cfgfn(c), c, order_of(c))
            return decide_glue(it)
        if kind == "hdirect":
            c = task[1]
            return run_direct(mir, cfgfn(c), c, order_of(c))
        if kind == "hwrap":
            c = task[1]
            base = WRAPPERS[c][0]
            return run_wrapper(mir, cfgfn(base), c, order_of(base))
        if kind == "hlemma":
            if task[1] == "highword":
                return highword_lemma(mir)
            from engines.polyid.recoders import recoder_task
            return recoder_task(mir, "ed25519", "recode_u128_NAF", top_digit_spec(), timeout_ms)
        if kind == "hloop":
            _, c, lo, hi, L = task
            return loop_chunk(mir, cfgfn(c), c, order_of(c), lo, hi, L)
    except NotAbstractable as e:
        return {"na": str(e)[:300]}
    except MirError as e:
        if "assertion failed" in str(e) and not isinstance(e, Unsupported) and kind in ("hglue", "hloop"):
            return {"fails": ["a panic is reached on a concrete path: %s" % str(e)[:300]], "unknown": [], "secs": 0.0,
                    "queries": 0, "paths": 0, "cols": [], "finals": 0, "init": None, "models": [], "fns": [],
                    "cuts": 0, "panics": 1, "shapes": [], "ops": {}}
        raise
    raise ValueError("unknown helper task %r" % (task,))


def collect(meta, tasks, res, z3_version):
    """fill the obligations from the workers' results; returns a machinery error or None"""
    merr = None
    for entry in meta:
        kind, o, idxs, c = entry[:4]
        fails, unk, secs, q, fns = [], [], 0.0, 0, set()
        na = None
        vals = []
        for i in idxs:
            stt, val = res[i]
            if stt != "ok":
                unk.append("task %r: %s %s" % (tasks[i][1:4], stt, str(val)[:200]))
                if stt == "err":
                    merr = merr or "helper task %r: %s" % (tasks[i], str(val)[:500])
                continue
            if "na" in val:
                na = val["na"]
                continue
            vals.append(val)
        if na:
            o.unknown("not abstractable: " + na)
            o.not_abstractable = True
            continue
        if kind == "hlemma":
            if not vals:
                o.unknown("; ".join(unk))
                continue
            v = vals[0]
            o.functions = v.get("fns") or []
            solver = "%s (unsat on %d bit-vector queries)" % (z3_version, v["queries"])
            if v["status"] == "ok":
                if v["queries"] < 1:
                    merr = merr or "helper lemma %s: vacuous" % o.name
                o.ok(solver, v["secs"], v["queries"])
            elif v["status"] == "fail":
                o.unknown("candidate: " + "; ".join(v["detail"]), solver, v["secs"], v["queries"])
                o.candidate = True
            else:
                o.unknown("; ".join(v["detail"]) or v["status"], solver, v["secs"], v["queries"])
            continue
        for v in vals:
            fails += v["fails"]
            unk += v["unknown"]
            secs += v["secs"]
            q += v["queries"]
            fns |= set(v.get("fns") or [])
        o.functions = sorted(fns)
        o.models = [m for v in vals for m in v.get("models", [])]
        if kind in ("hglue", "hdirect", "hwrap"):
            v = vals[0] if vals else {}
            solver = "%s (unsat on %d queries over %d paths)" % (z3_version, q, v.get("paths", 0))
            if vals and not fails and not unk:
                if kind == "hglue":
                    want = {(1, 1), (1, -1), (-1, 1), (-1, -1)}
                    if v["cuts"] < 4 or set(map(tuple, v["shapes"])) != want:
                        merr = merr or "%s: only %d feasible paths / sign patterns %r" % (o.name, v["cuts"], v["shapes"])
                        o.unknown("machinery: too few feasible paths", solver, secs, q)
                        continue
                    if v["ops"].get("split_vartime") != 1 or q < 20:
                        merr = merr or "%s: vacuous run %r" % (o.name, v["ops"])
                        o.unknown("machinery: vacuous run", solver, secs, q)
                        continue
                    o.bounds += "; contract of split_vartime used: " + v.get("contract", "")
                    o.desc += " [%d paths, %d feasible, %d panic paths proved unreachable]" % (
                        v["paths"], v["cuts"], v["panics"])
        else:
            ncol = entry[4]
            cols, paths, finals, init = set(), 0, 0, None
            for v in vals:
                cols |= set(v["cols"])
                paths += v["paths"]
                finals += v["finals"]
                init = init or v["init"]
            solver = "%s (unsat on %d queries: %d path lemmas over %d columns + side conditions)" % (
                z3_version, q, paths, ncol)
            # loop columns, the segment before the loop (label ncol; it holds the columns above the loop's), the
            # segment after it (label -1)
            missing = [i for i in list(range(entry[5])) + [ncol, -1] if i not in cols]
            if not fails and not unk:
                if missing or not finals:
                    merr = merr or "%s: no path lemma for columns %r" % (o.name, missing[:8])
                    o.unknown("machinery: columns without lemma %r" % missing[:8], solver, secs, q)
                    continue
        if fails:
            o.unknown("candidate: " + "; ".join(sorted(set(fails))[:5]), solver, secs, q)
            o.candidate = True
        elif unk:
            o.unknown("; ".join(unk[:4]), solver, secs, q)
        else:
            o.ok(solver, secs, q)
    return merr


def native(K4, models_mod, rp, obs, order_of, rng):
    """native confirmation of the helper obligations.  Returns (counters, machinery error or None)"""
    cnt = {"checked": 0, "failed": 0, "low_order_checked": 0}
    merr = None
    by_curve = {}
    for o in obs:
        h = getattr(o, "hint", {})
        if h.get("helper") in ("hglue", "hdirect", "hloop", "hwrap"):
            by_curve.setdefault(h["curve"], []).append(o)
    for c, lst in by_curve.items():
        order = order_of(WRAPPERS[c][0] if c in WRAPPERS else c)
        cand = [o for o in lst if o.verdict != "discharged"]
        ks = []
        for o in lst:
            if getattr(o, "candidate", False) and getattr(o, "models", None) and c in HELPERS:
                ks += scalars_from_models(c, order, o.models)
        try:
            n, mism, err = native_helper_check(K4, models_mod, rp, c, order, rng, ks, 24 if cand else 10)
        except Exception as e:  # noqa
            n, mism, err = 0, None, "native check error: %s" % e
        cnt["checked"] += n
        try:
            n2, mism2, err2 = (0, None, None) if c in WRAPPERS else native_low_order_check(K4, models_mod, rp, c, rng)
        except Exception as e:  # noqa
            n2, mism2, err2 = 0, None, "native check error: %s" % e
        cnt["low_order_checked"] += n2
        if mism2 is not None:
            cnt["failed"] += 1
            merr = merr or "final test of %s disagrees natively with cofactor*P = 0: %r" % (c, mism2)
        elif err2:
            merr = merr or "final test ground facts of %s: %s" % (c, err2)
        if mism is not None:
            cnt["failed"] += 1
            cands = [o for o in cand if getattr(o, "candidate", False)]
            if not cands and cand:
                # the interpreter could not decide these obligations (e.g. the code left the fragment it
                # interprets); the reproduced wrong Boolean on the real build is the witness
                mism = dict(mism, found_by="obligation undecided by the interpreter; native replay of crafted equations")
                for o in cand:
                    o.fail(dict(mism), o.solver, o.seconds, o.queries)
                continue
            if not cands:
                if not any(getattr(x, "verdict", "") == "violated" and getattr(x, "hint", {}).get("curve") == c
                           for x in obs):
                    merr = merr or "native disagreement of %s.verify_helper_vartime without a failed obligation: %r" % (
                        c, mism)
                continue
            from_model = str(mism.get("origin", "")).startswith("solver model")
            tgt = [o for o in cands if (o.hint["helper"] != "hloop") == from_model] or cands
            for o in tgt:
                o.fail(dict(mism), o.solver, o.seconds, o.queries)
        else:
            for o in cand:
                if err:
                    o.reason += " | native replay unavailable: %s" % err[:200]
                elif getattr(o, "candidate", False):
                    o.reason += " | native replay of %d (Q, R, s, k) cases agrees with s*G = R + k*Q" % n
    return cnt, merr


EVIDENCE = dict(
    stubs={"Scalar::split_vartime -> its C11 contract (ghost corrections A, Bt for moduli above 1.73*2^253; "
           "exact pair with a magnitude bound otherwise)": "C11 (props/C11_split.py, C11_kani.py); Ed448: documented "
                                                           "bound, not proved (C11 corpus only)",
           "scalar-field operations -> ring operations modulo n": "C01",
           "Point::isneutral / has_low_order / equals -> opaque predicate of the accumulated value": "C06 (isneutral, "
                                                                                                       "equals)"},
    assumptions=["cut after the last recoder call: the code after the cut reads only the digit arrays and the two signed "
                 "points (P1, P2 / P0, P1), which are replaced by arbitrary values (enforced: every other local of "
                 "the frame is poisoned at the cut, a read of one is reported)",
                 "dropping the pending doublings does not change the final test: the group is Z/n (P-256) or has its "
                 "2-torsion of order dividing the cofactor, n odd",
                 "C1 invertible modulo n: C1*(s*G - R - k*Q) has trivial n-part iff s*G - R - k*Q has",
                 "integer identities between machine integers are decided as bit-vector equations at a width computed "
                 "from the operand widths and coefficient sizes (no wrap)"],
    outside=["has_low_order(P) <=> cofactor*P = 0 (Edwards curves): native ground facts on all torsion points, random "
             "points and their sums only", "Ed448 split_vartime magnitude bound |c0|, |c1| < 2^224 (assumed)"])
