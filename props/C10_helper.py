"""C10, verification helpers: `Point::verify_helper_vartime(self = Q, R, s, k)`.

Engine P, algorithm mode.  The function is cut once, right after its last
wNAF recoder call:

 (glue)  everything before the cut is executed from the MIR on symbolic
         inputs, along every feasible path: `split_vartime` is a contract
         stub (C11), scalars are polynomials over Z/n in (k, s) whose
         coefficients are integer atoms (values of machine integers, kept as
         z3 bit-vector terms), machine integers are bit-vectors.  Per path
         z3 decides that the multipliers handed to the recoders are
         |C1|*s mod n on the generator, |C1| on +-R and |C0| on +-Q with
         k*C1 = C0 (mod n), C1 != 0 (mod n), that they lie in the recoders'
         proved domains, and that no panic is reachable.
         Integer identities between atoms are bit-vector queries at a width
         that cannot wrap; statements modulo n are integer queries after the
         contract k*c1 = c0 (+ corrections) has been used as a rewrite rule.
 (loop)  everything after the cut, from arbitrary points P1, P2 and
         arbitrary valid digit arrays: column lemmas V' = 2V + D_i as for the
         two-scalar routines (props/C10.py), then "the returned Boolean is
         the neutral / low-order test of the accumulated value".

The composition (sum_i 2^i D_i = d1*P1 + d2*P2 + ss*G = C1*(s*G - R - k*Q))
uses the recoders' contract (sum of digits = argument, C10 recoders)."""
import random
import re
import time

import z3

from engines.polyid.interp import (Cell, Ref, IntV, BoolV, MaskV, Agg, Variant, MirError, Unsupported, UNIT,
                                   strip_generics)
from engines.polyid import terms as R
from engines.polyid.algo import (AlgoInterp, Config, Lin, PendLin, PathEnd, SymV, SymB, NotAbstractable,
                                 decide, _iv, _mul_int)

T128 = 1 << 128
Z3_TIMEOUT_MS = 30000


# --------------------------------------------------------------------------
# per-curve description of the helper

class HSpec:
    def __init__(self, kind, streams, nrec, acc="T", flag=None, final="isneutral", cof=1, c_bits=128, c_bound=None,
                 top_zero=(), corr=False):
        self.kind = kind          # representation of the split result: 'i128' | 'bytes'
        self.streams = streams    # per recoder call, in call order: debug name of the point it multiplies / 'B'
        self.nrec = nrec
        self.acc = acc            # debug name of the accumulator
        self.flag = flag          # debug name of the "accumulator is still the neutral" flag (or None)
        self.final = final        # point predicate applied to the accumulator
        self.cof = cof
        self.c_bits = c_bits      # width of the signed integers returned by split_vartime
        self.c_bound = c_bound    # contract: |c0|, |c1| < c_bound (None: no magnitude in the contract)
        self.top_zero = top_zero  # (stream index, first digit index the loop never reads)
        self.corr = corr          # contract with +-2^128 corrections (moduli above 1.73*2^253)


HELPERS = {
    "p256": HSpec("i128", ["P1", "P2", "B"], 3, flag="zz", final="isneutral", corr=True),
    "ed25519": HSpec("i128", ["B", "P1", "P2"], 3, final="has_low_order", cof=8, c_bound=1 << 127,
                     top_zero=((1, 128), (2, 128))),
    "ed448": HSpec("bytes", ["P0", "P1", "B"], 3, flag="isneu", final="has_low_order", cof=4, c_bits=232,
                   c_bound=1 << 224),
}
SCALAR_TYPES = ("ModInt256", "Scalar")
POINT_ARGS = ("Q", "R")


# --------------------------------------------------------------------------
# polynomials over Z/n

class SPoly:
    """sum of monomials (sorted tuples of variable names) with coefficients in [0, n)"""
    __slots__ = ("n", "c")

    def __init__(self, n, c=None):
        self.n = n
        self.c = {m: v % n for m, v in (c or {}).items() if v % n}

    @staticmethod
    def const(n, v):
        return SPoly(n, {(): v})

    @staticmethod
    def var(n, name):
        return SPoly(n, {(name,): 1})

    def __add__(self, o):
        r = dict(self.c)
        for m, v in o.c.items():
            r[m] = r.get(m, 0) + v
        return SPoly(self.n, r)

    def __neg__(self):
        return SPoly(self.n, {m: -v for m, v in self.c.items()})

    def __sub__(self, o):
        return self + (-o)

    def __mul__(self, o):
        if isinstance(o, int):
            return SPoly(self.n, {m: v * o for m, v in self.c.items()})
        r = {}
        for m1, v1 in self.c.items():
            for m2, v2 in o.c.items():
                m = tuple(sorted(m1 + m2))
                r[m] = (r.get(m, 0) + v1 * v2) % self.n
        return SPoly(self.n, r)

    def iszero(self):
        return not self.c

    def vars(self):
        return {x for m in self.c for x in m}

    def subst(self, name, p):
        out = SPoly(self.n)
        for m, v in self.c.items():
            k = m.count(name)
            rest = SPoly(self.n, {tuple(x for x in m if x != name): v})
            for _ in range(k):
                rest = rest * p
            out = out + rest
        return out

    def rewrite(self, rules):
        """rules: [((x, y), poly)]: x*y -> poly, applied until no monomial contains both"""
        cur = self
        for _ in range(16):
            changed = False
            out = SPoly(self.n)
            for m, v in cur.c.items():
                hit = None
                for (x, y), p in rules:
                    if x in m and y in m and (x != y or m.count(x) >= 2):
                        hit = (x, y, p)
                        break
                if hit is None:
                    out = out + SPoly(self.n, {m: v})
                    continue
                x, y, p = hit
                lst = list(m)
                lst.remove(x)
                lst.remove(y)
                out = out + SPoly(self.n, {tuple(lst): v}) * p
                changed = True
            cur = out
            if not changed:
                return cur
        raise NotAbstractable("rewrite rules do not terminate")

    def centered(self, v):
        return v - self.n if v > self.n // 2 else v

    def normalised(self):
        """multiply by the unit that makes the coefficients smallest (same zero set)"""
        best, bw = self, max((abs(self.centered(v)) for v in self.c.values()), default=0)
        for v in set(self.c.values()):
            try:
                u = pow(v, -1, self.n)
            except ValueError:
                continue
            cand = self * u
            w = max(abs(cand.centered(x)) for x in cand.c.values())
            if w < bw:
                best, bw = cand, w
        return best

    def __repr__(self):
        if not self.c:
            return "0"
        return " + ".join("%s%s" % (("%d" % self.centered(v)) if abs(self.centered(v)) < (1 << 40)
                                    else "%#x" % v, "".join("*" + x for x in m))
                          for m, v in sorted(self.c.items()))

    def __deepcopy__(self, memo):
        return self


class ScalV:
    """a scalar (element of Z/n) as a polynomial"""
    __slots__ = ("p",)

    def __init__(self, p):
        self.p = p

    def __deepcopy__(self, memo):
        return self

    def __repr__(self):
        return "ScalV(%r)" % (self.p,)


class SliceV:
    """&a[lo..hi] of an array held in a cell"""
    __slots__ = ("ref", "lo", "hi")

    def __init__(self, ref, lo, hi):
        self.ref, self.lo, self.hi = ref, lo, hi

    def elems(self):
        return self.ref.get().fields[self.lo:self.hi]

    def __deepcopy__(self, memo):
        import copy
        return SliceV(copy.deepcopy(self.ref, memo), self.lo, self.hi)


class Cut(Exception):
    pass


# --------------------------------------------------------------------------

def _ext(e, W, signed):
    if e.size() == W:
        return e
    if e.size() > W:
        raise NotAbstractable("atom wider than the proof width")
    return (z3.SignExt if signed else z3.ZeroExt)(W - e.size(), e)


class HelperInterp(AlgoInterp):
    """algorithm mode + the scalar ring + byte slices + contract stub of split_vartime"""

    def __init__(self, mir, cfg, curve, order, mode, **kw):
        AlgoInterp.__init__(self, mir, cfg, **kw)
        self.curve = curve
        self.hs = HELPERS[curve]
        self.n = order
        self.mode = mode                    # 'glue' | 'loop'
        self.atoms = {}                     # name -> (bit-vector term, signed)
        self._atom_ids = {}
        self.small = {}                     # ghost variables of the contract: name -> (lo, hi)
        self.rules = []                     # rewrite rules of the contract
        self.bv_assume = []                 # bit-vector side of the contract (magnitudes)
        self.int_assume = []                # integer side of the contract
        self.rec_calls = []                 # per recoder call: (method, [argument values])
        self.ends = []                      # glue mode: (path, kind, payload) per finished path
        self.ivars = {}                     # polynomial variable -> z3 Int
        self.cvars = {}                     # 'c0'/'c1' -> bit-vector variable
        self.ntests = {}                    # loop mode: Bool variable -> (Lin or PendLin) tested
        self.on_cut = None
        self.prune = True
        for nm in ("k", "s"):
            v = z3.Int(nm)
            self.ivars[nm] = v
            self.int_assume.append(z3.And(v >= 0, v < order))

    # ------------------------------------------------------------------
    # polynomial <-> z3
    def ivar(self, name):
        v = self.ivars.get(name)
        if v is None:
            v = self.ivars[name] = z3.Int(name)
            if name in self.atoms:
                e, sg = self.atoms[name]
                w = e.size()
                lo, hi = (-(1 << (w - 1)), (1 << (w - 1)) - 1) if sg else (0, (1 << w) - 1)
                self.int_assume.append(z3.And(v >= lo, v <= hi))
        return v

    def poly_int(self, p):
        """z3 Int term with the value of p (before reduction mod n); products with the small ghost
        variables are expanded into ite, any other product of two variables is non-linear"""
        tot = []
        for m, v in sorted(p.c.items()):
            c = p.centered(v)
            small = [x for x in m if x in self.small]
            big = [x for x in m if x not in self.small]
            if not big:
                t = z3.IntVal(c)
            else:
                t = self.ivar(big[0]) * c if c != 1 else self.ivar(big[0])
                for x in big[1:]:
                    t = t * self.ivar(x)
            for x in small:
                lo, hi = self.small[x]
                xv = self.ivar(x)
                e = z3.IntVal(0)
                for val in range(lo, hi + 1):
                    if val:
                        e = z3.If(xv == val, t * val if val != 1 else t, e)
                t = e
            tot.append(t)
        return z3.Sum(tot) if tot else z3.IntVal(0)

    def congruent_zero(self, p):
        """z3 Bool: p = 0 in Z/n (after the contract's rewrite rules)"""
        q = p.rewrite(self.rules).normalised()
        if q.iszero():
            return z3.BoolVal(True), q
        if all(not m for m in q.c):
            return z3.BoolVal(False), q
        return self.poly_int(q) % self.n == 0, q

    # ------------------------------------------------------------------
    def atom(self, e, signed, prefer=None):
        """polynomial variable standing for the integer value of the bit-vector term e"""
        key = (e.get_id(), signed)
        nm = self._atom_ids.get(key)
        if nm is None:
            nm = prefer or "a%d" % len(self.atoms)
            self._atom_ids[key] = nm
            self.atoms[nm] = (e, signed)
        return nm

    def scalar_of_int(self, v, signed):
        if isinstance(v, SymV):
            return ScalV(SPoly.var(self.n, self.atom(v.e, signed)))
        if isinstance(v, IntV):
            return ScalV(SPoly.const(self.n, v.v))
        raise NotAbstractable("scalar from %r" % (v,))

    # ------------------------------------------------------------------
    # constants of the scalar type
    def const_value(self, text, body=None):
        text = text.strip()
        try:
            v = AlgoInterp.const_value(self, text, body)
        except MirError:
            v = self._local_const(text, body)
        if isinstance(v, R.T):
            if R.is_const(v):
                return ScalV(SPoly.const(self.n, int(v.aux)))
            if v.op == "sym" and v.aux in self.named_consts:
                return ScalV(SPoly.const(self.n, int(self.named_consts[v.aux])))
        return v

    def _local_const(self, text, body):
        """`const X` declared inside a function body: printed with a bare name right after the function"""
        base = strip_generics(text).split("::")
        last, owner = base[-1], (base[-2] if len(base) >= 2 else "")
        lst = self.mir.items.get(last)
        if not lst or not owner:
            raise MirError("cannot resolve constant " + text)
        starts = []
        for nm in self.mir.by_last.get(owner, []):
            if nm.startswith(base[0] + "::<impl"):
                for kind, s, e in self.mir.items[nm]:
                    if kind == "fn":
                        starts.append(e)
        if len(starts) != 1:
            raise MirError("cannot resolve constant %s (%d enclosing functions)" % (text, len(starts)))
        after = [(s, i) for i, (kind, s, e) in enumerate(lst) if kind == "const" and s > starts[0]]
        if not after:
            raise MirError("cannot resolve constant " + text)
        s, which = min(after)
        # no other function may start in between
        for nm, items in self.mir.items.items():
            for kind, s2, e2 in items:
                if kind == "fn" and starts[0] < s2 < s:
                    raise MirError("constant %s is not adjacent to its function" % text)
        return self._run_body(self.mir.body(last, which), [], 2)

    # ------------------------------------------------------------------
    def op_ext(self, op, a, b=None):
        if b is None and op == "PtrMetadata":
            v = a.get() if isinstance(a, Ref) else a
            if isinstance(v, SliceV):
                return IntV(v.hi - v.lo, 64)
            if isinstance(v, Agg):
                return IntV(len(v.fields), 64)
            raise NotAbstractable("length of %r" % (v,))
        return AlgoInterp.op_ext(self, op, a, b)

    # ------------------------------------------------------------------
    def builtin(self, fr, cal, args):
        m = cal.method
        if m in ("panic", "panic_fmt", "panic_bounds_check", "unwrap_failed", "expect_failed"):
            self.ends.append((list(self.path), "panic", "%s in %s" % (m, fr.body.name.rsplit("::", 1)[-1])))
            raise PathEnd()
        vals = [a.get() if isinstance(a, Ref) else a for a in args]
        if cal.self_short in SCALAR_TYPES or any(isinstance(v, ScalV) for v in vals):
            r = self.scalar_call(fr, cal, args, vals)
            if r is not NotImplemented:
                return r
        # slices of byte arrays
        if cal.trait in ("Index", "IndexMut") and m in ("index", "index_mut") and len(args) == 2:
            rg = args[1]
            if isinstance(rg, Agg) and rg.path and isinstance(args[0], Ref):
                arr = args[0].get()
                last = rg.path.split("::")[-1]
                n = len(arr.fields)
                if last == "RangeTo":
                    lo, hi = 0, rg.fields[0].v
                elif last == "RangeFrom":
                    lo, hi = rg.fields[0].v, n
                elif last == "Range":
                    lo, hi = rg.fields[0].v, rg.fields[1].v
                else:
                    raise NotAbstractable("slice index " + rg.path)
                if not (0 <= lo <= hi <= n):
                    self.ends.append((list(self.path), "panic", "slice index out of range"))
                    raise PathEnd()
                return SliceV(args[0], lo, hi)
            if isinstance(args[0], Ref):
                return args[0]
        if m == "copy_from_slice" and len(args) == 2:
            def view(x):
                if isinstance(x, SliceV):
                    return x.ref, x.lo, x.hi
                if isinstance(x, Ref) and isinstance(x.get(), Agg):
                    return x, 0, len(x.get().fields)
                raise NotAbstractable("copy_from_slice on %r" % (x,))
            dr, dlo, dhi = view(args[0])
            sr, slo, shi = view(args[1])
            if dhi - dlo != shi - slo:
                self.ends.append((list(self.path), "panic", "copy_from_slice length mismatch"))
                raise PathEnd()
            src = list(sr.get().fields[slo:shi])
            dst = dr.get()
            for i, x in enumerate(src):
                dst.fields[dlo + i] = x
            return UNIT
        if m == "len" and len(args) == 1 and isinstance(vals[0], (Agg, SliceV)):
            v = vals[0]
            return IntV(len(v.fields) if isinstance(v, Agg) else v.hi - v.lo, 64)
        return AlgoInterp.builtin(self, fr, cal, args)

    # ------------------------------------------------------------------
    def scalar_call(self, fr, cal, args, vals):
        m, tr = cal.method, cal.trait
        n = self.n

        def sv(x):
            if isinstance(x, ScalV):
                return x.p
            raise NotAbstractable("scalar operation %s on %r" % (m, x))
        if m == "split_vartime" and len(args) == 1:
            return self.split_stub(fr, cal, vals[0])
        if m in ("from_i128", "from_i64", "from_i32") and len(args) == 1:
            self.count("scalar.from_int")
            return self.scalar_of_int(vals[0], True)
        if m in ("from_u128", "from_u64", "from_u32") and len(args) == 1:
            self.count("scalar.from_int")
            return self.scalar_of_int(vals[0], False)
        if m == "decode_reduce" and len(args) == 1:
            self.count("scalar.decode_reduce")
            bs = vals[0].elems() if isinstance(vals[0], SliceV) else vals[0].fields
            return self.scalar_of_bytes(bs)
        if m in ("add", "sub", "mul") and len(args) == 2 and tr in (None, "Add", "Sub", "Mul"):
            self.count("scalar." + m)
            a, b = sv(vals[0]), sv(vals[1])
            return ScalV(a + b if m == "add" else a - b if m == "sub" else a * b)
        if m in ("add_assign", "sub_assign", "mul_assign", "set_add", "set_sub", "set_mul") and len(args) == 2:
            op = m.replace("_assign", "").replace("set_", "")
            self.count("scalar." + op)
            a, b = sv(vals[0]), sv(vals[1])
            args[0].set(ScalV(a + b if op == "add" else a - b if op == "sub" else a * b))
            return UNIT
        if m == "neg" and len(args) == 1:
            self.count("scalar.neg")
            return ScalV(-sv(vals[0]))
        if m == "set_neg" and len(args) == 1:
            self.count("scalar.neg")
            args[0].set(ScalV(-sv(vals[0])))
            return UNIT
        if m == "mul2" and len(args) == 1:
            self.count("scalar.mul2")
            return ScalV(sv(vals[0]) * 2)
        if m == "equals" and len(args) == 2:
            self.count("scalar.equals")
            if self.mode == "loop":
                return IntV(0xFFFFFFFF, 32)
            cond, q = self.congruent_zero(sv(vals[0]) - sv(vals[1]))
            if z3.is_true(cond):
                return IntV(0xFFFFFFFF, 32)
            if z3.is_false(cond):
                return IntV(0, 32)
            ones, zero = z3.BitVecVal(-1, 32), z3.BitVecVal(0, 32)
            return SymV(z3.If(cond, ones, zero), 32, False, None, z3.Not(cond))
        if m in ("w64be", "from_w64be", "w64le", "from_w64le") or m in ("ZERO", "ONE"):
            return NotImplemented
        if any(isinstance(v, ScalV) for v in vals):
            raise NotAbstractable("scalar operation %s is not modelled" % m)
        return NotImplemented

    def scalar_of_bytes(self, bs):
        if all(isinstance(b, IntV) and not isinstance(b, SymV) for b in bs):
            return ScalV(SPoly.const(self.n, sum((b.v & 0xFF) << (8 * i) for i, b in enumerate(bs))))
        parts = [b.e if isinstance(b, SymV) else z3.BitVecVal(b.v, 8) for b in bs]
        e = z3.Concat(*reversed(parts)) if len(parts) > 1 else parts[0]
        return ScalV(SPoly.var(self.n, self.atom(e, False)))

    # ------------------------------------------------------------------
    def split_stub(self, fr, cal, src):
        """contract of Scalar::split_vartime (C11)"""
        self.count("split_vartime")
        hs = self.hs
        if not (isinstance(src, ScalV) and list(src.p.c) == [("k",)] and src.p.c[("k",)] == 1):
            raise NotAbstractable("split_vartime of something else than k")
        if self.cvars:
            raise NotAbstractable("second call of split_vartime")
        w = hs.c_bits
        if self.mode == "loop":
            # any concrete admissible pair: the state after the cut is replaced anyway
            if hs.kind == "i128":
                return Agg("tuple", [IntV(3, 128, True), IntV(5, 128, True)])
            z = [IntV(0, 8) for _ in range(w // 8 - 1)]
            return Agg("tuple", [Agg("array", [IntV(3, 8)] + z), Agg("array", [IntV(5, 8)] + list(z))])
        c0, c1 = z3.BitVec("c0", w), z3.BitVec("c1", w)
        self.cvars = {"c0": c0, "c1": c1}
        n = self.n
        for nm, e in (("c0", c0), ("c1", c1)):
            self._atom_ids[(e.get_id(), True)] = nm
            self.atoms[nm] = (e, True)
            v = self.ivar(nm)
            if hs.c_bound:
                self.int_assume.append(z3.And(v > -hs.c_bound, v < hs.c_bound))
                B = z3.BitVecVal(hs.c_bound, w)
                self.bv_assume.append(z3.And(e < B, e > -B))
        P = lambda nm: SPoly.var(n, nm)
        if hs.corr:
            # k*(c1 + Bt*2^128) = c0 + A*2^128 (mod n), A, Bt in {-1, 0, 1}, c1 + Bt*2^128 != 0
            self.small = {"A": (-1, 1), "Bt": (-1, 1)}
            for g in self.small:
                v = self.ivar(g)
                self.int_assume.append(z3.And(v >= -1, v <= 1))
            self.rules = [(("c1", "k"), P("c0") + P("A") * T128 - P("k") * P("Bt") * T128)]
            self.int_assume.append(self.ivar("c1") + self.ivar("Bt") * T128 != 0)
            self.contract = "exists A, Bt in {-1,0,1}: k*(c1 + Bt*2^128) = c0 + A*2^128 (mod n), c1 + Bt*2^128 != 0"
        else:
            self.rules = [(("c1", "k"), P("c0"))]
            self.int_assume.append(self.ivar("c1") != 0)
            self.bv_assume.append(c1 != 0)
            self.contract = "k*c1 = c0 (mod n), c1 != 0, |c0|, |c1| < 2^%d" % (hs.c_bound.bit_length() - 1)
        if hs.kind == "i128":
            return Agg("tuple", [SymV(c0, w, True), SymV(c1, w, True)])
        by = lambda e: Agg("array", [SymV(z3.Extract(8 * i + 7, 8 * i, e), 8, False) for i in range(w // 8)])
        return Agg("tuple", [by(c0), by(c1)])

    # ------------------------------------------------------------------
    def recode_naf(self, fr, cal, args):
        """the cut: record the argument, hand out digit variables (loop mode)"""
        self.count("recode_naf")
        ret = self._ret_type(fr, cal, len(args))
        mm = re.fullmatch(r"\[i8; (\d+)\]", ret.strip())
        if not mm:
            raise NotAbstractable("NAF recoder returning %s" % ret)
        nd = int(mm.group(1))
        vals = [a.get() if isinstance(a, Ref) else a for a in args]
        idx = len(self.rec_calls)
        self.rec_calls.append((cal.method, vals, nd))
        rng = getattr(self, "col_range", None)
        ds = []
        for j in range(nd):
            if self.mode == "glue" or (rng is not None and not (rng[0] <= (j % rng[2]) <= rng[1])):
                ds.append(IntV(0, 8, True))
                continue
            D = z3.Int("e%d_%d" % (idx, j))
            self.assumptions.append(z3.Or(D == 0, z3.And(D % 2 == 1, D >= -15, D <= 15)))
            ds.append(SymV(z3.Int2BV(D, 8), 8, True, D))
        self.streams.append((ds, None))
        if len(self.rec_calls) == self.hs.nrec and self.on_cut is not None:
            self.on_cut(self, fr)
        return Agg("array", ds)

    # ------------------------------------------------------------------
    def intercept(self, fr, cal, args):
        m = cal.method
        if cal.trait is None and cal.self_short == self.cfg.point and m in ("isneutral", "has_low_order") \
                and len(args) == 1:
            self.count(m)
            a = self.as_lin(args[0], pending=True)
            b = z3.Bool("nt%d" % len(self.ntests))
            self.ntests[b] = (m, a, list(self.path))
            return SymV(z3.If(b, z3.BitVecVal(-1, 32), z3.BitVecVal(0, 32)), 32, False, None, z3.Not(b))
        return AlgoInterp.intercept(self, fr, cal, args)
