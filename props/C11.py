"""C11 Scalar splitting functions meet their contracts and always terminate.
Constant-time endomorphism splits: engine L (this file).  Variable-time
Lagrange reduction / split_vartime: engine K (props/C11_kani.py)."""
import importlib, time
from engines.llsym.build import build, Driver
from engines.llsym.intenc import IntEnc, Lin
from engines.llsym import prove as PR
from engines.llsym import terms as T
from engines.llsym.llexec import ExecError, PanicReached
from vlib.common import Obligation, finish, log, NCPU
from vlib.par import pmap
from . import fields as F
from .fields import limbs_int, int_limbs
from .lhelp import status_word_exact, discover_cuts, sym_run, validate, word_form, atom_samples, decide, rng, hexl, MachineryError, model_inputs

ALL1 = 0xFFFFFFFF
# endomorphism eigenvalues (documented constants; checked below as ground facts: mu^2 = -1, theta^2+theta+1 = 0)
MU_JQ255E = 0x3304A73398CAEADB37382C8933C3F6D9B153382D88E2CF399C46EF0C23DF370D
MU_GLS254 = 0x17E6D0D00F54BC939F58BDDA363FE4991EEFADF1FAE163FC1B8487FC89A1F614
THETA_SECP = 0x5363AD4CC05C30E0A5261C028812645A122E22EA20816678DF02967C1B23BD72

# short lattice basis used by each split (documented in the source comments; spec-side knowledge used only to
# locate cut points -- if it does not match the code the decomposed proof is simply not available)
BASIS = {
    "jq255e.split_mu": [0x7D440C6AFFBB3A930B7A31305466F77E, 0x1A509F7A53C2C6E62ACCF9DEC93F6111],
    "gls254.split_mu": [0x40000000000000009C668C30C05A9969, 0x3FFFFFFFFFFFFFFF639973CF3FA56696],
    "secp256k1.split_theta": [64502973549206556628585045361533709077, 303414439467246543595250775667605759171],
}

SPLITS = [
    # name, host, call, scalar field tag, eigenvalue, relation, magnitude bound (bits) or None
    ("jq255e.split_mu", "src/jq255e.rs", "Point::split_mu", "scjq255e", MU_JQ255E, "sq-1", 127),
    ("gls254.split_mu", "src/gls254.rs", "Point::split_mu", "scgls254", MU_GLS254, "sq-1", 127),
    ("gls254.split_mu_odd", "src/gls254.rs", "Point::split_mu_odd", "scgls254", MU_GLS254, "sq-1", None),
    ("secp256k1.split_theta", "src/secp256k1.rs", "Point::split_theta", "scsecp256k1", THETA_SECP, "cube1", None),
]


def split_driver(name, host, call, f):
    ty = f.rust.replace("crate::" + host[4:-3] + "::", "")   # Scalar (driver lives inside the module)
    body = ("        let k: Scalar = unsafe { transmute::<[u64; 4], Scalar>(*a) };\n"
            "        let (v0, s0, v1, s1) = %s(&k);\n"
            "        n0[0] = v0 as u64; n0[1] = (v0 >> 64) as u64; n1[0] = v1 as u64; n1[1] = (v1 >> 64) as u64;\n"
            "        sg[0] = s0; sg[1] = s1;") % call
    return Driver("drv_" + name.replace(".", "_"),
                  [("a", "in", 8, 4), ("n0", "out", 8, 2), ("n1", "out", 8, 2), ("sg", "out", 4, 2)], body, host)


def check_split(built, spec, timeout):
    name, host, call, ftag, mu, rel, mag = spec
    f = F.BYTAG[ftag]
    r_ = f.q
    drv = "drv_" + name.replace(".", "_")
    fn = ["%s (%s)" % (call, host)]
    bounds = "all scalars (all Montgomery representations below the group order)"
    obs = []
    ob_t = Obligation("default:%s:total" % name, "L", fn, bounds,
                      "single straight-line path: returns for every input, no panic branch is reachable")
    obs.append(ob_t)
    try:
        ex, ins, outs = sym_run(built, drv)
    except PanicReached as e:
        ob_t.unknown("panic call on the executed path: %s" % e)
        return obs
    except ExecError as e:
        ob_t.unknown("executor: %s" % e)
        return obs
    ob_t.ok("symbolic execution: no symbolic branch, %d IR instructions" % ex.steps, 0.0, 0, syntactic=True)
    rr = rng("split", name)

    def smp(it):
        specials = [0, 1, r_ - 1, r_ - 2, r_ // 2, r_ // 2 + 1, (1 << 128) % r_, (1 << 127) % r_, mu, (mu * 7) % r_,
                    (r_ - mu) % r_, (1 << 252) % r_]
        X = specials[it] if it < len(specials) else rr.randrange(r_)
        # raw Montgomery limbs of value X
        return {"a": int_limbs((X * f.R) % r_, 4)}
    validate(built, drv, outs, smp, 24)
    enc = IntEnc()
    A = word_form(enc, ins["a"], 64)
    N0 = word_form(enc, outs["n0"], 64)
    N1 = word_form(enc, outs["n1"], 64)
    S0 = enc.form(outs["sg"][0])[0]
    S1 = enc.form(outs["sg"][1])[0]
    pre = ["(< %s %d)" % (A.smt(), r_)]
    samples = atom_samples(enc, built, drv, smp, [(N0, outs["n0"], 64), (N1, outs["n1"], 64)], 48)

    def native_ok(inputs):
        nat = built.native(drv, inputs)
        Av = limbs_int(inputs["a"])
        if Av >= r_:
            return True, {}
        k = f.val(Av)
        n0, n1 = limbs_int(nat["n0"]), limbs_int(nat["n1"])
        s0, s1 = nat["sg"]
        ok = s0 in (0, ALL1) and s1 in (0, ALL1)
        k0 = -n0 if s0 else n0
        k1 = -n1 if s1 else n1
        ok = ok and (k0 + k1 * mu - k) % r_ == 0
        if mag:
            ok = ok and n0 < (1 << mag) and n1 < (1 << mag)
        return ok, {"inputs": {"a": hexl(inputs["a"])}, "scalar": hex(k), "n0": hex(n0), "n1": hex(n1),
                    "s0": hex(s0), "s1": hex(s1)}
    ob_s = Obligation("default:%s:signwords" % name, "L", fn, bounds, "sign words are exactly 0 or 0xFFFFFFFF")
    if name == "secp256k1.split_theta" and not POSE_CONTRACT:
        # there the sign word is the top limb of the 160-bit intermediate: exactness *is* the magnitude theorem
        return obs
    obs.append(ob_s)
    sts = [status_word_exact(outs["sg"][i], 32, 20) for i in (0, 1)]
    if all(v == "unsat" for v, _ in sts):
        ob_s.ok("z3-bv (over-approximated cone)", 0.0, 2)
    else:
        decide(ob_s, enc, "(and (or (= %s 0) (= %s %d)) (or (= %s 0) (= %s %d)))"
               % (S0.smt(), S0.smt(), ALL1, S1.smt(), S1.smt(), ALL1), built, drv, native_ok, extra=pre,
               timeout=timeout, hunt_sampler=smp, key=name)
    if not POSE_CONTRACT:
        return obs
    ob_c = Obligation("default:%s:contract" % name, "L", fn, bounds,
                      "k == k0 + k1*mu (mod r) with k0 = +-n0, k1 = +-n1 as signalled")
    obs.append(ob_c)
    B0 = enc.as_mask(S0, 32)
    B1 = enc.as_mask(S1, 32)
    if B0 is None or B1 is None:
        ob_c.unknown("sign words are not syntactic masks in the encoding")
    else:
        z0, _, _ = enc.bool_times(B0, N0, 0, (1 << 128) - 1)
        z1, _, _ = enc.bool_times(B1, N1, 0, (1 << 128) - 1)
        K0 = N0 - z0.scale(2)
        K1 = N1 - z1.scale(2)
        rhs = (K0 + K1.scale(mu)).scale(f.R)
        # re-evaluate samples so that the new ite atoms have values
        samples2 = atom_samples(enc, built, drv, smp, None, 48)
        res = PR.prove_congruence(enc, A, rhs, r_, extra=pre, timeout=timeout, samples=samples2)
        if res.status == "proved":
            ob_c.ok("z3-int (%d lemmas)" % len(res.info.get("lemmas", [])), res.seconds, res.queries)
        else:
            model, secs, nq = PR.falsify(enc, "(not (= (mod (- %s %s) %d) 0))" % (A.smt(), rhs.smt(), r_),
                                         [{}], timeout=timeout, extra=pre)
            bad = None
            if model is not None:
                inp = model_inputs(model, built, drv)
                ok, det = native_ok(inp)
                if not ok:
                    bad = det
                    bad["found_by"] = "z3-int model"
            if bad is None:
                for it in range(400):
                    inp = smp(it)
                    ok, det = native_ok(inp)
                    if not ok:
                        bad = det
                        bad["found_by"] = "boundary replay after failed certificate"
                        break
            if bad:
                bad["key"] = name
                ob_c.fail(bad, "z3-int", res.seconds)
            else:
                ob_c.unknown("no congruence certificate (%s)" % res.info.get("reason"), "z3-int", res.seconds)
    if mag:
        ob_m = Obligation("default:%s:magnitude" % name, "L", fn, bounds, "|k0|, |k1| < 2^%d" % mag)
        obs.append(ob_m)
        decide(ob_m, enc, "(and (< %s %d) (< %s %d))" % (N0.smt(), 1 << mag, N1.smt(), 1 << mag), built, drv,
               native_ok, extra=pre, timeout=timeout, hunt_sampler=smp, key=name)
    return obs


def _limb_terms(outs_roots, envs, values_per_env, total_bits):
    """find DAG terms holding the little-endian limbs (64- or 32-bit) of an integer known per sample"""
    for lb in (64, 32):
        n = total_bits // lb
        targets = [(lb, [(v >> (lb * i)) & ((1 << lb) - 1) for v in values_per_env]) for i in range(n)]
        found = T.find_by_values(outs_roots, envs, targets)
        if all(x is not None for x in found):
            return found, lb
    return None, None


def check_split_decomposed(built, spec, timeout):
    """assume-guarantee proof with cut points located by simulation:
       (0) ki = val(k) (Montgomery decode), (i) c,d = round(ki*e/r), (ii) outputs from (ki,c,d)."""
    name, host, call, ftag, mu, rel, mag = spec
    f = F.BYTAG[ftag]
    r_ = f.q
    drv = "drv_" + name.replace(".", "_")
    fn = ["%s (%s)" % (call, host)]
    basis = BASIS.get(name)
    ob = Obligation("default:%s:contract" % name, "L", fn, "all scalars",
                    "k == k0 + k1*mu (mod r), |k0|,|k1| < 2^127, via cut points ki / c / d (assume-guarantee, each lemma for all values)")
    if not basis:
        return [ob.unknown("no lattice basis on the spec side")]
    t0 = time.time()
    ex, ins, outs = sym_run(built, drv)
    roots = outs["n0"] + outs["n1"] + outs["sg"]
    rr = rng("splitd", name)
    Rinv = pow(f.R, -1, r_)
    envs, kis = [], []
    for it in range(3):
        A = (rr.randrange(r_) * f.R) % r_
        envs.append({"a%d" % i: w for i, w in enumerate(int_limbs(A, 4))})
        kis.append((A * Rinv) % r_)
    hr = (r_ - 1) // 2
    nq = 0
    cp = discover_cuts(roots, envs, kis, 4, 64, "ki")
    if cp is None:
        return [ob.unknown("cut point ki not found in the DAG")]
    ki_terms, kv, mapping, q_ = cp
    nq += q_
    lb = 64
    # (0) ki == A * R^-1 mod r, ki < r  (on the real cone of ki)
    enc0 = IntEnc()
    A = word_form(enc0, ins["a"], 64)
    KI = word_form(enc0, [T.t_trunc(t, 64) for t in ki_terms], 64)
    pre0 = ["(< %s %d)" % (A.smt(), r_)]

    def smp(it):
        return {"a": int_limbs((rr.randrange(r_) * f.R) % r_, 4)}
    s0 = atom_samples(enc0, built, drv, smp, None, 40)
    res = PR.prove_congruence(enc0, KI.scale(f.R), A, r_, extra=pre0, timeout=timeout, samples=s0)
    nq += res.queries
    if res.status != "proved":
        return [ob.unknown("lemma (0) ki = val(k): %s" % res.info.get("reason"))]
    r0 = PR.prove_range(enc0, KI, 0, r_ - 1, extra=pre0, timeout=timeout)
    nq += 1
    if r0.status != "proved":
        return [ob.unknown("lemma (0) ki < r: %s" % r0.status)]
    # (i) each rounded quotient, as a function of the cut variables ki
    yv_all = []
    for j, e in enumerate(basis):
        ys = [(k * e + hr) // r_ for k in kis]
        cpy = discover_cuts(roots, envs, ys, 2, 64, "y%d_" % j)
        if cpy is None:
            return [ob.unknown("cut point round(ki*e/r) not found in the DAG")]
        yt, yv, ymap, q_ = cpy
        nq += q_
        y_sub = T.substitute([T.t_trunc(t, 64) for t in yt], mapping)
        enc1 = IntEnc()
        K = word_form(enc1, kv, 64)
        Y = word_form(enc1, y_sub, 64)
        pre1 = ["(< %s %d)" % (K.smt(), r_)]
        Z = K.scale(e) + hr
        goal = "(and (<= %s %s) (< %s %s))" % (Y.scale(r_).smt(), Z.smt(), Z.smt(), (Y.scale(r_) + r_).smt())
        r1 = PR.prove(enc1, goal, extra=pre1, timeout=timeout)
        nq += 1
        if r1.status != "proved":
            return [ob.unknown("lemma (i) rounded quotient %d: %s" % (j, r1.status))]
        yv_all.append(yv)
        mapping.update(ymap)
    # (ii) outputs from the cut variables
    o_sub = T.substitute(roots, mapping)
    n0t, n1t, sgt = o_sub[0:2], o_sub[2:4], o_sub[4:6]
    enc2 = IntEnc()
    K = word_form(enc2, kv, lb)
    pre2 = ["(< %s %d)" % (K.smt(), r_)]
    for yv, e in zip(yv_all, basis):
        Y = word_form(enc2, yv, 64)
        Z = K.scale(e) + hr
        pre2.append("(<= %s %s)" % (Y.scale(r_).smt(), Z.smt()))
        pre2.append("(< %s %s)" % (Z.smt(), (Y.scale(r_) + r_).smt()))
    N0 = word_form(enc2, n0t, 64)
    N1 = word_form(enc2, n1t, 64)
    S0 = enc2.form(sgt[0])[0]
    S1 = enc2.form(sgt[1])[0]
    B0, B1 = enc2.as_mask(S0, 32), enc2.as_mask(S1, 32)
    if B0 is None or B1 is None:
        return [ob.unknown("sign words are not syntactic masks")]
    z0, _, _ = enc2.bool_times(B0, N0, 0, (1 << 128) - 1)
    z1, _, _ = enc2.bool_times(B1, N1, 0, (1 << 128) - 1)
    K0 = N0 - z0.scale(2)
    K1 = N1 - z1.scale(2)
    # magnitude first (it is what makes the truncated 128-bit arithmetic exact)
    rm = PR.prove(enc2, "(and (< %s %d) (< %s %d))" % (N0.smt(), 1 << 127, N1.smt(), 1 << 127), extra=pre2, timeout=timeout)
    nq += 1
    if rm.status != "proved":
        return [ob.unknown("lemma (ii) magnitude: %s" % rm.status)]
    rc = PR.prove(enc2, "(= (mod (- %s %s) %d) 0)" % (K.smt(), (K0 + K1.scale(mu)).smt(), r_), extra=pre2, timeout=timeout)
    nq += 1
    if rc.status != "proved":
        return [ob.unknown("lemma (ii) congruence: %s" % rc.status)]
    return [ob.ok("z3-int: 3-stage assume-guarantee over cut points found by simulation", time.time() - t0, nq)]


def ground_facts():
    gf = {"checked": 0, "failed": 0, "facts": []}
    for nm, mu, r_, rel in (("jq255e mu^2 = -1 mod r", MU_JQ255E, F.RJQE, "sq"), ("gls254 mu^2 = -1 mod r", MU_GLS254, F.RGLS, "sq"),
                            ("secp256k1 theta^2+theta+1 = 0 mod n", THETA_SECP, F.NSECP, "cube")):
        ok = ((mu * mu + 1) % r_ == 0) if rel == "sq" else ((mu * mu + mu + 1) % r_ == 0)
        gf["checked"] += 1
        gf["failed"] += 0 if ok else 1
        gf["facts"].append({"fact": nm, "holds": ok})
    return gf


def split_corpus(built, spec):
    name, host, call, ftag, mu, rel, mag = spec
    f = F.BYTAG[ftag]
    r_ = f.q
    drv = "drv_" + name.replace(".", "_")
    ob = Obligation("default:%s:corpus" % name, "ground", ["%s (%s)" % (call, host)],
                    "closed cases: k = k0 + k1*mu for halves with special limb patterns (multiples of 2^32 / 2^64 / 2^96, all-ones limbs, "
                    "both signs), small and boundary scalars",
                    "native run: k = s0*|k0| + s1*|k1|*mu (mod r) with exact sign words and |k0|, |k1| < 2^128")
    t0 = time.time()
    r = rng("splitcorpus", name)
    ks = [0, 1, 2, r_ - 1, r_ - 2, r_ // 2, r_ // 3]
    pats = [0, 1, 3, (1 << 32) - 1, 1 << 32, (1 << 64) - 1, 1 << 64, (1 << 96), (1 << 64) * 5, (1 << 32) * 7, (1 << 100) + (1 << 64),
            (1 << 120) - (1 << 64), (1 << 96) * 3 + (1 << 32)]
    for a in pats:
        for b in pats[:7] + [r.getrandbits(100)]:
            for sa in (1, -1):
                for sb in (1, -1):
                    ks.append((sa * a + sb * b * mu) % r_)
    for _ in range(40):
        ks.append(r.randrange(r_))
    R_ = 1 << 256
    for k in ks:
        am = k * R_ % r_
        nat = built.native(drv, {"a": int_limbs(am, 4)})
        n0 = nat["n0"][0] | (nat["n0"][1] << 64)
        n1 = nat["n1"][0] | (nat["n1"][1] << 64)
        s0, s1 = nat["sg"]
        good = s0 in (0, ALL1) and s1 in (0, ALL1)
        if good:
            k0 = -n0 if s0 else n0
            k1 = -n1 if s1 else n1
            good = (k0 + k1 * mu - k) % r_ == 0
        if not good:
            return [ob.fail({"key": "%s.contract" % name, "inputs": {"k": hex(k)}, "native": {"n0": hex(n0), "s0": hex(s0), "n1": hex(n1), "s1": hex(s1)},
                             "found_by": "native replay of closed cases"}, "native", time.time() - t0, 0)]
    return [ob.ok("native replay x%d" % len(ks), time.time() - t0, 0, syntactic=True)]


POSE_CONTRACT = False  # the congruence needs the rounding lemma (does not close within budget: DESIGN 8)
MAG_POSED = False   # magnitude bound: posed only if it closes within budget (measured: see DESIGN section 8)


def run(tier, only=None):
    t0 = time.time()
    specs = [s for s in SPLITS if not only or s[0] in only or s[0].split(".")[0] in only]
    obs = []
    if specs and not (only and set(only) <= {"kani", "split", "zz", "theta", "divr"}):
        ds = [split_driver(s[0], s[1], s[2], F.BYTAG[s[3]]) for s in specs]
        built = build(ds, tag="C11-default")
        timeout = 120 if tier == "quick" else 1200

        def work(s):
            if not MAG_POSED and not only:
                s = s[:6] + (None,)
            return check_split(built, s, timeout)
        res = pmap(work, specs, nproc=NCPU, timeout=timeout * 10)
        # closed cases replayed natively: scalars k = k0 + k1*mu built from halves with special limb patterns
        # (zero low limbs, all-ones limbs, both signs): the returned halves must satisfy the contract
        for s_ in specs:
            obs.extend(split_corpus(built, s_))
        merr = None
        for s, (st, val) in zip(specs, res):
            if st == "ok":
                obs.extend(val)
            else:
                o = Obligation("default:%s" % s[0], "L")
                o.unknown("%s: %s" % (st, str(val)[-400:]))
                obs.append(o)
                if "MachineryError" in str(val):
                    merr = str(val)[-600:]
        built.close()
    else:
        merr = None
    if not only or "zz" in only:
        from . import C11_zz as ZZ
        shifts = ZZ.SHIFTS_QUICK if tier == "quick" else ZZ.SHIFTS_ALL
        zb = build(ZZ.drivers(shifts), tag="C11-zz")
        try:
            obs.extend(ZZ.obligations(zb, tier, shifts, 60 if tier == "quick" else 300))
        finally:
            zb.close()
    if not only or "theta" in only or "secp256k1" in only:
        from . import C11_theta as TH
        obs.extend(TH.obligations(tier))
    if not only or "divr" in only or (only and ("jq255e" in only or "gls254" in only)):
        from . import C11_divr2 as DV
        obs.extend(DV.obligations(tier))
    if not only or "split" in only:
        from . import C11_split as SP
        obs.extend(SP.obligations(tier))
    kani_note = "not run"
    if not only or "kani" in only:
        try:
            km = importlib.import_module("props.C11_kani")
            kobs = km.obligations(tier)
            obs.extend(kobs)
            kani_note = "%d obligations" % len(kobs)
        except ImportError:
            kani_note = "props/C11_kani.py not present"
    return finish("C11", tier, obs, t0,
                  functions_encoded=sorted(set(fn for o in obs for fn in o.functions)),
                  bounds={"constant-time splits": "all scalars", "engine K part": kani_note},
                  ground_facts=ground_facts(),
                  assumptions=["LLVM IR semantics as implemented in engines/llsym (validated natively each run)",
                               "eigenvalue constants as documented in the source tests (their defining relations are ground facts)"],
                  outside=["unbounded termination of full-width Lagrange reduction",
                           "secp256k1 split_theta: the linear glue between the two rounded quotients and the outputs (truncated products, "
                           "subtraction chains modulo 2^160, abs128) -- posed: the quotients' contract, the constants' identities and the "
                           "magnitude lemma |k0|, |k1| < 2^128",
                           "gls254 split_mu_odd: algebraic contract (posed: totality and sign words); posed for jq255e / gls254 split_mu: "
                           "the rounded quotients' contract, the constants' identities, the magnitude lemma and the glue (props/C11_divr2.py)"],
                  machinery_error=merr)
