"""C11: `mul_divr_rounded` of jq255e and GLS254 (rounded division of k*e by the group order r = 2^254 - r0
resp. 2^253 + r0, built from the zz.rs helpers): returns floor((k*e + (r-1)/2) / r) for all k < r, e < 2^127 - 2.
Engine L, integers: stage Z = k*e + (r-1)/2 (located by sampled values; abstract 64x64 partial products, the same
atoms on both sides; z3 LIA modulo 2^384), then the quotient logic over a fresh Z (multiplication by the constant
r0 is linear): z3 LIA decides  0 <= Z - y*r < r."""
import time
from engines.llsym.build import build, Driver
from engines.llsym import terms as T
from engines.llsym.llexec import ExecError
from engines.llsym.smt import run_solver
from engines.llsym.intenc import IntEnc, Lin
from engines.llsym import prove as PR
from vlib.common import Obligation
from . import fields as F
from .lhelp import sym_run, validate, rng, hexl, word_form
from .C11_theta import locate

CUR = {"jq255e": ("src/jq255e.rs", F.RJQE, [0x8FA964573A6C2292, 0xCE864987AA03C629, 0xFFFFFFFFFFFFFFFF, 0x1FFFFFFFFFFFFFFF, 0, 0]),
       "gls254": ("src/gls254.rs", F.RGLS, [0x9E5EF1BE7A1D467A, 0x1F8D23EF6E0D0ED6, 0, 0x1000000000000000, 0, 0])}
EMAX = (1 << 127) - 2


def drivers():
    ds = []
    for c, (host, r_, hr) in CUR.items():
        ds.append(Driver("drv_%s_divr" % c, [("k", "in", 8, 4), ("e", "in", 8, 2), ("out", "out", 8, 2)],
                         "        let y = Point::mul_divr_rounded(&crate::backend::Zu256::w64le(k[0], k[1], k[2], k[3]), &crate::backend::Zu128::w64le(e[0], e[1]));\n"
                         "        *out = unsafe { transmute::<crate::backend::Zu128, [u64; 2]>(y) };", host))
    return ds


def check(built, c, timeout):
    host, r_, hrl = CUR[c]
    HR = sum(w << (64 * i) for i, w in enumerate(hrl))
    assert HR == (r_ - 1) // 2, "constant (r-1)/2 transcribed from the source does not match the order"
    drv = "drv_%s_divr" % c
    ob = Obligation("default:%s.mul_divr_rounded:value" % c, "L", ["%s::Point::mul_divr_rounded" % c, "backend::w64::zz (helpers)"],
                    "all k < r and e <= 2^127 - 2 (64-bit limbs)", "returns floor((k*e + (r-1)/2) / r)")
    t0 = time.time()
    nq = 0
    r = rng("divr2", c)
    try:
        T.reset()
        ex, ins, outs = sym_run(built, drv)
    except ExecError as e:
        return [ob.unknown("executor: %s" % e)]

    def smp(it):
        k = r.randrange(r_) if it % 3 else r.choice([0, 1, r_ - 1, r_ - 2, r_ // 2])
        e = r.randrange(EMAX + 1) if it % 4 else r.choice([0, 1, EMAX, EMAX - 1])
        if it % 5 == 0:
            # make floor(z / 2^253..254) end in all-ones limbs so that the +/-1 corrections carry
            e = EMAX - r.getrandbits(20)
            tgt = (r.getrandbits(62) << 64 | (2**64 - 1)) << 254
            k = min(tgt // max(e, 1), r_ - 1)
        if it % 5 == 1:
            # k*e with limbs 2..4 all-ones: the carry of the +(r-1)/2 step travels into limb 5
            e = EMAX - r.getrandbits(20)
            top = r.randrange(1, (r_ * e) >> 320)
            X = (top << 320) | (((1 << 192) - 1) << 128) | r.getrandbits(128)
            k = min(X // e, r_ - 1)
        return {"k": [(k >> (64 * i)) & (2**64 - 1) for i in range(4)], "e": [(e >> (64 * i)) & (2**64 - 1) for i in range(2)]}

    def ref(inp):
        k = sum(w << (64 * i) for i, w in enumerate(inp["k"]))
        e = sum(w << (64 * i) for i, w in enumerate(inp["e"]))
        return (k * e + HR) // r_
    validate(built, drv, outs, smp, 16)
    envs, Zs = [], []
    for it in range(64):
        inp = smp(it + 50)
        env = {}
        for i in range(4):
            env["k%d" % i] = inp["k"][i]
        for i in range(2):
            env["e%d" % i] = inp["e"][i]
        k = sum(w << (64 * i) for i, w in enumerate(inp["k"]))
        e = sum(w << (64 * i) for i, w in enumerate(inp["e"]))
        envs.append(env)
        Zs.append((k * e + HR) % (1 << 384))
    roots = list(outs["out"])

    def undecided(why):
        for it in range(4000):
            inp = smp(it)
            nat = built.native(drv, inp)["out"]
            if (nat[0] | (nat[1] << 64)) != ref(inp) % (1 << 128):
                return [ob.fail({"key": "%s.mul_divr_rounded" % c, "inputs": {"k": hexl(inp["k"]), "e": hexl(inp["e"])},
                                 "native": hexl(nat), "expected": hex(ref(inp)),
                                 "found_by": "a stage lemma does not close (%s); boundary replay on the native build" % why}, "replay", time.time() - t0, nq)]
        return [ob.unknown(why)]
    zf = locate(roots, envs, Zs, 6, 64, pick="first")
    if zf is None:
        return undecided("stage Z = k*e + (r-1)/2 not located in the DAG")
    enc = IntEnc()
    Zform = word_form(enc, zf, 64)
    K = word_form(enc, ins["k"], 64)
    E = word_form(enc, ins["e"], 64)
    from .lhelp import atom_samples
    try:
        samples = atom_samples(enc, built, drv, smp, None, 24)
    except Exception as e:          # noqa
        samples = None
    res = PR.prove_congruence(enc, Zform, enc.product(K, E) + Lin(HR), 1 << 384, timeout=timeout, samples=samples)
    nq += res.queries
    if res.status != "proved":
        return undecided("stage Z: %s %s" % (res.status, str(res.info)[:300]))
    zv = [T.var("Z_%d" % i, 64) for i in range(6)]
    roots = T.substitute(roots, {f.id: v for f, v in zip(zf, zv)})
    enc = IntEnc()
    Zf = word_form(enc, zv, 64)
    Y = word_form(enc, roots, 64)
    # Z = k*e + (r-1)/2 with k < r, e <= 2^127 - 2
    zmax = (r_ - 1) * EMAX + HR
    rem = Zf - Y.scale(r_)
    res = PR.prove(enc, "(and (<= 0 %s) (< %s %d))" % (rem.smt(), rem.smt(), r_), extra=["(<= %s %d)" % (Zf.smt(), zmax)], timeout=timeout)
    nq += 1
    if res.status != "proved":
        return undecided("quotient stage: %s" % res.status)
    return [ob.ok("staged cut Z (z3-int, abstract partial products) + quotient logic over a fresh Z (z3-int)", time.time() - t0, nq)]




# ---------------------------------------------------------------------------------------------
# split_mu (jq255e, gls254): glue around the two rounded quotients

MU = {"jq255e": 0x3304A73398CAEADB37382C8933C3F6D9B153382D88E2CF399C46EF0C23DF370D,
      "gls254": 0x17E6D0D00F54BC939F58BDDA363FE4991EEFADF1FAE163FC1B8487FC89A1F614}
# (e for c, e for d) as in the source: c = round(k*EC/r), d = round(k*ED/r); k0 = k - d*ED - c*EC, k1 = d*EC - c*ED
EC = {"jq255e": 0x7D440C6AFFBB3A930B7A31305466F77E, "gls254": 0x40000000000000009C668C30C05A9969}
ED = {"jq255e": 0x1A509F7A53C2C6E62ACCF9DEC93F6111, "gls254": 0x3FFFFFFFFFFFFFFF639973CF3FA56696}


def split_drivers():
    ds = []
    for c, (host, r_, hr) in CUR.items():
        ds.append(Driver("drv_%s_splitmu" % c, [("a", "in", 8, 4), ("n0", "out", 8, 2), ("n1", "out", 8, 2), ("sg", "out", 4, 2)],
                         "        let k: Scalar = unsafe { transmute::<[u64; 4], Scalar>(*a) };\n        let (v0, s0, v1, s1) = Point::split_mu(&k);\n"
                         "        n0[0] = v0 as u64; n0[1] = (v0 >> 64) as u64; n1[0] = v1 as u64; n1[1] = (v1 >> 64) as u64; sg[0] = s0; sg[1] = s1;", host))
    return ds


def check_splitmu(built, c, timeout):
    from engines.llsym.llexec import Ptr
    from engines.llsym.smt import BVEmitter, bvc
    host, r_, hrl = CUR[c]
    HR = (r_ - 1) // 2
    ec, ed, mu = EC[c], ED[c], MU[c]
    fn = ["%s::Point::split_mu" % c]
    obs = []
    ids = {"mu^2 = -1 (mod r)": (mu * mu + 1) % r_ == 0, "EC*mu = ED... (-ED + EC*mu = 0 mod r)": (-ed + ec * mu) % r_ == 0,
           "EC + ED*mu = 0 (mod r)": (ec + ed * mu) % r_ == 0}
    ob_g = Obligation("default:%s.split_mu:constants" % c, "ground", fn, "closed", "; ".join(ids))
    (ob_g.ok("exact integer arithmetic", 0.0, 0, syntactic=True) if all(ids.values())
     else ob_g.fail({"key": "%s.split_mu.constants" % c, "facts": ids, "found_by": "exact integer arithmetic on the constants read from the source"}, "ground", 0.0, 0))
    obs.append(ob_g)
    smt = """(set-logic QF_LIA)
(declare-const K Int)(declare-const c Int)(declare-const d Int)
(assert (and (<= 0 K) (< K %d)))
(assert (and (<= 0 (- (+ (* %d K) %d) (* %d c))) (< (- (+ (* %d K) %d) (* %d c)) %d)))
(assert (and (<= 0 (- (+ (* %d K) %d) (* %d d))) (< (- (+ (* %d K) %d) (* %d d)) %d)))
(define-fun A0 () Int (- (- K (* %d d)) (* %d c)))
(define-fun A1 () Int (- (* %d d) (* %d c)))
(assert (not (and (< (- %d) A0) (< A0 %d) (< (- %d) A1) (< A1 %d))))
(check-sat)
""" % (r_, ec, HR, r_, ec, HR, r_, r_, ed, HR, r_, ed, HR, r_, r_, ed, ec, ec, ed, 1 << 127, 1 << 127, 1 << 127, 1 << 127)
    v, _, dt = run_solver(smt, "z3", timeout)
    ob_m = Obligation("default:%s.split_mu:magnitude" % c, "L", fn, "all 0 <= k < r and the rounded quotients c, d (as integers)",
                      "|k - d*ED - c*EC| < 2^127 and |d*EC - c*ED| < 2^127")
    (ob_m.ok("z3-int", dt, 1) if v == "unsat" else ob_m.unknown("solver: %s" % v))
    obs.append(ob_m)
    ob = Obligation("default:%s.split_mu:value" % c, "L", fn,
                    "all encoded scalars k < r (cut after Scalar::encode: C05) and all rounded quotients c, d",
                    "(|k0|, sgn k0, |k1|, sgn k1) for k0 = k - d*ED - c*EC, k1 = d*EC - c*ED taken modulo 2^128 as signed values, "
                    "c = mul_divr_rounded(k, EC), d = mul_divr_rounded(k, ED) [hence k = k0 + k1*mu (mod r) by the constants' identities "
                    "and |k0|, |k1| < 2^127 by the magnitude lemma]")
    obs.append(ob)
    t0 = time.time()
    nq = 0
    calls = []

    def hook(ex_, name, argv, rty):
        ptrs = [a for a in argv if isinstance(a, Ptr)]
        ints = [a for a in argv if not isinstance(a, Ptr)]
        # (sret, k, e) with e either a pointer to two words or two 64-bit integers (argument promotion)
        if len(ptrs) == 3 and not ints:
            kl = ex_.read_words(ptrs[1], 4, 8)
            el = ex_.read_words(ptrs[2], 2, 8)
        elif len(ptrs) == 2 and len(ints) == 2:
            kl = ex_.read_words(ptrs[1], 4, 8)
            el = ints
        else:
            raise ExecError("unexpected signature of mul_divr_rounded: %d pointers, %d integers" % (len(ptrs), len(ints)))
        if any(isinstance(x, T.Term) for x in el):
            raise ExecError("non-constant multiplier passed to mul_divr_rounded")
        e = (int(el[0]) & (2**64 - 1)) | ((int(el[1]) & (2**64 - 1)) << 64)
        nm = "c" if e == ec else ("d" if e == ed else "q%d" % len(calls))
        vs = [T.var("%s_%d" % (nm, i), 64) for i in range(2)]
        calls.append((nm, e, kl, vs))
        for i, v_ in enumerate(vs):
            ex_.store(Ptr(ptrs[0].obj, ptrs[0].off + 8 * i), 8, v_)
        return None

    def setup(ex):
        ex.add_call_hook(r"%s.*Point.*mul_divr_rounded" % c, hook)
    try:
        T.reset()
        ex, ins, outs = sym_run(built, "drv_%s_splitmu" % c, executor_setup=setup)
    except ExecError as e:
        ob.unknown("executor: %s" % e)
        return obs
    if sorted(c_[0] for c_ in calls) != ["c", "d"]:
        ob.unknown("expected the two calls mul_divr_rounded(k, EC) and (k, ED); saw %s" % [(c_[0], hex(c_[1])) for c_ in calls])
        return obs
    cd = {c_[0]: c_ for c_ in calls}
    if not all(x is y for x, y in zip(cd["c"][2], cd["d"][2])):
        ob.unknown("the two quotients are not computed from the same words")
        return obs
    kterms = cd["c"][2]
    KW = [T.var("KW_%d" % i, 64) for i in range(4)]
    roots = list(outs["n0"]) + list(outs["n1"]) + list(outs["sg"])
    # cut the encoded scalar: the words handed to mul_divr_rounded (64-bit terms or extracts of wider word terms)
    r = rng("splitmu", c)
    envs = []
    for it in range(48):
        k = r.randrange(r_) if it % 4 else r.choice([0, 1, r_ - 1, r_ // 2, r_ // 3, r.getrandbits(130)]) % r_
        cq = (k * ec + HR) // r_
        dq = (k * ed + HR) // r_
        am = k * (1 << 256) % r_
        env = {}
        for i in range(4):
            env["a%d" % i] = (am >> (64 * i)) & (2**64 - 1)
            env["KW_%d" % i] = (k >> (64 * i)) & (2**64 - 1)
        for i in range(2):
            env["c_%d" % i] = (cq >> (64 * i)) & (2**64 - 1)
            env["d_%d" % i] = (dq >> (64 * i)) & (2**64 - 1)
        envs.append(env)
    mp = {}
    nh = 0
    groups = {}
    for i, t_ in enumerate(kterms):
        if not isinstance(t_, T.Term):
            ob.unknown("a word passed to mul_divr_rounded is constant")
            return obs
        if t_.w == 64 and t_.op != "extract":
            groups.setdefault(t_.id, (t_, {}))[1][0] = i
        elif t_.op == "extract" and isinstance(t_.args[0], T.Term) and t_.args[1] % 64 == 0 and t_.w == 64:
            groups.setdefault(t_.args[0].id, (t_.args[0], {}))[1][t_.args[1] // 64] = i
        else:
            ob.unknown("word %d passed to mul_divr_rounded is not a 64-bit word term or an aligned extract of one" % i)
            return obs
    for pid_, (P, g) in groups.items():
        pv = [T.evaluate([P], env)[0] for env in envs]
        rep = 0
        for ch in range(max(1, P.w // 64)):
            if ch in g:
                piece = KW[g[ch]]
            else:
                piece = T.var("KH_%d" % nh, 64)
                for env, x in zip(envs, pv):
                    env["KH_%d" % nh] = (x >> (64 * ch)) & (2**64 - 1)
                nh += 1
            z = T.t_zext(piece, P.w) if P.w > 64 else piece
            z = T.t_shl(z, 64 * ch, P.w) if ch else z
            rep = z if ch == 0 else T.t_or(z, rep, P.w)
        mp[P.id] = rep
    roots = T.substitute(roots, mp)
    left = set(v_.aux[0] for v_ in T.variables([t for t in roots if isinstance(t, T.Term)])) - \
        set(["KW_%d" % i for i in range(4)] + ["KH_%d" % i for i in range(8)] + ["c_0", "c_1", "d_0", "d_1"])
    if left:
        ob.unknown("after cutting the encoded scalar the results still depend on %s" % sorted(left))
        return obs
    cv, dv = cd["c"][3], cd["d"][3]
    # signed 128-bit values g0, g1 (located by value), proved modulo 2^128 in LIA; then abs in bit-vectors
    A0s, A1s = [], []
    for env in envs:
        k = sum(env["KW_%d" % i] << (64 * i) for i in range(4))
        cq = env["c_0"] | (env["c_1"] << 64)
        dq = env["d_0"] | (env["d_1"] << 64)
        A0s.append((k - dq * ed - cq * ec) % (1 << 128))
        A1s.append((dq * ec - cq * ed) % (1 << 128))
    stage = {}
    for nm, vals in (("g0", A0s), ("g1", A1s)):
        gf = locate(roots, envs, vals, 2, 64, pick="last")
        if gf is None:
            ob.unknown("the 128-bit value %s was not located in the DAG" % nm)
            return obs
        enc = IntEnc()
        G = word_form(enc, gf, 64)
        Kf = word_form(enc, KW, 64)
        C = word_form(enc, cv, 64)
        D = word_form(enc, dv, 64)
        tgt = (Kf - D.scale(ed) - C.scale(ec)) if nm == "g0" else (D.scale(ec) - C.scale(ed))
        try:
            samples = [enc.eval_atoms(env) for env in envs[:24]]
        except (AssertionError, KeyError) as e:
            ob.unknown("integer encoder self-check failed in stage %s: %s" % (nm, e))
            return obs
        res = PR.prove_congruence(enc, G, tgt, 1 << 128, timeout=timeout, samples=samples)
        nq += res.queries
        if res.status != "proved":
            ob.unknown("stage %s (mod 2^128): %s %s" % (nm, res.status, str(res.info)[:200]))
            return obs
        vs = [T.var("%s_%d" % (nm, i), 64) for i in range(2)]
        stage[nm] = vs
        roots = T.substitute(roots, {f.id: (v_ if f.w == 64 else T.t_zext(v_, f.w)) for f, v_ in zip(gf, vs)})
        for env, val in zip(envs, vals):
            for i in range(2):
                env["%s_%d" % (nm, i)] = (val >> (64 * i)) & (2**64 - 1)
    em = BVEmitter()

    def W64(ws):
        e = None
        for x in ws:
            y = em.ref(x, 64) if isinstance(x, T.Term) else bvc(x, 64)
            e = y if e is None else "(concat %s %s)" % (y, e)
        return e
    bad = []
    for nm, o2, si in (("g0", roots[0:2], roots[4]), ("g1", roots[2:4], roots[5])):
        g = W64(stage[nm])
        bad.append("(distinct %s (ite (bvslt %s %s) (bvneg %s) %s))" % (W64(o2), g, bvc(0, 128), g, g))
        sref = em.ref(si, 32) if isinstance(si, T.Term) else bvc(si, 32)
        bad.append("(distinct %s (ite (bvslt %s %s) %s %s))" % (sref, g, bvc(0, 128), bvc(0xFFFFFFFF, 32), bvc(0, 32)))
    v, _, _ = run_solver(em.script(["(or %s)" % " ".join(bad)], get_model=False), "z3", timeout)
    nq += 1
    if v != "unsat":
        ob.unknown("abs stage: %s" % v)
        return obs
    ob.ok("contract stubs for the two quotients; staged cuts g0, g1 (z3-int, modulo 2^128) and abs (z3-bv)", time.time() - t0, nq)
    return obs


def obligations(tier):
    built = build(drivers() + split_drivers(), tag="C11-divr2", cut=True)
    try:
        obs = []
        to = 60 if tier == "quick" else 300
        for c in CUR:
            obs.extend(check(built, c, to))
            obs.extend(check_splitmu(built, c, to))
        return obs
    finally:
        built.close()
