"""C11, engine K part: variable-time Lagrange reduction (src/backend/w64/lagrange.rs) and the
ModInt256::split_vartime glue (src/backend/w64/modint.rs), decided by Kani (CBMC + CaDiCaL/Kissat)
on the real code.  Library module: `obligations(tier)` returns vlib.common.Obligation objects; the
coordinator's props/C11.py feeds them to `finish`.  See engines/kani/NOTES_C11.md.

    python3-vt props/C11_kani.py [quick|thorough] [name-substring ...]
"""
import os, re, shutil, subprocess, sys, time
sys.path.insert(0, os.path.dirname(os.path.dirname(os.path.abspath(__file__))))
from engines.kani.runner import HDIR, Insert, prepare, _run_one
from vlib.common import Obligation, log
from vlib.par import pmap

PID = "C11"
KEY_ASSERT = "modint.split_vartime.assert_false"

LAG = "src/backend/w64/lagrange.rs"
MOD = "src/backend/w64/modint.rs"
F_GLUE, F_PARTS, F_HELPER, F_LAG = ("modint_split_glue.rs", "modint_split_parts.rs",
                                    "modint_split_p256helper.rs", "lagrange_bounded.rs")
INSERTS = [(MOD, F_GLUE), (MOD, F_PARTS), (MOD, F_HELPER), (LAG, F_LAG)]

COMMON = ["--no-assertion-reach-checks"]          # vacuity is guarded by explicit kani::cover!
KISSAT = COMMON + ["--solver", "kissat"]

SPLIT_FN = ["ModInt256::split_vartime (%s)" % MOD]
ED, P256 = "ed25519::Scalar", "p256::Scalar"

# harness -> description.  cap = (quick, thorough) wall seconds; tiers in which it is posed.
# Measured times (16 cores shared with other checks, load 10-30) are in NOTES_C11.md.
H = [
    # ---- split_vartime: the known reachable assert!(false) -------------------------------------
    dict(h="verif_split_glue_lfam_ed25519", file=F_GLUE, name="split_vartime[ed25519]:second_vector_too_long",
         key=KEY_ASSERT, fn=SPLIT_FN, args=COMMON, cap=(420, 900), tiers=("quick", "thorough"),
         bounds="k = floor(n/2^t) + eps, 32 <= t < 96, eps < 2^16 (restricted family); Lagrange routines by contract "
                "(level 1 full contract, level 2 with a short-vector certificate)",
         desc="%s: when the first reduction is accepted (bl_nv <= 124) and the second one reports a long second "
              "vector (bl_nv > 208) the documented behaviour is the fallback to the generic reduction: no panic, "
              "result = the generic routine's pair" % ED),
    dict(h="verif_split_glue_lsmall_ed25519", file=F_GLUE, name="split_vartime[ed25519]:second_vector_too_long:k<2^204",
         key=KEY_ASSERT, fn=SPLIT_FN, args=KISSAT, cap=(0, 1200), tiers=("thorough",),
         bounds="all k < 2^204; Lagrange routines by contract (full level-1 contract, level-2 certificate)",
         desc="same claim, every scalar below 2^204 (%s)" % ED),
    dict(h="verif_split_glue_long_ed25519", file=F_GLUE, name="split_vartime[ed25519]:second_vector_too_long:all_k",
         key=KEY_ASSERT, fn=SPLIT_FN, args=KISSAT, cap=(0, 1800), tiers=("thorough",),
         bounds="all k < n; Lagrange routines by contract (full level-1 contract, level-2 certificate)",
         desc="same claim, every scalar (%s)" % ED),
    dict(h="verif_split_glue_lfam_p256", file=F_GLUE, name="split_vartime[p256]:second_vector_too_long",
         key=KEY_ASSERT, fn=SPLIT_FN, args=KISSAT, cap=(0, 1800), tiers=("thorough",),
         bounds="k = floor(n/2^t) + eps, 32 <= t < 96, eps < 2^16 (restricted family); Lagrange routines by contract",
         desc="same claim for %s (modulus above 1.73*2^253)" % P256),
    # ---- split_vartime: main path and level-1 fallback, all scalars -----------------------------
    dict(h="verif_split_glue_main_ed25519", file=F_GLUE, name="split_vartime[ed25519]:glue_main", key="split.glue_main",
         fn=SPLIT_FN + ["apply_matrix", "smul_trunc", "norm_nonmonty_signed", "signed_abs", "unsigned_lt"],
         args=COMMON, cap=(300, 900), tiers=("quick", "thorough"),
         bounds="all k < n, every behaviour of the Lagrange / Montgomery contracts (level 2 returning bl_nv <= 208)",
         desc="%s: no panic / overflow / out-of-bounds anywhere in the glue; level-1 fallback returns the generic "
              "routine's pair; on the main path c1 is the last reduction's (truncated) second coordinate and c0 comes "
              "from 3 or 4 Montgomery products" % ED),
    dict(h="verif_split_glue_main_p256", file=F_GLUE, name="split_vartime[p256]:glue_main", key="split.glue_main",
         fn=SPLIT_FN, args=COMMON, cap=(300, 900), tiers=("quick", "thorough"),
         bounds="all k < n, every behaviour of the Lagrange / Montgomery contracts (level 2 returning bl_nv <= 208)",
         desc="same for %s (large-modulus path: the +-2^128 candidates)" % P256),
    # ---- building blocks -------------------------------------------------------------------
    dict(h="verif_split_smul_trunc_ed25519", file=F_PARTS, name="smul_trunc[ed25519]", key="split.smul_trunc",
         fn=["ModInt256::smul_trunc (%s)" % MOD], args=COMMON, cap=(240, 600), tiers=("quick", "thorough"),
         bounds="all operands; product supplied by the Montgomery contract, |centered product| < 2^191 (documented precondition)",
         desc="result = low three words of the centered representative of the product"),
    dict(h="verif_split_smul_trunc_p256", file=F_PARTS, name="smul_trunc[p256]", key="split.smul_trunc",
         fn=["ModInt256::smul_trunc (%s)" % MOD], args=COMMON, cap=(240, 600), tiers=("quick", "thorough"),
         bounds="all operands; product supplied by the Montgomery contract, |centered product| < 2^191",
         desc="result = low three words of the centered representative of the product"),
    dict(h="verif_split_norm_signed_ed25519", file=F_PARTS, name="norm_nonmonty_signed[ed25519]", key="split.norm_signed",
         fn=["ModInt256::norm_nonmonty_signed", "ModInt256::signed_abs", "ModInt256::unsigned_lt"],
         args=COMMON, cap=(240, 600), tiers=("quick", "thorough"), bounds="all normalized values",
         desc="norm_nonmonty_signed(x) = x if x <= (n-1)/2 else x-n (two's complement); signed_abs, unsigned_lt exact"),
    dict(h="verif_split_norm_signed_p256", file=F_PARTS, name="norm_nonmonty_signed[p256]", key="split.norm_signed",
         fn=["ModInt256::norm_nonmonty_signed", "ModInt256::signed_abs", "ModInt256::unsigned_lt"],
         args=COMMON, cap=(240, 600), tiers=("quick", "thorough"), bounds="all normalized values",
         desc="norm_nonmonty_signed(x) = x if x <= (n-1)/2 else x-n (two's complement); signed_abs, unsigned_lt exact"),
    dict(h="verif_split_zero_ed25519", file=F_PARTS, name="split_vartime[ed25519]:zero", key="split.zero",
         fn=SPLIT_FN + ["lagrange128_basisconv_vartime", "lagrange256_vartime"], args=COMMON, cap=(300, 600),
         tiers=("quick", "thorough"), bounds="closed (k = 0), real reduction code, no stub except adc/sbb",
         desc="zero is split as (0, 1)"),
    dict(h="verif_split_zero_p256", file=F_PARTS, name="split_vartime[p256]:zero", key="split.zero",
         fn=SPLIT_FN + ["lagrange128_basisconv_vartime", "lagrange256_vartime"], args=COMMON, cap=(300, 600),
         tiers=("quick", "thorough"), bounds="closed (k = 0), real reduction code, no stub except adc/sbb",
         desc="zero is split as (0, 1)"),
    # ---- analogous assertion in p256::verify_helper_vartime -----------------------------------
    dict(h="verif_p256_helper_assert", file=F_HELPER, name="p256.verify_helper_vartime:assert_b", key="p256.verify_helper.assert_b",
         fn=["p256::Point::verify_helper_vartime (src/p256.rs)"], args=COMMON, cap=(400, 900), tiers=("quick", "thorough"),
         bounds="all k, s; split_vartime by its documented contract (some a, b in {-1,0,1} with k(c1+b 2^128) = c0+a 2^128)",
         desc="`assert!(b != -100)` is unreachable: the candidate loop finds (a, b) for each of the nine corrections"),
    # ---- Lagrange layer A: multi-limb shifted add/sub, all values ------------------------------
    dict(h="verif_lag_zint_128", file=F_LAG, name="lagrange.ZInt128.add_sub_shifted", key="lagrange.zint",
         fn=["ZInt128::set_add_shifted", "ZInt128::set_sub_shifted (%s)" % LAG], args=KISSAT, cap=(420, 900),
         tiers=("quick", "thorough"), bounds="all limb values, all shift counts <= 256",
         desc="self +- (rhs << s) modulo 2^128 against a bit-offset reference"),
    dict(h="verif_lag_zint_256", file=F_LAG, name="lagrange.ZInt256.add_sub_shifted", key="lagrange.zint",
         fn=["ZInt256::set_add_shifted", "ZInt256::set_sub_shifted (%s)" % LAG], args=KISSAT, cap=(0, 1800),
         tiers=("thorough",), bounds="all limb values, all shift counts <= 512",
         desc="self +- (rhs << s) modulo 2^256 against a bit-offset reference"),
    # ---- Lagrange layer B: reduction loops on bounded operands --------------------------------
    dict(h="verif_lag_basisconv_b4", file=F_LAG, name="lagrange128_basisconv_vartime:operands<2^4", key="lagrange.basisconv",
         fn=["lagrange128_basisconv_vartime (%s)" % LAG], args=KISSAT, cap=(420, 900), tiers=("quick", "thorough"),
         bounds="all a <= b < 2^4, unwind 8 (unwinding assertions on); ZInt256 shifted add/sub by their layer-A contract",
         desc="terminates; (e0,e1,f0,f1) has determinant +-1; u = e0[a,1]+e1[b,0], v = f0[a,1]+f1[b,0] size-reduced, "
              "N(u) <= N(v); bl_nv = bitlen(N(v)); no panic/overflow"),
    dict(h="verif_lag_basisconv_b6", file=F_LAG, name="lagrange128_basisconv_vartime:operands<2^6", key="lagrange.basisconv",
         fn=["lagrange128_basisconv_vartime (%s)" % LAG], args=KISSAT, cap=(0, 1800), tiers=("thorough",),
         bounds="all a <= b < 2^6, unwind 10", desc="same contract"),
    dict(h="verif_lag_basisconv_b8", file=F_LAG, name="lagrange128_basisconv_vartime:operands<2^8", key="lagrange.basisconv",
         fn=["lagrange128_basisconv_vartime (%s)" % LAG], args=KISSAT, cap=(0, 1800), tiers=("thorough",),
         bounds="all a <= b < 2^8, unwind 12", desc="same contract"),
    dict(h="verif_lag_spec128_kn_b4", file=F_LAG, name="lagrange128_spec_vartime:L(k,n),n<2^4", key="lagrange.spec128",
         fn=["lagrange128_spec_vartime (%s)" % LAG], args=KISSAT, cap=(0, 1800), tiers=("thorough",),
         bounds="bases [k+t n, 1], [+-n, 0] (either order), k < n < 2^4, |t| <= 2, unwind 12",
         desc="terminates; returned second coordinates belong to a size-reduced basis (N(u) <= N(v), 2|<u,v>| <= N(u), "
              "det +-n) of the same lattice; returned bit length = bitlen(N(v))"),
]

STUBS = {
    "addcarry_u64 / subborrow_u64": "portable definitions of src/backend/w64/mod.rs (Intel adc/sbb semantics trusted)",
    "ModInt256::set_mul": "arbitrary normalized value (Montgomery product contract; C01 decides the real one)",
    "ModInt256::set_montyred": "plain value of the harness scalar kept in a ghost (contract of Montgomery decoding)",
    "lagrange128_basisconv_vartime (glue harnesses)": "glue_main: sizes only (|e|,|f| <= 2^62+1 when bl_nv <= 124); "
        "second_vector_too_long: the full documented contract (det +-1, size-reduced, bl_nv = bitlen N(v) <= 124)",
    "lagrange128_spec_vartime (glue harnesses)": "glue_main: bl_nv <= 208 and |u1|,|v1| < 2^104; second_vector_too_long: "
        "bl_nv > 208 only with a certificate w = xA+yB, N(w) <= (n>>189)^2 (forces bl_nv >= 209 for every reduced basis)",
    "lagrange192_spec_vartime, lagrange256_vartime (glue harnesses)": "arbitrary outputs (recorded in ghosts)",
    "ZIntN::set_add_shifted / set_sub_shifted (reduction-loop harnesses)": "their contract self +- (rhs<<s) mod 2^(64N), "
        "evaluated on sign-extended 128-bit values with the domain asserted; decided by lagrange.ZIntN.add_sub_shifted",
    "ModInt256::split_vartime, Point::recode_u129_NAF (p256 helper harness)": "split contract with ghost (a, b); the 4th "
        "Montgomery product returns a - b*k (ring axioms); everything after the assertion is cut",
}

OUTSIDE = [
    "unbounded termination of full-width Lagrange reduction (only bounded operand sizes are unwound)",
    "lagrange256_vartime on symbolic operands (8-limb ZInt512 arithmetic: CBMC out of memory at 4-bit operands); it is "
    "exercised only for k = 0 (split.zero)",
    "lagrange128/192_spec_vartime on arbitrary signed bases (two-call harness does not close at 3-bit operands); "
    "lagrange128_spec_vartime is posed on the lattice shape L(k, n) only (thorough tier); the same harness for "
    "lagrange192_spec_vartime (6-limb ZInt384) did not close within 28 min and is not posed",
    "ZInt384 / ZInt512 shifted add/sub (ZInt512: no verdict in 25 min)",
    "one-iteration ranking argument (ii): the loop bodies cannot be called in isolation without editing /repo",
    "functional contract k*c1 = c0 (mod n) of the main path: needs exact 256-bit modular products (engine L/P territory); "
    "posed at glue level: which reduction output becomes c1, how many products feed c0, fallback identity",
    "gfgen.rs `assert!(a != -100)`: the block is compiled only when SPLIT_LEN > 8*DLEN, false for every type the crate "
    "instantiates (ed448::Scalar: SPLIT_LEN = 29, DLEN = 4); reachable only through user-defined moduli",
    "w32 backend copies of the same code (src/backend/w32/modint.rs has the same leftover assertion)",
]


def native_replay(sc, res, harness_basename, timeout=900):
    """Kani concrete playback of the counterexample, natively and WITHOUT stubs (same mechanics as
    engines.kani.runner.replay).  Returns (reproduced, panic message).  A playback whose only panic is Kani's own
    'there were still these concrete values left over' (the stubs drew kani::any() values that the unstubbed run
    never consumes) is NOT a reproduction: the library returned normally."""
    if not res.playback:
        return None, "no playback"
    m = re.search(r"fn (kani_concrete_playback_\w+)", res.playback)
    if not m:
        return None, "no playback test"
    hfile = os.path.join(sc.src, "src", "verif_h", harness_basename)
    pb = res.playback.replace("Vec<Vec<u8>>", "std::vec::Vec<std::vec::Vec<u8>>").replace("vec![", "std::vec![")
    with open(hfile, "a") as fh:
        fh.write("\n" + pb + "\n")
    tdir = os.path.join(sc.root, "kt_replay_" + m.group(1)[-12:])
    env = dict(os.environ)
    env["CARGO_NET_OFFLINE"] = "true"
    env["CARGO_TARGET_DIR"] = tdir
    try:
        p = subprocess.run(["cargo", "kani", "playback", "-Z", "concrete-playback", "--", m.group(1)], cwd=sc.src,
                           env=env, stdout=subprocess.PIPE, stderr=subprocess.STDOUT, text=True, timeout=timeout)
        out = p.stdout
    except subprocess.TimeoutExpired:
        shutil.rmtree(tdir, ignore_errors=True)
        return None, "playback timed out"
    shutil.rmtree(tdir, ignore_errors=True)
    panics = re.findall(r"panicked at ([^\n]*):\n([^\n]*)", out)
    real = [(loc, msg) for loc, msg in panics if "concrete_playback.rs" not in loc]
    if real:
        return True, "%s: %s" % (real[0][0], real[0][1][:200])
    if panics or re.search(r"test result: ok\. 1 passed", out):
        return False, "library returned normally" + (" (only Kani's leftover-values panic)" if panics else "")
    return None, out[-400:]


def _sel(tier, only):
    out = []
    for d in H:
        if tier not in d["tiers"]:
            continue
        if only and not any(o in d["h"] or o in d["name"] for o in only):
            continue
        out.append(d)
    return out


def obligations(tier, only=None):
    t0 = time.time()
    items = _sel(tier, only)
    if not items:
        return []
    sc = prepare([Insert(rel, os.path.join(HDIR, f), module=None) for rel, f in INSERTS])
    capi = 0 if tier == "quick" else 1
    # longest first
    items.sort(key=lambda d: -d["cap"][capi])

    def work(it):
        idx, d = it
        cap = d["cap"][capi]
        r = _run_one(sc, d["h"], cap, 20, None, d["args"], idx)
        if r.status in ("oom", "error") and r.seconds < cap / 2:
            # CBMC processes are occasionally killed from outside on the shared machine: one retry
            log("[C11k] %s: %s after %.0fs, retrying once" % (d["h"], r.status, r.seconds))
            r = _run_one(sc, d["h"], cap, 20, None, d["args"], idx + 1000)
        return r
    res = pmap(work, list(enumerate(items)), nproc=8, timeout=max(d["cap"][capi] for d in items) * 2 + 240)
    obs = []
    for d, (st, r) in zip(items, res):
        ob = Obligation("kani:" + d["name"], "K", d["fn"], d["bounds"], d["desc"])
        if st != "ok":
            ob.unknown("runner: %s %s" % (st, str(r)[-300:]), "kani")
            obs.append(ob)
            continue
        log("[C11k] %-36s %-8s %6.1fs covers=%s %s" % (d["h"], r.status, r.seconds, r.covers, "; ".join(r.failed[:2])))
        solver = "kani/cbmc+kissat" if "kissat" in d["args"] else "kani/cbmc+cadical"
        if r.status == "success":
            if r.unsat_covers or r.covers[0] != r.covers[1]:
                ob.unknown("vacuity guard not reached: %s" % r.unsat_covers[:3], solver, r.seconds)
            else:
                ob.ok(solver, r.seconds)
        elif r.status == "failure":
            r.replayed, why = native_replay(sc, r, d["file"])
            log("[C11k] %s native playback: %s %s" % (d["h"], r.replayed, why))
            if r.replayed is True:
                ob.fail({"key": d["key"], "harness": d["h"], "failed_checks": r.failed[:8], "native_panic": why,
                         "scalar_k_hex": _k_of(r.playback) if d["key"] == KEY_ASSERT else None, "playback": r.playback,
                         "replay": "cargo kani playback of the unit test above, WITHOUT stubs, panics natively"},
                        solver + " + native playback", r.seconds)
            else:
                ob.unknown("counterexample lives only under a stub / does not reproduce natively (%s, %s): %s"
                           % (r.replayed, why[:120], "; ".join(r.failed[:3])), solver, r.seconds)
        else:
            ob.unknown("%s: %s" % (r.status, r.log_tail[-300:].replace("\n", " | ")), solver, r.seconds)
        obs.append(ob)
    sc.remove()
    log("[C11k] %d obligations in %.0fs" % (len(obs), time.time() - t0))
    return obs


# harnesses whose claim is "returns without panicking" (property C19 reuses them)
TOTALITY = ["verif_split_glue_lfam_ed25519", "verif_split_glue_lsmall_ed25519", "verif_split_glue_long_ed25519",
            "verif_split_glue_lfam_p256", "verif_split_glue_main_ed25519", "verif_split_glue_main_p256",
            "verif_split_zero_ed25519", "verif_split_zero_p256", "verif_p256_helper_assert"]


def totality_obligations(tier):
    """the subset about panic-freedom of split_vartime and of p256 verify_helper_vartime's recovery loop"""
    return obligations(tier, only=TOTALITY)


def _k_of(playback):
    """scalar of a split_vartime counterexample: the harness's first kani::any() values"""
    import re
    if not playback:
        return None
    vs = re.findall(r"vec!\[([0-9, ]+)\]", playback)
    try:
        b = [bytes(int(x) for x in v.split(",")) for v in vs]
        if len(b) >= 4 and all(len(x) == 8 for x in b[:4]):
            return "%064x" % sum(int.from_bytes(x, "little") << (64 * i) for i, x in enumerate(b[:4]))
        if len(b) >= 2 and len(b[0]) == 4 and len(b[1]) == 2:
            return "family: k = (n >> %d) + %d" % (int.from_bytes(b[0], "little"), int.from_bytes(b[1], "little"))
    except Exception:
        pass
    return None


if __name__ == "__main__":
    tier = sys.argv[1] if len(sys.argv) > 1 else "quick"
    only = sys.argv[2:] or None
    obs = obligations(tier, only)
    from vlib.common import match_known
    n = {"discharged": 0, "violated": 0, "inconclusive": 0}
    for o in obs:
        n[o.verdict] = n.get(o.verdict, 0) + 1
        extra = ""
        if o.verdict == "violated":
            extra = " key=%s%s%s" % (o.model.get("key"),
                                     " k=%s" % o.model.get("scalar_k_hex") if o.model.get("key") == KEY_ASSERT else "",
                                     " [KNOWN-FINDING]" if match_known(PID, o) else "")
        elif o.verdict == "inconclusive":
            extra = " " + o.reason[:160]
        print("%-13s %7.1fs %s%s" % (o.verdict, o.seconds, o.name, extra))
    print("SUMMARY C11/kani tier=%s obligations=%d discharged=%d violated=%d inconclusive=%d"
          % (tier, len(obs), n["discharged"], n["violated"], n["inconclusive"]))
