"""C11: `ModInt256::split_vartime` (w64 backend), the three-level driver around the Lagrange
reductions: fallbacks, candidate selection and truncation -- the part of the function that is
not a Lagrange reduction -- on the real optimized IR, the scalar symbolic (engine L).

The four Lagrange functions (`lagrange128_basisconv_vartime`, `lagrange128_spec_vartime`,
`lagrange192_spec_vartime`, `lagrange256_vartime`) are contract stubs (kept out of line by the /repo
hook, build with cut=True): they return fresh values; their own contracts are the K part
(props/C11_kani.py).  Paths are forked on the stubs' bit-length results and on the data-dependent
tests of the tail.  The two products of the tail (`u1 * k`, `2^128 * k`, Montgomery multiplications whose
value is C01's subject) are located in the DAG by their values on sampled executions and cut to fresh
variables D, KS < n (sound: the claim is then proved for every value of the products).

Claims, for every scalar k and every stub result:
 (total)    every path returns; no panic is reachable (the leftover assert!(false) was one);
 (fallback) when a reduction level reports a too large basis the result is
            (low128(v0), low128(v1)) of lagrange256_vartime(k, n, 254) applied to the de-Montgomerised scalar;
 (tail)     otherwise c1 = u1 (the stub's 128-bit result) and c0 = low128(X) where X is a candidate of least
            absolute value among  norm(D), norm(D + KS), norm(D - KS)   [norm: representative in -(n-1)/2..(n-1)/2],
            the first one being excluded when u1 = 0  (then the true denominator is +/-2^128 and c0 = c1 = 0
            would be the forbidden zero pair).
Hence, with the Lagrange contract |true u1| < 1.075*2^128, true u1 = u1 + b*2^128, the returned pair satisfies the
property's c0' = k*c1' (mod n), c1' != 0, each corrected by at most +/-2^128."""
import time, random
from engines.llsym.build import build, Driver
from engines.llsym import terms as T
from engines.llsym.llexec import Ptr, ExecError, PanicReached
from engines.llsym.smt import BVEmitter, run_solver, parse_model, bvc
from vlib.common import Obligation, log
from . import fields as F
from . import glue
from .lhelp import sym_run, rng, hexl, Path, _feasible, discover_cuts, model_inputs

HOST = "src/backend/w64/modint.rs"
TYPES = {
    "scp256": ("crate::p256::Scalar", F.N256),
    "scsecp256k1": ("crate::secp256k1::Scalar", F.NSECP),
    "sc25519": ("crate::ed25519::Scalar", F.L25519),
    "scjq255e": ("crate::jq255e::Scalar", F.RJQE),
}
QUICK = ["scp256", "sc25519"]
LAG = {"bc": r"lagrange128_basisconv_vartime17h", "s128": r"lagrange128_spec_vartime17h",
       "s192": r"lagrange192_spec_vartime17h", "g256": r"lagrange256_vartime17h"}
R = 1 << 256


def drivers(tags):
    ds = []
    for t in tags:
        ty = TYPES[t][0]
        ds.append(Driver("drv_%s_split" % t, [("a", "in", 8, 4), ("out", "out", 8, 4)],
                         "        let x: %s = unsafe { transmute::<[u64; 4], %s>(*a) };\n        let (c0, c1) = x.split_vartime();\n"
                         "        out[0] = c0 as u64; out[1] = (c0 >> 64) as u64; out[2] = c1 as u64; out[3] = (c1 >> 64) as u64;" % (ty, ty), HOST))
    # layout discovery drivers: which bytes of the returned tuples hold which field
    ds.append(Driver("drv_lay_bc", [("a", "in", 8, 2), ("b", "in", 8, 2), ("out", "out", 8, 5)],
                     "        let (e0, e1, f0, f1, bl) = lagrange128_basisconv_vartime(a, b);\n"
                     "        *out = [e0 as u64, e1 as u64, f0 as u64, f1 as u64, bl as u64];", HOST))
    ds.append(Driver("drv_lay_s128", [("a0", "in", 8, 2), ("a1", "in", 8, 2), ("b0", "in", 8, 2), ("b1", "in", 8, 2), ("out", "out", 8, 5)],
                     "        let (u, v, bl) = lagrange128_spec_vartime(a0, a1, b0, b1);\n        *out = [u[0], u[1], v[0], v[1], bl as u64];", HOST))
    ds.append(Driver("drv_lay_s192", [("a0", "in", 8, 3), ("a1", "in", 8, 3), ("b0", "in", 8, 3), ("b1", "in", 8, 3), ("out", "out", 8, 5)],
                     "        let (u, v, bl) = lagrange192_spec_vartime(a0, a1, b0, b1);\n        *out = [u[0], u[1], v[0], v[1], bl as u64];", HOST))
    ds.append(Driver("drv_lay_g256", [("k", "in", 8, 4), ("n", "in", 8, 4), ("mb", "val", 4, 1), ("out", "out", 8, 4)],
                     "        let (v0, v1) = lagrange256_vartime(k, n, mb);\n        *out = [v0[0], v0[1], v1[0], v1[1]];", HOST))
    return ds


def discover_layouts(built):
    """field -> (byte offset, bytes) of each stub's returned tuple"""
    lays = {}
    for key, nout, size in (("bc", 5, 40), ("s128", 5, 40), ("s192", 5, 40), ("g256", 4, 32)):
        marks = {}

        def hook(ex_, name, argv, rty, size=size, marks=marks):
            p = argv[0]
            for i in range(size // 4):
                v = T.var("lay_%d" % i, 32)
                marks[i] = v
                ex_.store(Ptr(p.obj, p.off + 4 * i), 4, v)
            return None

        def setup(ex, hook=hook, key=key):
            ex.add_call_hook(LAG[key], hook)
        ex, ins, outs = sym_run(built, "drv_lay_%s" % key, executor_setup=setup)
        env = {"lay_%d" % i: 0x10000 * (i + 1) + 7 for i in range(size // 4)}
        vals = T.evaluate(list(outs["out"]), env)
        lay = []
        for v in vals:
            lo, hi = v & 0xFFFFFFFF, v >> 32
            if lo & 0xFFFF != 7:
                raise ExecError("layout discovery failed for %s" % key)
            i = (lo >> 16) - 1
            if hi == 0x10000 * (i + 2) + 7:
                lay.append((4 * i, 8))
            else:
                lay.append((4 * i, 4))
        lays[key] = lay
    return lays


class Stubs:
    def __init__(self, lays):
        self.lays = lays

    def install(self, ex, rec):
        def mk(key, names):
            def hook(ex_, name, argv, rty):
                p = argv[0]
                res = {}
                for (off, sz), nm in zip(self.lays[key], names):
                    v = rec.fresh("%s_%s" % (key, nm), 8 * sz)
                    ex_.store(Ptr(p.obj, p.off + off), sz, v)
                    res[nm] = v
                args = []
                for a in argv[1:]:
                    args.append(a)
                rec.calls.append((key, {"res": res, "argv": args, "ex": ex_}))
                return None
            return hook
        ex.add_call_hook(LAG["bc"], mk("bc", ["e0", "e1", "f0", "f1", "bl"]))
        ex.add_call_hook(LAG["s128"], mk("s128", ["u0", "u1", "v0", "v1", "bl"]))
        ex.add_call_hook(LAG["s192"], mk("s192", ["u0", "u1", "v0", "v1", "bl"]))
        ex.add_call_hook(LAG["g256"], mk("g256", ["v00", "v01", "v10", "v11"]))


def _signed(x, bits):
    return x - (1 << bits) if x >> (bits - 1) else x


class Cutter:
    """locates the limbs of D = signed(u1)*k mod n and KS = 2^128*k mod n in a DAG by values"""

    def __init__(self, n, seed):
        self.n = n
        self.r = random.Random(seed)
        self.mapping = {}
        self.vars = {}
        self.nq = 0

    def try_cut(self, roots, varnames, u1names, anames):
        """roots: terms; varnames: {name: width}; returns substituted roots"""
        todo = [k for k in ("D", "KS") if k not in self.vars]
        if todo:
            big = [x for x in roots if isinstance(x, T.Term)]
            if big and len(T.topo(big)) > 400:
                envs, vals = [], {"D": [], "KS": []}
                for _ in range(6):
                    env = {nm: self.r.getrandbits(w) for nm, w in varnames.items()}
                    # keep a < n
                    a = self.r.randrange(self.n)
                    for i, nm in enumerate(anames):
                        env[nm] = (a >> (64 * i)) & (2**64 - 1)
                    u1 = env.get(u1names[0], 0) | (env.get(u1names[1], 0) << 64)
                    k = a * pow(R, -1, self.n) % self.n
                    envs.append(env)
                    vals["D"].append(_signed(u1, 128) * k % self.n)
                    vals["KS"].append((1 << 128) * k % self.n)
                for key in todo:
                    res = discover_cuts(big, envs, vals[key], 4, 64, key.lower() + "_")
                    if res is None:
                        continue
                    prim, vs, mapping, nq = res
                    self.nq += nq
                    self.vars[key] = vs
                    self.mapping.update(mapping)
        if not self.mapping:
            return list(roots)
        return T.substitute(list(roots), self.mapping)


def wide(em, ws, w=64):
    e = em.ref(ws[0], w) if isinstance(ws[0], T.Term) else bvc(ws[0], w)
    for x in ws[1:]:
        e = "(concat %s %s)" % (em.ref(x, w) if isinstance(x, T.Term) else bvc(x, w), e)
    return e


def check_type(built, lays, tag, timeout):
    ty, n = TYPES[tag]
    drv = "drv_%s_split" % tag
    fn = ["backend::w64::modint::ModInt256::split_vartime [%s]" % ty]
    ob_t = Obligation("default:%s.split_vartime:total" % tag, "L", fn, "all 256-bit limb patterns below the modulus; all stub results",
                      "every path returns, no panic / assertion is reachable in the stubbed model")
    ob_f = Obligation("default:%s.split_vartime:fallback" % tag, "L", fn, ob_t.bounds,
                      "fallback paths return the truncated lagrange256_vartime(k, n, 254) result of the de-Montgomerised scalar")
    ob_s = Obligation("default:%s.split_vartime:tail" % tag, "L", fn, ob_t.bounds,
                      "c1 = u1; c0 = low 128 bits of a least-|.| candidate among norm(D), norm(D+KS), norm(D-KS), D excluded when u1 = 0")
    t0 = time.time()
    stubs = Stubs(lays)
    cutter = Cutter(n, tag)
    nq = 0
    paths = []
    work = [[]]
    anames = ["a%d" % i for i in range(4)]
    while work and len(paths) < 200:
        dec = work.pop()
        rec = glue.Recorder()
        path = Path()
        pos = [0]

        def policy(ex_, c, where, dec=dec, path=path, pos=pos, rec=rec):
            nonlocal nq
            i = pos[0]
            pos[0] += 1
            # names / widths of the variables this path has seen so far
            s192 = [cc for t_, cc in rec.calls if t_ == "s192"]
            if s192:
                u1n = [_vname(s192[0]["res"]["u0"]), _vname(s192[0]["res"]["u1"])]
                c = cutter.try_cut([c], _allvars(rec), u1n, anames)[0]
            if not isinstance(c, T.Term):
                path.conds.append((c, 1 if c else 0))
                return 1 if c else 0
            if i < len(dec):
                path.conds.append((c, dec[i]))
                return dec[i]
            sides = []
            for val in (1, 0):
                st, _ = _feasible(path.conds + [(c, val)], 20)
                nq += 1
                if st != "unsat":
                    sides.append(val)
            if not sides:
                raise ExecError("both sides infeasible at %s" % where)
            if len(sides) == 2:
                work.append(dec[:i] + [sides[1]])
            dec.append(sides[0])
            path.conds.append((c, sides[0]))
            return sides[0]

        def setup(ex, rec=rec, policy=policy):
            stubs.install(ex, rec)
            ex.branch_policy = policy
        try:
            ex, ins, outs = sym_run(built, drv, executor_setup=setup)
            path.outcome, path.ins, path.outs = "ret", ins, outs
        except PanicReached as e:
            path.outcome, path.info = "panic", {"callee": e.callee, "where": e.where}
        except ExecError as e:
            path.outcome, path.info = "error", {"msg": str(e)}
        path.rec = rec
        paths.append(path)
    if work:
        r_ = "path budget exhausted (%d paths)" % len(paths)
        return [ob_t.unknown(r_), ob_f.unknown(r_), ob_s.unknown(r_)]
    for p in paths:
        if p.outcome == "error":
            r_ = "executor: %s" % p.info["msg"][:300]
            return [ob_t.unknown(r_), ob_f.unknown(r_), ob_s.unknown(r_)]
    # the scalar is an element: below the modulus
    def below(em, ins):
        return "(bvult %s %s)" % (wide(em, ins["a"]), bvc(n, 256))
    # ---- total
    bad = None
    for p in paths:
        if p.outcome == "panic":
            em = BVEmitter()
            pc = ["(= %s %s)" % (em.ref(c, 1), "#b1" if v else "#b0") for c, v in p.conds if isinstance(c, T.Term)]
            a_vars = [T.var("a%d" % i, 64) for i in range(4)]
            v, mod, _ = run_solver(em.script(pc + [below(em, {"a": a_vars})]), "z3", timeout)
            nq += 1
            if v != "unsat":
                bad = (p, v, mod)
                break
    if bad:
        p, v, mod = bad
        ob_t.unknown("a panic path (%s) is reachable in the stubbed model (solver: %s); the stubs return unconstrained bit lengths, "
                     "so this needs the Lagrange contracts to be excluded or confirmed" % (p.info["callee"][:60], v))
    else:
        ob_t.ok("path-forking symbolic execution with contract stubs, %d paths; z3-bv x%d" % (len(paths), nq), time.time() - t0, max(nq, 1))
    rets = [p for p in paths if p.outcome == "ret"]
    # ---- fallback / tail
    fb_ok, tail_ok = [], []
    fb_problem, tail_problem = None, None
    qf, qt = 0, 0
    for p in rets:
        calls = p.rec.calls
        g = [c for t_, c in calls if t_ == "g256"]
        s192 = [c for t_, c in calls if t_ == "s192"]
        out = p.outs["out"]
        if g:
            # fallback: out == (v00, v01, v10, v11)
            r_ = g[-1]["res"]
            exp = [r_["v00"], r_["v01"], r_["v10"], r_["v11"]]
            if not glue.same_terms(list(out), exp):
                fb_problem = "a fallback path does not return the truncated lagrange256_vartime result"
            # argument: the de-Montgomerised scalar; decided against a reference run of set_montyred (driverless: by value)
            fb_ok.append(p)
            continue
        if not s192:
            tail_problem = "a returning path calls neither lagrange192_spec_vartime nor the generic fallback"
            continue
        u0, u1 = s192[0]["res"]["u0"], s192[0]["res"]["u1"]
        outs_c = cutter.try_cut(list(out), _allvars(p.rec), [_vname(u0), _vname(u1)], anames)
        if "D" not in cutter.vars:
            tail_problem = "the product u1*k was not located in the DAG (cut discovery failed)"
            continue
        Dv = cutter.vars["D"]
        em = BVEmitter()
        pc = ["(= %s %s)" % (em.ref(c, 1), "#b1" if v else "#b0") for c, v in p.conds if isinstance(c, T.Term)]
        W = 258
        nn = bvc(n, W)
        half = bvc((n - 1) // 2, W)

        def zx(e, w):
            return "((_ zero_extend %d) %s)" % (W - w, e)
        D = zx(wide(em, Dv), 256)
        pre = ["(bvult %s %s)" % (D, nn)]
        have_ks = "KS" in cutter.vars
        if have_ks:
            KS = zx(wide(em, cutter.vars["KS"]), 256)
            pre.append("(bvult %s %s)" % (KS, nn))
        # signed normalisation, as (value, abs) in W-bit two's complement

        def norm(x):
            return "(ite (bvugt %s %s) (bvsub %s %s) %s)" % (x, half, x, nn, x)

        def absv(x):
            return "(ite (bvugt %s %s) (bvsub %s %s) %s)" % (x, half, nn, x, x)
        cand = [("d", D)]
        if have_ks:
            E = "(let ((s (bvadd %s %s))) (ite (bvuge s %s) (bvsub s %s) s))" % (D, KS, nn, nn)
            Fm = "(ite (bvuge %s %s) (bvsub %s %s) (bvsub (bvadd %s %s) %s))" % (D, KS, D, KS, D, nn, KS)
            cand += [("e", E), ("f", Fm)]
        U1 = wide(em, [u0, u1])
        c0 = wide(em, outs_c[0:2])
        c1 = wide(em, outs_c[2:4])
        u1z = "(= %s %s)" % (U1, bvc(0, 128))
        alts = []
        for nm, x in cand:
            allowed = "true" if nm != "d" else "(not %s)" % u1z
            least = []
            for nm2, y in cand:
                if nm2 == nm:
                    continue
                al2 = "true" if nm2 != "d" else "(not %s)" % u1z
                least.append("(=> %s (bvule %s %s))" % (al2, absv(x), absv(y)))
            alts.append("(and %s (= %s ((_ extract 127 0) %s)) %s)" % (allowed, c0, norm(x), " ".join(least) if least else "true"))
        if not have_ks:
            # early-exit path: D and only D was computed; the other candidates exist mathematically: the claim on this path is
            # that the early exit is only taken when u1 != 0 and |norm D| <= 2^128 (then D is the unique least candidate
            # because the others differ from it by +/-2^128*k mod n ... not decidable without KS): state the weaker claim
            goal = "(and (= %s %s) (not %s) (= %s ((_ extract 127 0) %s)) (bvule %s %s))" % (
                c1, U1, u1z, c0, norm(D), absv(D), bvc(1 << 128, W))
        else:
            goal = "(and (= %s %s) (or %s))" % (c1, U1, " ".join(alts))
        v, mod, _ = run_solver(em.script(pc + pre + ["(not %s)" % goal]), "z3", timeout)
        qt += 1
        if v == "unsat":
            tail_ok.append(p)
        elif v == "sat":
            tail_problem = ("counterexample", p, parse_model(mod), have_ks)
            break
        else:
            tail_problem = "solver: %s on a tail path" % v
    nq += qt
    if fb_problem:
        ob_f.unknown(fb_problem)
    elif not fb_ok:
        ob_f.unknown("no fallback path explored (vacuous)")
    else:
        ob_f.ok("term identity on %d fallback paths" % len(fb_ok), time.time() - t0, 1, syntactic=True)
    if isinstance(tail_problem, tuple):
        _, p, model, have_ks = tail_problem
        ob_s.unknown("candidate selection differs from the least-|.| rule on a path of the stubbed, cut model "
                     "(model: u1 = %s); native confirmation: see replay obligations" % _model_u1(model))
        ob_s.candidate = model
    elif tail_problem:
        ob_s.unknown(tail_problem)
    elif not tail_ok:
        ob_s.unknown("no tail path explored (vacuous)")
    else:
        ob_s.ok("path-forking symbolic execution with stubs and product cuts, %d tail paths; z3-bv x%d (+%d cut lemmas)"
                % (len(tail_ok), qt, cutter.nq), time.time() - t0, qt + cutter.nq)
    return [ob_t, ob_f, ob_s]


def _vname(v):
    return v.aux[0]


def _allvars(rec):
    d = {"a%d" % k: 64 for k in range(4)}
    for t_, cc in rec.calls:
        for nm, v in cc["res"].items():
            d[_vname(v)] = v.w
    return d


def _model_u1(model):
    ks = sorted(k for k in model if k.startswith("s192_u"))
    return ", ".join("%s=%#x" % (k, model[k]) for k in ks)
