"""C11: `ModInt256::split_vartime` (w64 backend), the three-level driver around the Lagrange
reductions: fallbacks, candidate selection and truncation -- the part of the function that is
not a Lagrange reduction -- on the real optimized IR, the scalar symbolic (engine L).

The four Lagrange functions (`lagrange128_basisconv_vartime`, `lagrange128_spec_vartime`,
`lagrange192_spec_vartime`, `lagrange256_vartime`) are contract stubs (kept out of line by the /repo
hook, build with cut=True): they return fresh values; their own contracts are the K part
(props/C11_kani.py).  Paths are forked on the stubs' bit-length results and on the data-dependent
tests of the tail.  The two products of the tail (`u1 * k`, `2^128 * k`, Montgomery multiplications whose
value is C01's subject) are located in the DAG by their values on sampled executions and cut to fresh
variables D, KS < n (sound: the claim is then proved for every value of the products).

Claims, for every scalar k and every stub result:
 (total)    every path returns; no panic is reachable (the leftover assert!(false) was one);
 (fallback) when a reduction level reports a too large basis the result is
            (low128(v0), low128(v1)) of lagrange256_vartime(k, n, 254) applied to the de-Montgomerised scalar;
 (tail)     otherwise c1 = u1 (the stub's 128-bit result) and c0 = low128(X) where X is one of the candidates
            norm(D), norm(D + KS), norm(D - KS)   [norm: representative in -(n-1)/2..(n-1)/2; they are k*(u1 + b*2^128), b = 0, 1, -1],
            the first one being excluded when u1 = 0  (then the true denominator is +/-2^128 and c0 = c1 = 0
            would be the forbidden zero pair), and |X| <= 2^128 or |X| is least among the allowed candidates.
Hence, with the Lagrange contract |true u1| < 1.075*2^128, true u1 = u1 + b*2^128, the returned pair satisfies the
property's c0' = k*c1' (mod n), c1' != 0, each corrected by at most +/-2^128."""
import time, random, os
from engines.llsym.build import build, Driver
from engines.llsym import terms as T
from engines.llsym.llexec import Ptr, ExecError, PanicReached
from engines.llsym.smt import BVEmitter, run_solver, parse_model, bvc
from vlib.common import Obligation, log
from . import fields as F
from . import glue
from .lhelp import sym_run, rng, hexl, Path, _feasible, discover_cuts, model_inputs, word_form
from engines.llsym.intenc import IntEnc, Lin
from engines.llsym import prove as PR

HOST = "src/backend/w64/modint.rs"
TYPES = {
    "scp256": ("crate::p256::Scalar", F.N256),
    "scsecp256k1": ("crate::secp256k1::Scalar", F.NSECP),
    "sc25519": ("crate::ed25519::Scalar", F.L25519),
    "scjq255e": ("crate::jq255e::Scalar", F.RJQE),
}
QUICK = ["scp256", "sc25519"]
LAG = {"bc": r"lagrange128_basisconv_vartime17h", "s128": r"lagrange128_spec_vartime17h",
       "s192": r"lagrange192_spec_vartime17h", "g256": r"lagrange256_vartime17h"}
R = 1 << 256


def drivers(tags):
    ds = []
    for t in tags:
        ty = TYPES[t][0]
        ds.append(Driver("drv_%s_split" % t, [("a", "in", 8, 4), ("out", "out", 8, 4)],
                         "        let x: %s = unsafe { transmute::<[u64; 4], %s>(*a) };\n        let (c0, c1) = x.split_vartime();\n"
                         "        out[0] = c0 as u64; out[1] = (c0 >> 64) as u64; out[2] = c1 as u64; out[3] = (c1 >> 64) as u64;" % (ty, ty), HOST))
    ds.append(Driver("drv_sc448_split", [("a", "in", 8, 7), ("out", "out", 1, 58)],
                     "        let x: crate::ed448::Scalar = unsafe { transmute::<[u64; 7], crate::ed448::Scalar>(*a) };\n"
                     "        let (c0, c1) = x.split_vartime(); out[..29].copy_from_slice(&c0[..]); out[29..].copy_from_slice(&c1[..]);",
                     "src/lib.rs"))
    # layout discovery drivers: which bytes of the returned tuples hold which field
    ds.append(Driver("drv_lay_bc", [("a", "in", 8, 2), ("b", "in", 8, 2), ("out", "out", 8, 5)],
                     "        let (e0, e1, f0, f1, bl) = lagrange128_basisconv_vartime(a, b);\n"
                     "        *out = [e0 as u64, e1 as u64, f0 as u64, f1 as u64, bl as u64];", HOST))
    ds.append(Driver("drv_lay_s128", [("a0", "in", 8, 2), ("a1", "in", 8, 2), ("b0", "in", 8, 2), ("b1", "in", 8, 2), ("out", "out", 8, 5)],
                     "        let (u, v, bl) = lagrange128_spec_vartime(a0, a1, b0, b1);\n        *out = [u[0], u[1], v[0], v[1], bl as u64];", HOST))
    ds.append(Driver("drv_lay_s192", [("a0", "in", 8, 3), ("a1", "in", 8, 3), ("b0", "in", 8, 3), ("b1", "in", 8, 3), ("out", "out", 8, 5)],
                     "        let (u, v, bl) = lagrange192_spec_vartime(a0, a1, b0, b1);\n        *out = [u[0], u[1], v[0], v[1], bl as u64];", HOST))
    ds.append(Driver("drv_lay_g256", [("k", "in", 8, 4), ("n", "in", 8, 4), ("mb", "val", 4, 1), ("out", "out", 8, 4)],
                     "        let (v0, v1) = lagrange256_vartime(k, n, mb);\n        *out = [v0[0], v0[1], v1[0], v1[1]];", HOST))
    return ds


def discover_layouts(built):
    """field -> (byte offset, bytes) of each stub's returned tuple"""
    lays = {}
    for key, nout, size in (("bc", 5, 40), ("s128", 5, 40), ("s192", 5, 40), ("g256", 4, 32)):
        marks = {}

        def hook(ex_, name, argv, rty, size=size, marks=marks):
            p = argv[0]
            for i in range(size // 4):
                v = T.var("lay_%d" % i, 32)
                marks[i] = v
                ex_.store(Ptr(p.obj, p.off + 4 * i), 4, v)
            return None

        def setup(ex, hook=hook, key=key):
            ex.add_call_hook(LAG[key], hook)
        ex, ins, outs = sym_run(built, "drv_lay_%s" % key, executor_setup=setup)
        env = {"lay_%d" % i: 0x10000 * (i + 1) + 7 for i in range(size // 4)}
        vals = T.evaluate(list(outs["out"]), env)
        lay = []
        for v in vals:
            lo, hi = v & 0xFFFFFFFF, v >> 32
            if lo & 0xFFFF != 7:
                raise ExecError("layout discovery failed for %s" % key)
            i = (lo >> 16) - 1
            if hi == 0x10000 * (i + 2) + 7:
                lay.append((4 * i, 8))
            else:
                lay.append((4 * i, 4))
        lays[key] = lay
    return lays


class Stubs:
    def __init__(self, lays):
        self.lays = lays

    def install(self, ex, rec):
        def mk(key, names):
            def hook(ex_, name, argv, rty):
                p = argv[0]
                res = {}
                for (off, sz), nm in zip(self.lays[key], names):
                    v = rec.fresh("%s_%s" % (key, nm), 8 * sz)
                    ex_.store(Ptr(p.obj, p.off + off), sz, v)
                    res[nm] = v
                args = []
                for a in argv[1:]:
                    args.append(a)
                rec.calls.append((key, {"res": res, "argv": args, "ex": ex_}))
                return None
            return hook
        ex.add_call_hook(LAG["bc"], mk("bc", ["e0", "e1", "f0", "f1", "bl"]))
        ex.add_call_hook(LAG["s128"], mk("s128", ["u0", "u1", "v0", "v1", "bl"]))
        ex.add_call_hook(LAG["s192"], mk("s192", ["u0", "u1", "v0", "v1", "bl"]))
        ex.add_call_hook(LAG["g256"], mk("g256", ["v00", "v01", "v10", "v11"]))


def _signed(x, bits):
    return x - (1 << bits) if x >> (bits - 1) else x


class Cutter:
    """locates the limbs of D = signed(u1)*k mod n and KS = 2^128*k mod n in a DAG by values"""

    def __init__(self, n, seed):
        self.n = n
        self.r = random.Random(seed)
        self.mapping = {}
        self.vars = {}
        self.nq = 0

    def try_cut(self, roots, varnames, u1names, anames):
        """roots: terms; varnames: {name: width}; returns the roots with the located product limbs replaced by
        fresh variables (an over-approximation whatever the located nodes are; that they are the limbs of
        D / KS is what the sampled executions show)"""
        todo = [k for k in ("D", "KS") if k not in self.vars]
        big = [x for x in roots if isinstance(x, T.Term)]
        if todo and big:
            envs, vals = [], {"D": [], "KS": []}
            for _ in range(6):
                env = {nm: self.r.getrandbits(w) for nm, w in varnames.items()}
                a = self.r.randrange(self.n)
                for i, nm in enumerate(anames):
                    env[nm] = (a >> (64 * i)) & (2**64 - 1)
                u1 = env.get(u1names[0], 0) | (env.get(u1names[1], 0) << 64)
                k = a * pow(R, -1, self.n) % self.n
                envs.append(env)
                vals["D"].append(_signed(u1, 128) * k % self.n)
                vals["KS"].append((1 << 128) * k % self.n)
            for key in todo:
                # the LAST node (topological order) holding each limb on every sample: the normalised result of the
                # Montgomery multiplication (an earlier node with the same sampled values is the not-yet-normalised sum)
                memos = [T.evaluate_all(big, e) for e in envs]
                sigs = {tuple((v >> (64 * k)) & (2**64 - 1) for v in vals[key]): k for k in range(4)}
                found = [None] * 4
                for t in T.topo(big):
                    if t.w == 64 and t.op != "var":
                        k = sigs.get(tuple(m[t.id] for m in memos))
                        if k is not None:
                            found[k] = t
                if any(f is None or not isinstance(f, T.Term) or f.op == "var" for f in found):
                    continue
                vs = [T.var("%s_%d" % (key.lower(), k), 64) for k in range(4)]
                self.vars[key] = vs
                for f, v in zip(found, vs):
                    self.mapping[f.id] = v
        if not self.mapping:
            return list(roots)
        return T.substitute(list(roots), self.mapping)


def wide(em, ws, w=64):
    e = em.ref(ws[0], w) if isinstance(ws[0], T.Term) else bvc(ws[0], w)
    for x in ws[1:]:
        e = "(concat %s %s)" % (em.ref(x, w) if isinstance(x, T.Term) else bvc(x, w), e)
    return e


def check_type(built, lays, tag, timeout):
    ty, n = TYPES[tag]
    drv = "drv_%s_split" % tag
    fn = ["backend::w64::modint::ModInt256::split_vartime [%s]" % ty]
    ob_t = Obligation("default:%s.split_vartime:total" % tag, "L", fn, "all 256-bit limb patterns below the modulus; all stub results",
                      "every path returns, no panic / assertion is reachable in the stubbed model")
    ob_f = Obligation("default:%s.split_vartime:fallback" % tag, "L", fn, ob_t.bounds,
                      "fallback paths return the truncated lagrange256_vartime(k, n, 254) result of the de-Montgomerised scalar")
    ob_s = Obligation("default:%s.split_vartime:tail" % tag, "L", fn, ob_t.bounds,
                      "c1 = u1; c0 = low 128 bits of a candidate X among norm(D), norm(D+KS), norm(D-KS) (D excluded when u1 = 0) "
                      "with |X| <= 2^128 or |X| least among the allowed candidates")
    t0 = time.time()
    stubs = Stubs(lays)
    cutter = Cutter(n, tag)
    nq = 0
    paths = []
    work = [[]]
    anames = ["a%d" % i for i in range(4)]
    while work and len(paths) < 200:
        dec = work.pop()
        rec = glue.Recorder()
        path = Path()
        pos = [0]

        def policy(ex_, c, where, dec=dec, path=path, pos=pos, rec=rec):
            nonlocal nq
            i = pos[0]
            pos[0] += 1
            # names / widths of the variables this path has seen so far
            if not isinstance(c, T.Term):
                path.conds.append((c, 1 if c else 0))
                return 1 if c else 0
            if i < len(dec):
                path.conds.append((c, dec[i]))
                return dec[i]
            sides = []
            small = len(T.topo([c])) < 60 and all(len(T.topo([cc])) < 60 for cc, _ in path.conds if isinstance(cc, T.Term))
            for val in (1, 0):
                if small:
                    st, _ = _feasible(path.conds + [(c, val)], 5)
                    nq += 1
                else:
                    st = "unknown"      # data-dependent test of the tail: both sides are explored, decided after the cut
                if st != "unsat":
                    sides.append(val)
            if not sides:
                raise ExecError("both sides infeasible at %s" % where)
            if len(sides) == 2:
                work.append(dec[:i] + [sides[1]])
            dec.append(sides[0])
            path.conds.append((c, sides[0]))
            return sides[0]

        def setup(ex, rec=rec, policy=policy):
            stubs.install(ex, rec)
            ex.branch_policy = policy
        try:
            ex, ins, outs = sym_run(built, drv, executor_setup=setup)
            path.outcome, path.ins, path.outs = "ret", ins, outs
        except PanicReached as e:
            path.outcome, path.info = "panic", {"callee": e.callee, "where": e.where}
        except ExecError as e:
            path.outcome, path.info = "error", {"msg": str(e)}
        path.rec = rec
        paths.append(path)
    if work:
        r_ = "path budget exhausted (%d paths)" % len(paths)
        return [ob_t.unknown(r_), ob_f.unknown(r_), ob_s.unknown(r_)]
    for p in paths:
        if p.outcome == "error":
            r_ = "executor: %s" % p.info["msg"][:300]
            return [ob_t.unknown(r_), ob_f.unknown(r_), ob_s.unknown(r_)]
    # the scalar is an element: below the modulus
    def below(em, ins):
        return "(bvult %s %s)" % (wide(em, ins["a"]), bvc(n, 256))
    # ---- total
    bad = None
    for p in paths:
        if p.outcome == "panic":
            em = BVEmitter()
            pc = ["(= %s %s)" % (em.ref(c, 1), "#b1" if v else "#b0") for c, v in p.conds if isinstance(c, T.Term)]
            a_vars = [T.var("a%d" % i, 64) for i in range(4)]
            v, mod, _ = run_solver(em.script(pc + [below(em, {"a": a_vars})]), "z3", timeout)
            nq += 1
            if v != "unsat":
                bad = (p, v, mod)
                break
    if bad:
        p, v, mod = bad
        ob_t.unknown("a panic path (%s) is reachable in the stubbed model (solver: %s); the stubs return unconstrained bit lengths, "
                     "so this needs the Lagrange contracts to be excluded or confirmed" % (p.info["callee"][:60], v))
    else:
        ob_t.ok("path-forking symbolic execution with contract stubs, %d paths; z3-bv x%d" % (len(paths), nq), time.time() - t0, max(nq, 1))
    rets = [p for p in paths if p.outcome == "ret"]
    # ---- fallback / tail
    fb_ok, tail_ok = [], []
    fb_problem, tail_problem = None, None
    qf, qt = 0, 0
    for p in rets:
        calls = p.rec.calls
        g = [c for t_, c in calls if t_ == "g256"]
        s192 = [c for t_, c in calls if t_ == "s192"]
        out = p.outs["out"]
        if g:
            # fallback: out == (v00, v01, v10, v11)
            r_ = g[-1]["res"]
            exp = [r_["v00"], r_["v01"], r_["v10"], r_["v11"]]
            if not glue.same_terms(list(out), exp):
                fb_problem = "a fallback path does not return the truncated lagrange256_vartime result"
            # argument: the de-Montgomerised scalar; decided against a reference run of set_montyred (driverless: by value)
            fb_ok.append(p)
            continue
        if not s192:
            tail_problem = "a returning path calls neither lagrange192_spec_vartime nor the generic fallback"
            continue
        u0, u1 = s192[0]["res"]["u0"], s192[0]["res"]["u1"]
        verdict, info, q = decide_tail(p, out, [u0, u1], n, tag, timeout)
        qt += q
        if verdict == "ok":
            tail_ok.append(p)
        elif verdict == "cex":
            tail_problem = ("counterexample", p, info, True)
            break
        else:
            tail_problem = info
    nq += qt
    if fb_problem:
        ob_f.unknown(fb_problem)
    elif not fb_ok:
        ob_f.unknown("no fallback path explored (vacuous)")
    else:
        ob_f.ok("term identity on %d fallback paths" % len(fb_ok), time.time() - t0, 1, syntactic=True)
    if isinstance(tail_problem, tuple):
        _, p, model, have_ks = tail_problem
        ob_s.unknown("candidate selection differs from the least-|.| rule on a path of the stubbed, cut model "
                     "(model: u1 = %s); native confirmation: see replay obligations" % _model_u1(model))
        ob_s.candidate = model
        ob_s.candidate["have_ks"] = int(have_ks)
        ob_s.candidate["nconds"] = len(p.conds)
    elif tail_problem:
        ob_s.unknown(tail_problem)
    elif not tail_ok:
        ob_s.unknown("no tail path explored (vacuous)")
    else:
        ob_s.ok("path-forking symbolic execution with stubs; staged cuts (products, normalised candidates, absolute values) "
                "each proved by z3-bv, then the selection rule; %d tail paths; z3-bv x%d" % (len(tail_ok), qt), time.time() - t0, qt)
    return [ob_t, ob_f, ob_s]


M256 = (1 << 256) - 1


def decide_tail(p, out, uv, n, tag, timeout):
    """staged cut of one tail path; returns (verdict, info, queries), verdict in ok / cex / unknown"""
    half = (n - 1) // 2
    r = random.Random("tail" + tag)
    roots = list(out) + [c for c, v in p.conds]
    decisions = [v for c, v in p.conds]
    varn = _allvars(p.rec)
    # sampled executions: values of every input / stub variable, and of the quantities to locate
    envs, Q = [], []
    for it in range(96):
        env = {nm: r.getrandbits(w) for nm, w in varn.items()}
        if it % 3 == 1:
            env[_vname(uv[1])] = r.choice([0, 2**64 - 1])        # small |u1|
        env[_vname(uv[0])] |= 1                                  # odd: invertible, so that D can be chosen
        U = env[_vname(uv[0])] | (env[_vname(uv[1])] << 64)
        # D is chosen (boundary limb patterns make borrows / carries of the normalisation steps visible), k follows
        D = r.randrange(n)
        if it % 4 in (1, 2):
            limbs = [r.choice([0, 1, 2**64 - 1, r.getrandbits(64), r.getrandbits(8)]) for _ in range(4)]
            D = sum(l << (64 * i) for i, l in enumerate(limbs)) % n
        if it % 4 == 2:
            D = (half + 1 + r.getrandbits(60) + (r.getrandbits(64) << 128)) % n
        k = D * pow(_signed(U, 128) % n, -1, n) % n
        a = k * R % n
        for i in range(4):
            env["a%d" % i] = (a >> (64 * i)) & (2**64 - 1)
        assert _signed(U, 128) * k % n == D
        KS = (1 << 128) * k % n

        def nrm(x):
            return x - n if x > half else x
        q = {"D": D, "KS": KS, "eS": (D + KS) % n, "fS": (D - KS) % n, "dN": nrm(D) & M256, "eN": nrm((D + KS) % n) & M256, "fN": nrm((D - KS) % n) & M256,
             "dA": abs(nrm(D)), "eA": abs(nrm((D + KS) % n)), "fA": abs(nrm((D - KS) % n))}
        envs.append(env)
        Q.append(q)
    nq = 0
    fresh = {}
    lemmas = []       # SMT assumptions over the fresh variables (proved below, stage by stage)
    W = 256

    def wv(em, vs):
        return wide(em, vs)

    def bnorm(x):      # x: 256-bit SMT value below n -> two's complement 256-bit normalised value
        return "(ite (bvugt %s %s) (bvsub %s %s) %s)" % (x, bvc(half, W), x, bvc(n, W), x)

    def addn(x, y):    # (x + y) mod n for x, y < n, via 257 bits
        s_ = "(bvadd ((_ zero_extend 1) %s) ((_ zero_extend 1) %s))" % (x, y)
        return "((_ extract 255 0) (ite (bvuge %s %s) (bvsub %s %s) %s))" % (s_, bvc(n, 257), s_, bvc(n, 257), s_)

    def subn(x, y):
        return "(ite (bvuge %s %s) (bvsub %s %s) (bvadd (bvsub %s %s) %s))" % (x, y, x, y, x, y, bvc(n, W))

    def babs(x):
        return "(ite (bvslt %s %s) (bvneg %s) %s)" % (x, bvc(0, W), x, x)
    specs = {
        "D": None, "KS": None,
        "dN": lambda em: bnorm(wv(em, fresh["D"])),
        "eS": lambda em: addn(wv(em, fresh["D"]), wv(em, fresh["KS"])),
        "fS": lambda em: subn(wv(em, fresh["D"]), wv(em, fresh["KS"])),
        "eN": lambda em: bnorm(wv(em, fresh["eS"])),
        "fN": lambda em: bnorm(wv(em, fresh["fS"])),
        "dA": lambda em: babs(wv(em, fresh["dN"])),
        "eA": lambda em: babs(wv(em, fresh["eN"])),
        "fA": lambda em: babs(wv(em, fresh["fN"])),
    }
    deps = {"dN": ["D"], "eS": ["D", "KS"], "fS": ["D", "KS"], "eN": ["eS"], "fN": ["fS"], "dA": ["dN"], "eA": ["eN"], "fA": ["fN"]}
    intspec = {"eS": lambda d_, k_: "(ite (>= (+ %s %s) %d) (- (+ %s %s) %d) (+ %s %s))" % (d_, k_, n, d_, k_, n, d_, k_),
               "fS": lambda d_, k_: "(ite (>= %s %s) (- %s %s) (+ (- %s %s) %d))" % (d_, k_, d_, k_, d_, k_, n)}

    def base_assume(em):
        asr = []
        for k_ in ("D", "KS"):
            if k_ in fresh:
                asr.append("(bvult %s %s)" % (wv(em, fresh[k_]), bvc(n, W)))
        return asr
    for stage in ("D", "KS", "dN", "eS", "fS", "eN", "fN", "dA", "eA", "fA"):
        if any(d_ not in fresh for d_ in deps.get(stage, [])):
            continue
        big = [x for x in roots if isinstance(x, T.Term)]
        if not big:
            break
        memos = [T.evaluate_all(big, e) for e in envs]
        sigs = {tuple((q[stage] >> (64 * k)) & (2**64 - 1) for q in Q): k for k in range(4)}
        if len(sigs) < 4:
            continue
        found = [None] * 4
        for t in T.topo(big):
            if t.w == 64 and t.op != "var":
                k = sigs.get(tuple(m[t.id] for m in memos))
                if k is not None:
                    found[k] = t
        if any(f is None for f in found):
            continue
        vs = [T.var("%s_%d" % (stage, k), 64) for k in range(4)]
        if os.environ.get("VERIF_DEBUG") == "2" and stage == "D":
            def show(t, d):
                if not isinstance(t, T.Term):
                    return hex(t)
                if d == 0 or t.op == "var":
                    return "%s#%d" % (t.op if t.op != "var" else t.aux[0], t.id)
                return "%s#%d(%s)" % (t.op, t.id, ", ".join(show(a, d - 1) for a in t.args))
            for f in found:
                log("   " + show(f, 4)[:600])
        if os.environ.get("VERIF_DEBUG"):
            log("[C11 tail] stage %s: nodes %s, cone %d, vars %s" % (stage, [f.id for f in found], len(T.topo(found)),
                                                                   sorted(set(v_.aux[0] for v_ in T.variables(found)))[:14]))
        if stage in intspec:
            # modular addition / subtraction: limb carries are linear integer arithmetic (z3, LIA)
            enc = IntEnc()
            node = word_form(enc, found, 64).smt()
            d_ = word_form(enc, fresh["D"], 64).smt()
            k_ = word_form(enc, fresh["KS"], 64).smt()
            r_ = PR.prove(enc, "(= %s %s)" % (node, intspec[stage](d_, k_)),
                          extra=["(< %s %d)" % (d_, n), "(< %s %d)" % (k_, n)], timeout=timeout)
            nq += 1
            if r_.status != "proved":
                continue
        elif specs[stage] is not None:
            # lemma: the located nodes (terms over the earlier fresh variables) equal the specification
            em = BVEmitter()
            node = wide(em, found)
            v, _, _ = run_solver(em.script(base_assume(em) + lemmas_for(em, lemmas, specs) + ["(distinct %s %s)" % (node, specs[stage](em))],
                                           get_model=False), "z3", timeout)
            nq += 1
            if v != "unsat":
                continue          # not proved: leave these nodes uncut (sound; the final query is then harder)
        fresh[stage] = vs
        if specs[stage] is not None:
            lemmas.append((stage, vs))
        mapping = {f.id: v_ for f, v_ in zip(found, vs)}
        roots = T.substitute(roots, mapping)
        for e, q in zip(envs, Q):
            for k in range(4):
                e["%s_%d" % (stage, k)] = (q[stage] >> (64 * k)) & (2**64 - 1)
    if "D" not in fresh:
        return "unknown", "the product u1*k was not located in the DAG (cut discovery failed)", nq
    outs_c = roots[:len(out)]
    conds_c = list(zip(roots[len(out):], decisions))
    if any((not isinstance(c, T.Term)) and (1 if c else 0) != v for c, v in conds_c):
        return "ok", None, nq
    em = BVEmitter()
    pc = ["(= %s %s)" % (em.ref(c, 1), "#b1" if v else "#b0") for c, v in conds_c if isinstance(c, T.Term)]
    U1 = wide(em, uv)
    c0 = wide(em, outs_c[0:2])
    c1 = wide(em, outs_c[2:4])
    u1z = "(= %s %s)" % (U1, bvc(0, 128))
    T128 = bvc(1 << 128, W)
    MT128 = bvc((1 << 256) - (1 << 128), W)
    have_ks = "KS" in fresh
    full = all(k_ in fresh for k_ in (("dN", "dA", "eN", "eA", "fN", "fA") if have_ks else ("dN",)))
    if full:
        # every candidate and absolute value is a proved cut: the selection rule is decided over free values
        # N (two's complement candidates) and A (their absolute values); A = |N| are the lemmas proved above
        asr = []

        def small(x):
            return "(and (bvsle %s %s) (bvsge %s %s))" % (x, T128, x, MT128)
        cands = [("d", wv(em, fresh["dN"]), wv(em, fresh["dA"]) if have_ks else None, "(not %s)" % u1z)]
        if have_ks:
            cands.append(("e", wv(em, fresh["eN"]), wv(em, fresh["eA"]), "true"))
            cands.append(("f", wv(em, fresh["fN"]), wv(em, fresh["fA"]), "true"))
            alts = []
            for nm, x, a_, allowed in cands:
                least = " ".join("(=> %s (bvule %s %s))" % (al2, a_, a2) for nm2, y, a2, al2 in cands if nm2 != nm)
                alts.append("(and %s (= %s ((_ extract 127 0) %s)) (or %s (and %s)))" % (allowed, c0, x, small(x), least))
            goal = "(and (= %s %s) (or %s))" % (c1, U1, " ".join(alts))
        else:
            x = cands[0][1]
            goal = "(and (= %s %s) (not %s) (= %s ((_ extract 127 0) %s)) %s)" % (c1, U1, u1z, c0, x, small(x))
    else:
        asr = base_assume(em) + lemmas_for(em, lemmas, specs)

        def val(stage, spec_fn):
            return wv(em, fresh[stage]) if stage in fresh else spec_fn(em)
        cands = [("d", val("dN", specs["dN"]), "(not %s)" % u1z)]
        if have_ks:
            def chain(nm):
                if nm + "N" in fresh:
                    return wv(em, fresh[nm + "N"])
                sx = wv(em, fresh[nm + "S"]) if nm + "S" in fresh else specs[nm + "S"](em)
                return bnorm(sx)
            cands.append(("e", chain("e"), "true"))
            cands.append(("f", chain("f"), "true"))
        if not have_ks:
            x = cands[0][1]
            goal = "(and (= %s %s) (not %s) (= %s ((_ extract 127 0) %s)) (bvule %s %s))" % (c1, U1, u1z, c0, x, babs(x), T128)
        else:
            alts = []
            for nm, x, allowed in cands:
                least = " ".join("(=> %s (bvule %s %s))" % (al2, babs(x), babs(y)) for nm2, y, al2 in cands if nm2 != nm)
                alts.append("(and %s (= %s ((_ extract 127 0) %s)) (or (bvule %s %s) (and %s)))" % (allowed, c0, x, babs(x), T128, least))
            goal = "(and (= %s %s) (or %s))" % (c1, U1, " ".join(alts))
    v, mod, _ = run_solver(em.script(pc + asr + ["(not %s)" % goal]), "z3", timeout)
    nq += 1
    if v == "unsat":
        return "ok", None, nq
    if v == "sat":
        return "cex", parse_model(mod), nq
    return "unknown", "solver: %s on the selection rule of a tail path (stages cut: %s)" % (v, ",".join(fresh)), nq


def lemmas_for(em, lemmas, specs=None):
    out = []
    for stage, vs in lemmas:
        fn = (specs or lemmas_for.specs)[stage]
        out.append("(= %s %s)" % (wide(em, vs), fn(em)))
    return out


def _model_is_real(model, conds_c, outs_c, Dv, KSv, uv, n):
    """evaluate the cut DAG concretely under the solver's model: path condition must hold and the
    selection rule must really be violated"""
    env = {}
    for k, v in model.items():
        env[k[2:] if k.startswith("x_") else k] = v
    names = set()
    for t in T.variables([c for c, _ in conds_c if isinstance(c, T.Term)] + [o for o in outs_c if isinstance(o, T.Term)]):
        names.add(t.aux[0])
    for nm in names:
        env.setdefault(nm, 0)
    for c, v in conds_c:
        if isinstance(c, T.Term) and T.evaluate([c], env)[0] != v:
            return False
    o = T.evaluate(list(outs_c), env)
    c0 = o[0] | (o[1] << 64)
    c1 = o[2] | (o[3] << 64)
    D = sum(env[_vname(x)] << (64 * i) for i, x in enumerate(Dv))
    U = sum(env[_vname(x)] << (64 * i) for i, x in enumerate(uv))
    if D >= n:
        return False
    half = (n - 1) // 2

    def norm(x):
        return x - n if x > half else x
    cands = [(norm(D), U != 0)]
    if KSv is not None:
        KS = sum(env[_vname(x)] << (64 * i) for i, x in enumerate(KSv))
        if KS >= n:
            return False
        cands += [(norm((D + KS) % n), True), (norm((D - KS) % n), True)]
    if c1 != U:
        return True
    allowed = [x for x, ok in cands if ok]
    if not allowed:
        return True
    m = min(abs(x) for x in allowed)
    good = any((x % (1 << 128)) == c0 and (abs(x) <= (1 << 128) or abs(x) == m) for x in allowed)
    if KSv is None:
        good = U != 0 and (cands[0][0] % (1 << 128)) == c0 and abs(cands[0][0]) <= (1 << 128)
    return not good


def _vname(v):
    return v.aux[0]


def _allvars(rec):
    d = {"a%d" % k: 64 for k in range(4)}
    for t_, cc in rec.calls:
        for nm, v in cc["res"].items():
            d[_vname(v)] = v.w
    return d


def _model_u1(model):
    ks = sorted(k for k in model if k.startswith("s192_u"))
    return ", ".join("%s=%#x" % (k, model[k]) for k in ks)


# ---------------------------------------------------------------------------------------------
# closed cases replayed on the native build (regression corpus: the inputs of the defects repaired by
# 4b88384 / 20901b9 / 354110a and the families they belong to); also the replay step of a solver model

NMAX = int((1 << 254) / 1.1547005383792517)      # floor(2^254 / (2/sqrt(3)))

WITNESS = {
    "scp256": [0x6ba97ce16e3e7cd3a3e883f0bd2e86b7e08191e753bcb66e1de33ae771fbeb5f],
    "sc25519": [0x086efa9b0d4e87b9d1f002536530fbae8521e464088b06774e8fd40b7fdbb115, (1 << 193) + (1 << 63), (1 << 197) + (1 << 63)],
}


def corpus(tag, n):
    ks = [0, 1, 2, n - 1, n - 2, 1 << 127, 1 << 128, (1 << 128) + 1, n >> 1, (n >> 1) + 1]
    inv = pow(1 << 128, -1, n)
    for j in (1, 3, 5, 7, 9, 11, 13, 15, 2, 4):
        ks += [j * inv % n, (-j * inv) % n]
    for t in range(45, 64):
        ks += [n >> t, (n >> t) + 1]
    ks += [w % n for w in WITNESS.get(tag, [])]
    r = rng("c11corpus", tag)
    for _ in range(24):
        c1 = r.getrandbits(r.choice([20, 50, 64, 100, 127, 128]))
        c0 = r.getrandbits(r.choice([20, 64, 100, 127]))
        if c1 % n:
            ks.append(c0 * pow(c1, -1, n) % n)
    return ks


def contract_ok(k, c0, c1, n):
    c0s, c1s = _signed(c0, 128), _signed(c1, 128)
    if k == 0:
        return (c0s, c1s) == (0, 1)
    rng_ = (-1, 0, 1) if n > NMAX else (0,)
    for a in rng_:
        for b in rng_:
            C0, C1 = c0s + a * (1 << 128), c1s + b * (1 << 128)
            if C1 != 0 and (C0 - k * C1) % n == 0:
                return True
    return False


def check_corpus(built, tag):
    from .lhelp import native_crashes
    ty, n = TYPES[tag]
    drv = "drv_%s_split" % tag
    ob = Obligation("default:%s.split_vartime:corpus" % tag, "ground", ["backend::w64::modint::ModInt256::split_vartime [%s]" % ty],
                    "closed cases: k = j/2^128, n >> t, small unbalanced fractions, earlier witnesses",
                    "native run returns, and (c0, c1) satisfies c0' = k*c1' (mod n), c1' != 0, corrections at most +/-2^128 "
                    "(none below the documented modulus bound); 0 -> (0, 1)")
    t0 = time.time()
    ks = corpus(tag, n)
    for k in ks:
        a = k * R % n
        inputs = {"a": [(a >> (64 * i)) & (2**64 - 1) for i in range(4)]}
        crashed, err = native_crashes(built, drv, inputs)
        if crashed:
            return [ob.fail({"key": "modint.split_vartime.panic", "inputs": {"k": hex(k), "type": ty}, "native_stderr": err[-300:],
                             "found_by": "native replay of the regression corpus"}, "native", time.time() - t0, 0)]
        o = built.native(drv, inputs)["out"]
        c0, c1 = o[0] | (o[1] << 64), o[2] | (o[3] << 64)
        if not contract_ok(k, c0, c1, n):
            return [ob.fail({"key": "modint.split_vartime.contract", "inputs": {"k": hex(k), "type": ty},
                             "native": {"c0": hex(c0), "c1": hex(c1)},
                             "found_by": "native replay of the regression corpus"}, "native", time.time() - t0, 0)]
    ob.ok("native replay x%d" % len(ks), time.time() - t0, 0, syntactic=True)
    return [ob]


def obligations(tier, only=None):
    """called by props/C11.py"""
    tags = list(TYPES) if tier == "thorough" else QUICK
    built = build(drivers(tags), tag="C11-split-cut", cut=True)
    obs = []
    try:
        lays = discover_layouts(built)
        from vlib.par import pmap
        from vlib.common import NCPU

        def work(tg):
            T.reset()
            res = check_type(built, lays, tg, 60 if tier == "quick" else 120)
            cor = check_corpus(built, tg)
            # a model of the cut, stubbed tail that the corpus does not reproduce stays inconclusive; a corpus failure is
            # the natively confirmed violation
            return res + cor
        obs.extend(check_corpus_gfgen(built))
        for tg, (st, val) in zip(tags, pmap(work, tags, nproc=min(NCPU, len(tags)), timeout=3600)):
            if st == "ok":
                obs.extend(val)
            else:
                o = Obligation("default:%s.split_vartime" % tg, "L")
                o.unknown("%s: %s" % (st, str(val)[-300:]))
                obs.append(o)
    finally:
        built.close()
    return obs


def check_corpus_gfgen(built):
    """ed448::Scalar::split_vartime (gfgen type, generic Lagrange reduction): closed cases in a child process with a
    time limit -- the repaired non-termination (55e187b) is a hang, not a panic"""
    import subprocess
    from .lhelp import native_crashes
    n = F.L448
    Rg = 1 << 448
    drv = "drv_sc448_split"
    ob = Obligation("default:sc448.split_vartime:corpus", "ground", ["backend::w64::gfgen split_vartime [ed448::Scalar]", "backend::w64::lagrange::lagrange_vartime"],
                    "closed cases: integers of every bit length 1..445 (both signs), their inverses, small fractions; 20 s per call",
                    "native run returns, and (c0, c1) (signed, 29 bytes each) satisfies c0 = k*c1 (mod n), c1 != 0")
    t0 = time.time()
    r = rng("c11gfgen")
    ks = [0xb5e1dd67f138e657809e1eb587f7]       # little-endian bytes f787b51e9e8057e638f167dde1b5
    for bits in list(range(1, 446, 3)) + [111, 112, 113, 120, 126, 127, 128]:
        v = r.getrandbits(bits) | (1 << (bits - 1))
        ks += [v % n, (-v) % n]
        if bits % 9 == 0:
            ks.append(pow(v, -1, n))
            ks.append(r.getrandbits(max(1, bits // 3)) * pow(v, -1, n) % n)

    def sgn(b):
        x = int.from_bytes(bytes(b), "little")
        return x - (1 << (8 * len(b))) if b[-1] & 0x80 else x
    for k in ks:
        a = k * Rg % n
        inputs = {"a": [(a >> (64 * i)) & (2**64 - 1) for i in range(7)]}
        try:
            crashed, err = native_crashes(built, drv, inputs, timeout=20)
        except subprocess.TimeoutExpired:
            return [ob.fail({"key": "lagrange.first_loop.no_termination", "inputs": {"k": hex(k), "type": "ed448::Scalar"},
                             "found_by": "native replay of closed cases: no return within 20 s"}, "native", time.time() - t0, 0)]
        if crashed:
            return [ob.fail({"key": "gfgen.split_vartime.panic", "inputs": {"k": hex(k), "type": "ed448::Scalar"}, "native_stderr": err[-300:],
                             "found_by": "native replay of closed cases"}, "native", time.time() - t0, 0)]
        o = built.native(drv, inputs)["out"]
        c0, c1 = sgn(o[:29]), sgn(o[29:])
        if k == 0:
            good = (c0, c1) == (0, 1)
        else:
            good = c1 != 0 and (c0 - k * c1) % n == 0
        if not good:
            return [ob.fail({"key": "gfgen.split_vartime.contract", "inputs": {"k": hex(k), "type": "ed448::Scalar"},
                             "native": {"c0": hex(c0), "c1": hex(c1)}, "found_by": "native replay of closed cases"}, "native", time.time() - t0, 0)]
    return [ob.ok("native replay x%d" % len(ks), time.time() - t0, 0, syntactic=True)]
