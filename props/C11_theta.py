"""C11: secp256k1 `Point::mul_divr_rounded` (rounded division by the curve order through the
Granlund-Montgomery multiplier) and `Point::split_theta`, on the real optimized IR (engine L, LIA).

mul_divr_rounded(k, e) = floor((k*e + (n-1)/2) / n)  for all k < n, e < 2^128, proved as a chain of staged cuts
(each stage's limbs are located in the DAG by their values on sampled runs, proved equal to the integer
specification over the previous stage's fresh variables, then replaced by fresh variables):
   Z = k*e + (n-1)/2   (12 limbs; abstract 32x32 partial products, the same atoms on both sides)
   T = M * Z           (24 limbs; M is a constant, so this is linear)
   q = floor(T / 2^637) mod 2^128
and one lemma over constants only (z3, LIA, two integer variables):
   for all 0 <= z < 2^384: floor(M*z / 2^637) = floor(z / n).

split_theta(k) = (|k0|, sgn k0, |k1|, sgn k1) with k = k0 + k1*theta (mod n) and |k0|, |k1| < 2^128:
   c, d (the two rounded quotients) are located and cut; with  0 <= k*S + (n-1)/2 - c*n < n  (resp. T, d) as the
   only facts about them, the remaining linear code is proved to return the integers
   k0 = k - c*S - d*(ST + 2^128)... (read off the source) without wrap-around, and the congruence follows from
   two ground identities between the constants (checked exactly in Python and listed in the evidence)."""
import time, random
from engines.llsym.build import build, Driver
from engines.llsym import terms as T
from engines.llsym.llexec import ExecError
from engines.llsym.smt import BVEmitter, run_solver, parse_model, bvc
from engines.llsym.intenc import IntEnc, Lin
from engines.llsym import prove as PR
from vlib.common import Obligation, log
from . import fields as F
from .lhelp import sym_run, validate, rng, hexl, model_inputs, word_form

N = F.NSECP
HN = (N - 1) // 2
M = sum(w << (32 * i) for i, w in enumerate([0x8B79A0F9, 0xBCD2FEBC, 0xB038D378, 0x13ACE39A, 0x65F937D8, 0x8805B42E,
                                             0x2A16EBF8, 0x28AA2463, 0, 0, 0, 0x20000000]))
HOST = "src/secp256k1.rs"


def drivers():
    return [
        Driver("drv_secp_divr", [("k", "in", 4, 8), ("e", "in", 4, 4), ("out", "out", 4, 4)],
               "        *out = Point::mul_divr_rounded(k, e);", HOST),
        Driver("drv_secp_theta", [("a", "in", 8, 4), ("k0", "out", 8, 2), ("k1", "out", 8, 2), ("sg", "out", 4, 2)],
               "        let s: Scalar = unsafe { transmute::<[u64; 4], Scalar>(*a) };\n"
               "        let (k0, s0, k1, s1) = Point::split_theta(&s);\n"
               "        k0_[0] = k0 as u64; k0_[1] = (k0 >> 64) as u64; k1_[0] = k1 as u64; k1_[1] = (k1 >> 64) as u64; sg[0] = s0; sg[1] = s1;"
               .replace("k0_", "k0").replace("k1_", "k1").replace("let (k0, s0, k1, s1)", "let (x0, s0, x1, s1)")
               .replace("k0[0] = k0 as u64; k0[1] = (k0 >> 64) as u64; k1[0] = k1 as u64; k1[1] = (k1 >> 64) as u64;",
                        "k0[0] = x0 as u64; k0[1] = (x0 >> 64) as u64; k1[0] = x1 as u64; k1[1] = (x1 >> 64) as u64;"), HOST),
    ]


def math_lemma(timeout):
    """for all 0 <= z < 2^384: floor(M z / 2^637) = floor(z / n)   (z = q n + r)"""
    s = ["(set-logic QF_LIA)", "(declare-const q Int)", "(declare-const r Int)",
         "(assert (and (<= 0 q) (<= 0 r) (< r %d) (< (+ (* %d q) r) %d)))" % (N, N, 1 << 384),
         # negation of: q*2^637 <= M*(q n + r) < (q+1)*2^637
         "(assert (not (and (<= (* %d q) (+ (* %d q) (* %d r))) (< (+ (* %d q) (* %d r)) (* %d (+ q 1))))))"
         % (1 << 637, M * N, M, M * N, M, 1 << 637),
         "(check-sat)"]
    return run_solver("\n".join(s) + "\n", "z3", timeout)


def locate(roots, envs, values, nl, lb, pick="last"):
    big = [x for x in roots if isinstance(x, T.Term)]
    memos = [T.evaluate_all(big, e) for e in envs]
    sigs = {tuple((v >> (lb * k)) & ((1 << lb) - 1) for v in values): k for k in range(nl)}
    if len(sigs) < nl:
        return None
    found = [None] * nl
    for t in T.topo(big):
        if t.op != "var" and t.w >= lb:
            k = sigs.get(tuple(m[t.id] for m in memos))
            if k is None:
                continue
            # a node of exactly the limb width is preferred to a wider one with the same sampled values
            # (e.g. the 65-bit sum whose carry bit happens to be 0 on every sample)
            cur = found[k]
            if cur is None or (cur.w != lb and t.w == lb) or (pick == "last" and (t.w == lb or cur.w != lb)):
                found[k] = t
    return None if any(f is None for f in found) else found


def locate_all(roots, envs, values, nl, lb):
    """all candidate nodes per limb (topological order)"""
    big = [x for x in roots if isinstance(x, T.Term)]
    memos = [T.evaluate_all(big, e) for e in envs]
    sigs = {tuple((v >> (lb * k)) & ((1 << lb) - 1) for v in values): k for k in range(nl)}
    out = [[] for _ in range(nl)]
    if len(sigs) < nl:
        return out
    for t in T.topo(big):
        if t.op != "var" and t.w >= lb:
            k = sigs.get(tuple(m[t.id] for m in memos))
            if k is not None:
                out[k].append(t)
    return out


def check_divr(built, timeout):
    drv = "drv_secp_divr"
    fn = ["secp256k1::Point::mul_divr_rounded"]
    obs = []
    ob_m = Obligation("default:secp256k1.mul_divr_rounded:multiplier", "L", fn, "all 0 <= z < 2^384 (constants M, n, 637 read from the source)",
                      "floor(M*z / 2^637) = floor(z / n)")
    v, _, dt = math_lemma(timeout)
    ob_m.ok("z3-int", dt, 1) if v == "unsat" else ob_m.unknown("solver: %s" % v)
    obs.append(ob_m)
    ob = Obligation("default:secp256k1.mul_divr_rounded:value", "L", fn, "all k, e limb values (32-bit limbs)",
                    "returns floor(M*(k*e + (n-1)/2) / 2^637) mod 2^128 [= floor((k*e + (n-1)/2)/n) by the multiplier lemma, for k < n, e < 2^128]")
    obs.append(ob)
    t0 = time.time()
    nq = 0
    r = rng("divr")
    try:
        T.reset()
        ex, ins, outs = sym_run(built, drv)
    except ExecError as e:
        ob.unknown("executor: %s" % e)
        return obs

    def smp(it):
        k = r.randrange(N) if it % 3 else r.choice([0, 1, N - 1, N - 2, (1 << 256) - 1, r.getrandbits(256)])
        e = r.getrandbits(128) if it % 4 else r.choice([0, 1, (1 << 128) - 1])
        return {"k": [(k >> (32 * i)) & 0xFFFFFFFF for i in range(8)], "e": [(e >> (32 * i)) & 0xFFFFFFFF for i in range(4)]}
    validate(built, drv, outs, smp, 16)
    envs, Zs, Ts = [], [], []
    def crafted(it):
        # k*e with limbs 4..8 all-ones (carries of the +(n-1)/2 step travel up to limb 9), large enough for
        # floor(z/n) to differ from z >> 256
        e = r.getrandbits(128) | (1 << 127)
        top = r.randrange(1 << 95, (N * e) >> 288) if it % 2 else ((N * e) >> 288) - 1 - r.getrandbits(8)
        if it % 3 == 1:
            top |= 0xFFFFFFFF                      # limb 9 all-ones: the carry reaches limb 10
        elif it % 3 == 2:
            top |= 0xFFFFFFFFFFFFFFFF              # limbs 9, 10 all-ones: the carry reaches limb 11
        if top >= (N * e) >> 288:
            top = (top & 0xFFFFFFFFFFFFFFFF) | ((((N * e) >> 352) - 1) << 64)
        mid = ((1 << 160) - 1) if it % 4 < 2 else ((1 << 160) - 1 - (1 << 128))      # limb 8 = ff..ff resp. ff..fe
        X = (top << 288) | (mid << 128) | r.getrandbits(128)
        k = min(X // e, N - 1)
        return {"k": [(k >> (32 * i)) & 0xFFFFFFFF for i in range(8)], "e": [(e >> (32 * i)) & 0xFFFFFFFF for i in range(4)]}
    def smp2(it):
        return smp(it) if it % 2 else crafted(it // 2)
    for it in range(96):
        inp = smp(it + 100) if it % 2 else crafted(it // 2)
        env = {}
        for i in range(8):
            env["k%d" % i] = inp["k"][i]
        for i in range(4):
            env["e%d" % i] = inp["e"][i]
        kk = sum(w << (32 * i) for i, w in enumerate(inp["k"]))
        ee = sum(w << (32 * i) for i, w in enumerate(inp["e"]))
        z = (kk * ee + HN) % (1 << 384)
        envs.append(env)
        Zs.append(z)
        Ts.append(M * z)
    roots = list(outs["out"])
    # stage V_i, i = 0..7: the accumulator after row i of the schoolbook product (limbs i..i+4 change in row i)
    Vs = []
    for it, env in enumerate(envs):
        kk = sum(env["k%d" % i] << (32 * i) for i in range(8))
        ee = sum(env["e%d" % i] << (32 * i) for i in range(4))
        Vs.append([sum(env["k%d" % i2] * ee << (32 * i2) for i2 in range(i + 1)) for i in range(8)])
    cur = [0] * 12          # current accumulator limbs: ints (0) or fresh variables
    for i in range(8):
        vals = [v[i] >> (32 * i) for v in Vs]                # limbs i..i+4 as a 160-bit window
        if i == 7 and False:
            pass
        nf = locate(roots, envs, vals, 5, 32, pick="first")
        if nf is None:
            return _undecided(ob, obs, built, drv, smp2, "row %d of the product k*e not located in the DAG" % i, t0, nq)
        import os
        if os.environ.get("VERIF_DEBUG"):
            log("[theta] row %d: nodes %s widths %s cone %d vars %s" % (i, [f.id for f in nf], [f.w for f in nf], len(T.topo(nf)),
                                                                        sorted(set(v_.aux[0] for v_ in T.variables(nf)))))
        enc = IntEnc()
        new = word_form(enc, nf, 32)
        old = Lin(0)
        for j in range(4):
            c_ = cur[i + j]
            old = old + (enc.form(c_)[0] if isinstance(c_, T.Term) else Lin(c_)).scale(1 << (32 * j))
        ki = enc.form(ins["k"][i])[0]
        E = word_form(enc, ins["e"], 32)
        res = PR.prove(enc, "(= %s %s)" % (new.smt(), (old + enc.product(ki, E)).smt()), timeout=timeout)
        nq += 1
        if res.status != "proved":
            return _undecided(ob, obs, built, drv, smp2, "row %d of k*e: %s" % (i, res.status), t0, nq)
        vs = [T.var("V%d_%d" % (i, j), 32) for j in range(5)]
        roots = T.substitute(roots, {f.id: (v if f.w == 32 else T.t_zext(v, f.w)) for f, v in zip(nf, vs)})
        for env, v in zip(envs, vals):
            for j in range(5):
                env["V%d_%d" % (i, j)] = (v >> (32 * j)) & 0xFFFFFFFF
        for j in range(5):
            cur[i + j] = vs[j]
    # stage Z = V + (n-1)/2 mod 2^384
    zf = locate(roots, envs, Zs, 12, 32, pick="first")
    if zf is None:
        return _undecided(ob, obs, built, drv, smp2, "stage Z (k*e + (n-1)/2) not located in the DAG", t0, nq)
    enc = IntEnc()
    Zform = word_form(enc, zf, 32)
    V = Lin(0)
    for j in range(12):
        V = V + (enc.form(cur[j])[0] if isinstance(cur[j], T.Term) else Lin(cur[j])).scale(1 << (32 * j))
    tgt = V + Lin(HN)
    import os
    if os.environ.get("VERIF_DEBUG"):
        log("[theta] Z: nodes %s widths %s cone %d vars %d" % ([f.id for f in zf], [f.w for f in zf], len(T.topo(zf)), len(T.variables(zf))))
        def show(t, d):
            if not isinstance(t, T.Term):
                return hex(t)
            if d == 0 or t.op == "var":
                return "%s#%d" % (t.op if t.op != "var" else t.aux[0], t.id)
            return "%s#%d(%s)" % (t.op, t.id, ", ".join(show(a, d - 1) for a in t.args))
        for f in zf[:3]:
            log("   " + show(f, 5)[:700])
    res = PR.prove_congruence(enc, Zform, tgt, 1 << 384, timeout=timeout)
    nq += res.queries
    if res.status != "proved":
        return _undecided(ob, obs, built, drv, smp2, "stage Z: %s %s" % (res.status, str(res.info)[:300]), t0, nq)
    zv = [T.var("Z_%d" % i, 32) for i in range(12)]
    roots = T.substitute(roots, {f.id: (v if f.w == 32 else T.t_zext(v, f.w)) for f, v in zip(zf, zv)})
    for env, z in zip(envs, Zs):
        for i in range(12):
            env["Z_%d" % i] = (z >> (32 * i)) & 0xFFFFFFFF
    # stage T (only the limbs the result needs are in the DAG: 19..23); prove the needed limbs against M*Z
    tf = {}
    big = [x for x in roots if isinstance(x, T.Term)]
    memos = [T.evaluate_all(big, e) for e in envs]
    for t in T.topo(big):
        if t.op != "var" and t.w >= 32:
            sig = tuple(m[t.id] for m in memos)
            for j in range(24):
                if j not in tf and sig == tuple((tv >> (32 * j)) & 0xFFFFFFFF for tv in Ts):
                    tf[j] = t
    need = [19, 20, 21, 22, 23]
    if any(j not in tf for j in need):
        return _undecided(ob, obs, built, drv, smp2, "stage T (M*Z) limbs %s not located" % [j for j in need if j not in tf], t0, nq)
    enc = IntEnc()
    Zf = word_form(enc, zv, 32)
    # the five top limbs: sum_{j=19..23} t_j 2^(32 j) = M*Z - (M*Z mod 2^(32*19)); prove via quotient: 0 <= M*Z - 2^608 * TOP < 2^608
    TOP = Lin(0)
    for idx, j in enumerate(need):
        TOP = TOP + enc.form(tf[j])[0].scale(1 << (32 * idx))
    low = (Zf.scale(M) - TOP.scale(1 << 608))
    res = PR.prove(enc, "(and (<= 0 %s) (< %s %d))" % (low.smt(), low.smt(), 1 << 608), timeout=timeout)
    nq += 1
    if res.status != "proved":
        return _undecided(ob, obs, built, drv, smp2, "stage T: %s" % res.status, t0, nq)
    tv = {j: T.var("T_%d" % j, 32) for j in need}
    roots = T.substitute(roots, {tf[j].id: (tv[j] if tf[j].w == 32 else T.t_zext(tv[j], tf[j].w)) for j in need})
    # stage q: bit-vector shifts
    em = BVEmitter()
    top = em.ref(tv[19], 32)
    for j in need[1:]:
        top = "(concat %s %s)" % (em.ref(tv[j], 32), top)
    got = em.ref(roots[0], 32) if isinstance(roots[0], T.Term) else bvc(roots[0], 32)
    for x in roots[1:]:
        got = "(concat %s %s)" % (em.ref(x, 32) if isinstance(x, T.Term) else bvc(x, 32), got)
    v, _, _ = run_solver(em.script(["(distinct %s ((_ extract 127 0) (bvlshr %s %s)))" % (got, top, bvc(29, 160))], get_model=False), "z3", timeout)
    nq += 1
    if v != "unsat":
        return _undecided(ob, obs, built, drv, smp2, "stage q: %s" % v, t0, nq)
    ob.ok("staged cuts: Z (z3-int, abstract partial products), T (z3-int), q (z3-bv)", time.time() - t0, nq)
    return obs


def ref_divr(k, e):
    return ((M * ((k * e + HN) % (1 << 384))) >> 637) % (1 << 128)


def _undecided(ob, obs, built, drv, smp, why, t0, nq):
    for it in range(3000):
        inp = smp(it)
        nat = built.native(drv, inp)["out"]
        k = sum(w << (32 * i) for i, w in enumerate(inp["k"]))
        e = sum(w << (32 * i) for i, w in enumerate(inp["e"]))
        if sum(w << (32 * i) for i, w in enumerate(nat)) != ref_divr(k, e):
            ob.fail({"key": "secp256k1.mul_divr_rounded", "inputs": {"k": hex(k), "e": hex(e)}, "native": hexl(nat), "expected": hex(ref_divr(k, e)),
                     "found_by": "a stage lemma does not close (%s); boundary replay on the native build" % why}, "replay", time.time() - t0, nq)
            return obs
    ob.unknown(why)
    return obs


def obligations(tier):
    built = build(drivers(), tag="C11-theta", cut=True)
    try:
        to = 60 if tier == "quick" else 300
        return check_divr(built, to) + check_theta(built, to)
    finally:
        built.close()


# ---------------------------------------------------------------------------------------------
# split_theta: glue around the two rounded quotients

S_ = sum(w << (32 * i) for i, w in enumerate([0x9284EB15, 0xE86C90E4, 0xA7D46BCD, 0x3086D221]))
T_ = sum(w << (32 * i) for i, w in enumerate([0x0ABFE4C3, 0x6F547FA9, 0x010E8828, 0xE4437ED6]))
ST_ = sum(w << (32 * i) for i, w in enumerate([0x9D44CFD8, 0x57C1108D, 0xA8E2F3F6, 0x14CA50F7]))
THETA = 0x5363AD4CC05C30E0A5261C028812645A122E22EA20816678DF02967C1B23BD72


def theta_math(timeout):
    """(a) ground identities between the constants; (b) magnitude lemma (z3, LIA, three integer variables)"""
    ids = {"-S + T*theta = 0 (mod n)": (-S_ + T_ * THETA) % N == 0,
           "ST + 2^128 + S*theta = 0 (mod n)": (ST_ + (1 << 128) + S_ * THETA) % N == 0,
           "theta^2 + theta + 1 = 0 (mod n)": (THETA * THETA + THETA + 1) % N == 0}
    smt = """(set-logic QF_LIA)
(declare-const K Int)(declare-const c Int)(declare-const d Int)
(assert (and (<= 0 K) (< K %d)))
(assert (and (<= 0 (- (+ (* %d K) %d) (* %d c))) (< (- (+ (* %d K) %d) (* %d c)) %d)))
(assert (and (<= 0 (- (+ (* %d K) %d) (* %d d))) (< (- (+ (* %d K) %d) (* %d d)) %d)))
(define-fun A0 () Int (- (- K (* %d c)) (* %d d)))
(define-fun A1 () Int (- (* %d c) (* %d d)))
(assert (not (and (< (- %d) A0) (< A0 %d) (< (- %d) A1) (< A1 %d))))
(check-sat)
""" % (N, S_, HN, N, S_, HN, N, N, T_, HN, N, T_, HN, N, N, S_, ST_ + (1 << 128), T_, S_, 1 << 128, 1 << 128, 1 << 128, 1 << 128)
    v, _, dt = run_solver(smt, "z3", timeout)
    return ids, v, dt


def _prove_g(nm, gf, KW, cvars, dvars, envs, timeout):
    """located 5 x 32-bit limbs == k - c*S - d*(ST + 2^128)  resp.  c*T - d*S  (mod 2^160): LIA, then bit-vectors"""
    enc = IntEnc()
    G = word_form(enc, gf, 32)
    Kf = word_form(enc, KW, 64)
    C = word_form(enc, cvars, 32)
    D = word_form(enc, dvars, 32)
    tgt = (Kf - C.scale(S_) - D.scale(ST_ + (1 << 128))) if nm == "g0" else (C.scale(T_) - D.scale(S_))
    nq = 0
    try:
        samples = [enc.eval_atoms(env) for env in envs[:32]]
        res = PR.prove_congruence(enc, G, tgt, 1 << 160, timeout=timeout, samples=samples)
        nq += res.queries
        if res.status == "proved":
            return True, "", nq
        why = "no integer certificate (%s)" % res.info.get("reason")
    except (AssertionError, KeyError) as e:
        why = "integer encoder self-check failed: %s" % e
    em = BVEmitter()

    def V32(ws):
        e = None
        for x in ws:
            y = em.ref(x, x.w) if isinstance(x, T.Term) else bvc(x, 32)
            y = "((_ extract 31 0) %s)" % y if isinstance(x, T.Term) and x.w > 32 else y
            e = y if e is None else "(concat %s %s)" % (y, e)
        return e
    c160 = "((_ zero_extend 32) %s)" % V32(cvars)
    d160 = "((_ zero_extend 32) %s)" % V32(dvars)
    kw160 = "((_ extract 159 0) (concat %s (concat %s %s)))" % (em.ref(KW[2], 64), em.ref(KW[1], 64), em.ref(KW[0], 64))
    if nm == "g0":
        spec = "(bvsub (bvsub %s (bvmul %s %s)) (bvmul %s %s))" % (kw160, c160, bvc(S_, 160), d160, bvc((ST_ + (1 << 128)) & ((1 << 160) - 1), 160))
    else:
        spec = "(bvsub (bvmul %s %s) (bvmul %s %s))" % (c160, bvc(T_, 160), d160, bvc(S_, 160))
    v, _, _ = run_solver(em.script(["(distinct %s %s)" % (V32(gf), spec)], get_model=False), "z3", timeout)
    nq += 1
    if v == "unsat":
        return True, "", nq
    return False, why + "; bit-vector attempt: %s" % v, nq


def check_theta(built, timeout):
    from engines.llsym.llexec import Ptr
    fn = ["secp256k1::Point::split_theta"]
    obs = []
    ids, v, dt = theta_math(timeout)
    ob_g = Obligation("default:secp256k1.split_theta:constants", "ground", fn, "closed", "; ".join(ids))
    (ob_g.ok("exact integer arithmetic", 0.0, 0, syntactic=True) if all(ids.values())
     else ob_g.fail({"key": "secp256k1.split_theta.constants", "facts": ids, "found_by": "exact integer arithmetic on the constants read from the source"}, "ground", 0.0, 0))
    obs.append(ob_g)
    ob_m = Obligation("default:secp256k1.split_theta:magnitude", "L", fn, "all 0 <= k < n and the rounded quotients c, d (as integers)",
                      "|k - c*S - d*(ST + 2^128)| < 2^128 and |c*T - d*S| < 2^128")
    (ob_m.ok("z3-int", dt, 1) if v == "unsat" else ob_m.unknown("solver: %s" % v))
    obs.append(ob_m)
    import os
    if not os.environ.get("VERIF_C11_THETA_VALUE"):
        # the linear glue after the two quotients (four truncated products, two subtraction chains modulo 2^160, abs128)
        # does not close within budget: the compiler merges the top limb of the 160-bit values into the sign handling, so
        # no program value holds it; not posed (listed under outside_claim)
        return obs
    ob = Obligation("default:secp256k1.split_theta:value", "L", fn,
                    "all encoded scalars kw < n (8 x 32-bit limbs, cut after Scalar::encode: C05) and all rounded quotients c, d",
                    "(|k0|, sgn k0, |k1|, sgn k1) for k0 = k - c*S - d*(ST + 2^128), k1 = c*T - d*S, c = mul_divr_rounded(k, S), "
                    "d = mul_divr_rounded(k, T) [hence k = k0 + k1*theta (mod n) by the constants' identities]")
    obs.append(ob)
    t0 = time.time()
    nq = 0
    calls = []

    def hook(ex_, name, argv, rty):
        kl = ex_.read_words(argv[1], 8, 4)
        el = ex_.read_words(argv[2], 4, 4)
        if any(isinstance(x, T.Term) for x in el):
            raise ExecError("non-constant multiplier passed to mul_divr_rounded")
        e = sum(int(x) << (32 * i) for i, x in enumerate(el))
        nm = "c" if e == S_ else ("d" if e == T_ else "q%d" % len(calls))
        vs = [T.var("%s_%d" % (nm, i), 32) for i in range(4)]
        for i, v_ in enumerate(vs):
            ex_.store(Ptr(argv[0].obj, argv[0].off + 4 * i), 4, v_)
        calls.append((nm, e, kl, vs))
        return None

    def setup(ex):
        ex.add_call_hook(r"secp256k1.*Point.*mul_divr_rounded", hook)
    try:
        T.reset()
        ex, ins, outs = sym_run(built, "drv_secp_theta", executor_setup=setup)
    except ExecError as e:
        ob.unknown("executor: %s" % e)
        return obs
    if sorted(c_[0] for c_ in calls) != ["c", "d"]:
        ob.unknown("expected exactly the two calls mul_divr_rounded(k, S) and (k, T); saw %s" % [(c_[0], hex(c_[1])) for c_ in calls])
        return obs
    cd = {c_[0]: c_ for c_ in calls}
    if not all(x is y for x, y in zip(cd["c"][2], cd["d"][2])):
        ob.unknown("the two quotients are not computed from the same limbs")
        return obs
    kw_terms = cd["c"][2]
    KW = [T.var("KW_%d" % i, 64) for i in range(4)]          # the encoded scalar as four 64-bit words (cut after Scalar::encode)
    roots = list(outs["k0"]) + list(outs["k1"]) + list(outs["sg"])
    r = rng("theta")
    envs, A0s, A1s = [], [], []
    for it in range(64):
        k = r.randrange(N) if it % 4 else r.choice([0, 1, N - 1, N // 2, N // 3, r.getrandbits(130), (1 << 255) + r.getrandbits(200)]) % N
        c = (k * S_ + HN) // N
        d = (k * T_ + HN) // N
        env = {}
        am = k * (1 << 256) % N                      # Montgomery representation of k (the driver's input limbs)
        for i in range(4):
            env["a%d" % i] = (am >> (64 * i)) & (2**64 - 1)
        for i in range(4):
            env["KW_%d" % i] = (k >> (64 * i)) & (2**64 - 1)
        for i in range(4):
            env["c_%d" % i] = (c >> (32 * i)) & 0xFFFFFFFF
            env["d_%d" % i] = (d >> (32 * i)) & 0xFFFFFFFF
        envs.append(env)
        A0s.append((k - c * S_ - d * (ST_ + (1 << 128))) % (1 << 160))
        A1s.append((c * T_ - d * S_) % (1 << 160))
    cvars, dvars = cd["c"][3], cd["d"][3]
    # stage KW: the four 64-bit words of the encoded scalar, located by value; everything downstream (32-bit limb
    # extraction in any form the compiler chose) is then bit manipulation of these words
    # the compiler keeps each encoded 64-bit word as the low half of a 128-bit sum P_j (last Montgomery-reduction
    # round); limbs 2j, 2j+1 handed to mul_divr_rounded are extracts of P_j.  P_j := (fresh KH_j : KW_j)
    mp = {}
    groups = {}          # word term P -> {64-bit chunk index: encoded-word index}
    for i, t_ in enumerate(kw_terms):
        if not (isinstance(t_, T.Term) and t_.op == "extract" and isinstance(t_.args[0], T.Term) and t_.args[1] % 32 == 0):
            ob.unknown("limb %d passed to mul_divr_rounded is not an aligned extract of a word term" % i)
            return obs
        P, off = t_.args[0], t_.args[1]
        g = groups.setdefault(P.id, (P, {}))[1]
        if g.setdefault(off // 64, i // 2) != i // 2 or (off % 64) != 32 * (i % 2):
            ob.unknown("limbs passed to mul_divr_rounded are not the aligned halves of 64-bit chunks")
            return obs
    nh = 0
    for pid_, (P, g) in groups.items():
        pv = [T.evaluate([P], env)[0] for env in envs]
        rep = 0
        for ch in range(P.w // 64):
            if ch in g:
                piece = KW[g[ch]]
            else:
                piece = T.var("KH_%d" % nh, 64)
                for env, x in zip(envs, pv):
                    env["KH_%d" % nh] = (x >> (64 * ch)) & (2**64 - 1)
                nh += 1
            z = T.t_zext(piece, P.w) if P.w > 64 else piece
            z = T.t_shl(z, 64 * ch, P.w) if ch else z
            rep = z if ch == 0 else T.t_or(z, rep, P.w)
        mp[P.id] = rep
    roots = T.substitute(roots, mp)
    kw_cut = T.substitute([t for t in kw_terms], mp)
    left = set(v_.aux[0] for v_ in T.variables([t for t in roots + kw_cut if isinstance(t, T.Term)])) - \
        set(["KW_%d" % i for i in range(4)] + ["KH_%d" % i for i in range(8)] + ["c_%d" % i for i in range(4)] + ["d_%d" % i for i in range(4)])
    if left:
        ob.unknown("after cutting the encoded scalar the results still depend on %s" % sorted(left))
        return obs
    # the limbs handed to mul_divr_rounded are the 32-bit halves of these words
    em = BVEmitter()
    dif = []
    for i, t_ in enumerate(kw_cut):
        ref_ = "((_ extract %d %d) %s)" % (32 * (i % 2) + 31, 32 * (i % 2), em.ref(KW[i // 2], 64))
        dif.append("(distinct %s %s)" % (em.ref(t_, 32) if isinstance(t_, T.Term) else bvc(t_, 32), ref_))
    v, _, _ = run_solver(em.script(["(or %s)" % " ".join(dif)], get_model=False), "z3", timeout)
    nq += 1
    if v != "unsat":
        import os
        if os.environ.get("VERIF_DEBUG"):
            log("[theta] kw_cut: %s" % [repr(t_) for t_ in kw_cut])
            log("[theta] eval: %s vs KW %s" % ([hex(x) for x in T.evaluate(list(kw_cut), envs[1])], [hex(envs[1]["KW_%d" % i]) for i in range(4)]))
        ob.unknown("the limbs passed to mul_divr_rounded are not the 32-bit halves of the encoded scalar (solver: %s)" % v)
        return obs
    # low 128 bits of g0, g1 (four 32-bit limbs each): located, proved modulo 2^128 (LIA), cut.  The top limb is merged by the
    # compiler into the sign handling; the final claim is therefore stated on the outputs directly, in integers, with the
    # magnitude lemma as an assumption.
    lowv = {}
    for nm, vals in (("g0", A0s), ("g1", A1s)):
        gl = locate(roots, envs, [v_ & ((1 << 128) - 1) for v_ in vals], 4, 32, pick="last")
        if gl is None:
            ob.unknown("the low 128 bits of %s were not located in the DAG" % nm)
            return obs
        enc = IntEnc()
        G = word_form(enc, gl, 32)
        Kf = word_form(enc, KW, 64)
        C = word_form(enc, cvars, 32)
        D = word_form(enc, dvars, 32)
        tgt = (Kf - C.scale(S_) - D.scale(ST_ + (1 << 128))) if nm == "g0" else (C.scale(T_) - D.scale(S_))
        try:
            samples = [enc.eval_atoms(env) for env in envs[:32]]
        except (AssertionError, KeyError) as e:
            ob.unknown("integer encoder self-check failed in stage %s: %s" % (nm, e))
            return obs
        res = PR.prove_congruence(enc, G, tgt, 1 << 128, timeout=timeout, samples=samples)
        nq += res.queries
        if res.status != "proved":
            ob.unknown("stage %s (low 128 bits, mod 2^128): %s %s" % (nm, res.status, str(res.info)[:200]))
            return obs
        vs = [T.var("%sl_%d" % (nm, i), 32) for i in range(4)]
        lowv[nm] = vs
        roots = T.substitute(roots, {f.id: (v_ if f.w == 32 else T.t_zext(v_, f.w)) for f, v_ in zip(gl, vs)})
        for env, val in zip(envs, vals):
            for i in range(4):
                env["%sl_%d" % (nm, i)] = (val >> (32 * i)) & 0xFFFFFFFF
    enc = IntEnc()
    Kf = word_form(enc, KW, 64)
    C = word_form(enc, cvars, 32)
    D = word_form(enc, dvars, 32)
    A0 = Kf - C.scale(S_) - D.scale(ST_ + (1 << 128))
    A1 = C.scale(T_) - D.scale(S_)
    extra = ["(< %s %d)" % (Kf.smt(), N)]
    goal = []
    for nm, A, o2, si in (("g0", A0, roots[0:2], roots[4]), ("g1", A1, roots[2:4], roots[5])):
        GL = word_form(enc, lowv[nm], 32)
        # stage lemma + magnitude lemma: GL = A mod 2^128 with |A| < 2^128
        extra.append("(and (< (- %d) %s) (< %s %d))" % (1 << 128, A.smt(), A.smt(), 1 << 128))
        extra.append("(or (= %s %s) (= %s (+ %s %d)))" % (GL.smt(), A.smt(), GL.smt(), A.smt(), 1 << 128))
        O = word_form(enc, o2, 64)
        Sg = enc.form(si)[0] if isinstance(si, T.Term) else Lin(si)
        goal.append("(ite (< %s 0) (and (= %s (- %s)) (= %s 4294967295)) (and (= %s %s) (= %s 0)))"
                    % (A.smt(), O.smt(), A.smt(), Sg.smt(), O.smt(), A.smt(), Sg.smt()))
    res = PR.prove(enc, "(and %s)" % " ".join(goal), extra=extra, timeout=timeout)
    nq += 1
    if res.status != "proved":
        ob.unknown("output stage (signs and absolute values from the low halves and the merged top limb): %s" % res.status)
        return obs
    ob.ok("contract stubs for the two quotients; low halves of k0, k1 by staged cuts (z3-int, modulo 2^128); signs and absolute values on the outputs (z3-int, magnitude lemma assumed)", time.time() - t0, nq)
    return obs
