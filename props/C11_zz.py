"""C11 (rounded division by the order): the fixed-width integer helpers of src/backend/w64/zz.rs
(Zu128 / Zu256 / Zu384) that `mul_divr_rounded` and the split_mu functions of jq255e, jq255s-free
GLS254 are built from, each against its integer specification, all limbs symbolic (engine L).
Additions, subtractions, shifts and sign handling: z3 bit-vectors against the wide bit-vector
specification.  Multiplications: integer encoding with abstract 64x64 partial products (the same
product atoms on both sides), z3 LIA."""
import time
from engines.llsym.build import Driver
from engines.llsym import terms as T
from engines.llsym.llexec import ExecError
from engines.llsym.smt import BVEmitter, run_solver, parse_model, bvc
from engines.llsym.intenc import IntEnc, Lin
from engines.llsym import prove as PR
from vlib.common import Obligation
from .lhelp import sym_run, validate, rng, hexl, model_inputs, word_form

Z = "crate::backend::"


def mk(ty, nm, n):
    return "%s%s::w64le(%s)" % (Z, ty, ", ".join("%s[%d]" % (nm, i) for i in range(n)))


def tr(ty, n, e):
    return "unsafe { transmute::<%s%s, [u64; %d]>(%s) }" % (Z, ty, n, e)


SHIFTS_QUICK = [225, 232, 254, 255]
SHIFTS_ALL = list(range(225, 256))


def drivers(shifts):
    ds = [
        Driver("drv_zz_mul128", [("a", "in", 8, 2), ("b", "in", 8, 2), ("out", "out", 8, 4)],
               "        *out = %s;" % tr("Zu256", 4, "%s.mul128x128(&%s)" % (mk("Zu128", "a", 2), mk("Zu128", "b", 2)))),
        Driver("drv_zz_mul128t", [("a", "in", 8, 2), ("b", "in", 8, 2), ("out", "out", 8, 2)],
               "        *out = %s;" % tr("Zu128", 2, "%s.mul128x128trunc(&%s)" % (mk("Zu128", "a", 2), mk("Zu128", "b", 2)))),
        Driver("drv_zz_mul256", [("a", "in", 8, 4), ("b", "in", 8, 2), ("out", "out", 8, 6)],
               "        *out = %s;" % tr("Zu384", 6, "%s.mul256x128(&%s)" % (mk("Zu256", "a", 4), mk("Zu128", "b", 2)))),
        Driver("drv_zz_abs", [("a", "in", 8, 2), ("out", "out", 8, 2), ("st", "out", 4, 1)],
               "        let (v, s) = %s.abs(); out[0] = v as u64; out[1] = (v >> 64) as u64; st[0] = s;" % mk("Zu128", "a", 2)),
        Driver("drv_zz_dia", [("a", "in", 8, 2), ("out", "out", 8, 2), ("st", "out", 4, 1)],
               "        let (v, s) = %s.double_inc_abs(); out[0] = v as u64; out[1] = (v >> 64) as u64; st[0] = s;" % mk("Zu128", "a", 2)),
        Driver("drv_zz_sub", [("a", "in", 8, 2), ("b", "in", 8, 2), ("out", "out", 8, 2)],
               "        let mut x = %s; x.set_sub(&%s); *out = %s;" % (mk("Zu128", "a", 2), mk("Zu128", "b", 2), tr("Zu128", 2, "x"))),
        Driver("drv_zz_subu32", [("a", "in", 8, 2), ("b", "val", 4, 1), ("out", "out", 8, 2)],
               "        let mut x = %s; x.set_sub_u32(b); *out = %s;" % (mk("Zu128", "a", 2), tr("Zu128", 2, "x"))),
        Driver("drv_zz_addrsh", [("a", "in", 8, 4), ("b", "in", 8, 4), ("st", "out", 4, 1)],
               "        st[0] = %s.add_rsh224(&%s);" % (mk("Zu256", "a", 4), mk("Zu256", "b", 4))),
        Driver("drv_zz_borrow", [("a", "in", 8, 4), ("b", "in", 8, 4), ("st", "out", 4, 1)],
               "        st[0] = %s.borrow(&%s);" % (mk("Zu256", "a", 4), mk("Zu256", "b", 4))),
        Driver("drv_zz_add384", [("a", "in", 8, 6), ("b", "in", 8, 6), ("out", "out", 8, 6)],
               "        let mut x = %s; x.set_add(&%s); *out = %s;" % (mk("Zu384", "a", 6), mk("Zu384", "b", 6), tr("Zu384", 6, "x"))),
    ]
    for n in shifts:
        ds.append(Driver("drv_zz_trsh_%d" % n, [("a", "in", 8, 6), ("b", "val", 4, 1), ("lo", "out", 8, 4), ("hi", "out", 8, 2)],
                         "        let mut x = %s; let (l, h) = x.trunc_and_rsh_cc(b, %d); *lo = %s; *hi = %s;"
                         % (mk("Zu384", "a", 6), n, tr("Zu256", 4, "l"), tr("Zu128", 2, "h"))))
    return ds


def W(em, ws):
    e = em.ref(ws[0], 64) if isinstance(ws[0], T.Term) else bvc(ws[0], 64)
    for x in ws[1:]:
        e = "(concat %s %s)" % (em.ref(x, 64) if isinstance(x, T.Term) else bvc(x, 64), e)
    return e


def zx(e, frm, to):
    return e if frm == to else "((_ zero_extend %d) %s)" % (to - frm, e)


def ival(ws):
    return sum(int(w) << (64 * i) for i, w in enumerate(ws))


def spec_table(shifts):
    """name -> (driver, function, description, bv spec builder, python reference)"""
    S = {}

    def sgn(x, bits):
        return x - (1 << bits) if x >> (bits - 1) else x
    S["abs"] = ("drv_zz_abs", "Zu128::abs", "(|x|, sign mask) of the signed 128-bit value",
                lambda em, i, o: ["(distinct %s (ite (bvslt %s %s) (bvneg %s) %s))" % (W(em, o["out"]), W(em, i["a"]), bvc(0, 128), W(em, i["a"]), W(em, i["a"])),
                                  "(distinct %s (ite (bvslt %s %s) %s %s))" % (em.ref(o["st"][0], 32), W(em, i["a"]), bvc(0, 128), bvc(0xFFFFFFFF, 32), bvc(0, 32))],
                lambda i: {"out": [abs(sgn(ival(i["a"]), 128)) & (2**64 - 1), abs(sgn(ival(i["a"]), 128)) >> 64],
                           "st": [0xFFFFFFFF if sgn(ival(i["a"]), 128) < 0 else 0]})
    S["double_inc_abs"] = ("drv_zz_dia", "Zu128::double_inc_abs", "(|2x+1|, sign mask of x), 2x+1 computed over the integers (129 bits)",
                           lambda em, i, o: ["(distinct %s ((_ extract 127 0) (let ((y (bvadd (bvshl ((_ sign_extend 2) %s) %s) %s))) (ite (bvslt y %s) (bvneg y) y))))"
                                             % (W(em, o["out"]), W(em, i["a"]), bvc(1, 130), bvc(1, 130), bvc(0, 130)),
                                             "(distinct %s (ite (bvslt %s %s) %s %s))" % (em.ref(o["st"][0], 32), W(em, i["a"]), bvc(0, 128), bvc(0xFFFFFFFF, 32), bvc(0, 32))],
                           lambda i: {"out": [abs(2 * sgn(ival(i["a"]), 128) + 1) & (2**64 - 1), (abs(2 * sgn(ival(i["a"]), 128) + 1) >> 64) & (2**64 - 1)],
                                      "st": [0xFFFFFFFF if sgn(ival(i["a"]), 128) < 0 else 0]})
    S["set_sub"] = ("drv_zz_sub", "Zu128::set_sub", "(a - b) mod 2^128",
                    lambda em, i, o: ["(distinct %s (bvsub %s %s))" % (W(em, o["out"]), W(em, i["a"]), W(em, i["b"]))],
                    lambda i: {"out": [((ival(i["a"]) - ival(i["b"])) % 2**128) & (2**64 - 1), ((ival(i["a"]) - ival(i["b"])) % 2**128) >> 64]})
    S["set_sub_u32"] = ("drv_zz_subu32", "Zu128::set_sub_u32", "(a - b) mod 2^128, b a 32-bit integer",
                        lambda em, i, o: ["(distinct %s (bvsub %s %s))" % (W(em, o["out"]), W(em, i["a"]), zx(em.ref(i["b"], 32), 32, 128))],
                        lambda i: {"out": [((ival(i["a"]) - i["b"]) % 2**128) & (2**64 - 1), ((ival(i["a"]) - i["b"]) % 2**128) >> 64]})
    S["add_rsh224"] = ("drv_zz_addrsh", "Zu256::add_rsh224", "floor(((a + b) mod 2^256) / 2^224)",
                       lambda em, i, o: ["(distinct %s ((_ extract 255 224) (bvadd %s %s)))" % (em.ref(o["st"][0], 32), W(em, i["a"]), W(em, i["b"]))],
                       lambda i: {"st": [((ival(i["a"]) + ival(i["b"])) % 2**256) >> 224]})
    S["borrow"] = ("drv_zz_borrow", "Zu256::borrow", "1 if a < b else 0",
                   lambda em, i, o: ["(distinct %s (ite (bvult %s %s) %s %s))" % (em.ref(o["st"][0], 32), W(em, i["a"]), W(em, i["b"]), bvc(1, 32), bvc(0, 32))],
                   lambda i: {"st": [1 if ival(i["a"]) < ival(i["b"]) else 0]})
    S["set_add"] = ("drv_zz_add384", "Zu384::set_add", "(a + b) mod 2^384",
                    lambda em, i, o: ["(distinct %s (bvadd %s %s))" % (W(em, o["out"]), W(em, i["a"]), W(em, i["b"]))],
                    lambda i: {"out": [(((ival(i["a"]) + ival(i["b"])) % 2**384) >> (64 * k)) & (2**64 - 1) for k in range(6)]})
    for n in shifts:
        S["trunc_and_rsh_cc[n=%d]" % n] = (
            "drv_zz_trsh_%d" % n, "Zu384::trunc_and_rsh_cc", "(a mod 2^%d, (floor(a / 2^%d) + b) mod 2^128)" % (n, n),
            (lambda n: lambda em, i, o: [
                "(distinct %s %s)" % (W(em, o["lo"]), zx("((_ extract %d 0) %s)" % (n - 1, W(em, i["a"])), n, 256)),
                "(distinct %s (bvadd ((_ extract 127 0) (bvlshr %s %s)) %s))" % (W(em, o["hi"]), W(em, i["a"]), bvc(n, 384), zx(em.ref(i["b"], 32), 32, 128))])(n),
            (lambda n: lambda i: {"lo": [((ival(i["a"]) % 2**n) >> (64 * k)) & (2**64 - 1) for k in range(4)],
                                  "hi": [((((ival(i["a"]) >> n) + i["b"]) % 2**128) >> (64 * k)) & (2**64 - 1) for k in range(2)]})(n))
    return S


MULS = {"mul128x128": ("drv_zz_mul128", "Zu128::mul128x128", 2, 2, None),
        "mul256x128": ("drv_zz_mul256", "Zu256::mul256x128", 4, 2, None),
        "mul128x128trunc": ("drv_zz_mul128t", "Zu128::mul128x128trunc", 2, 2, 128)}


def sampler(built, drv, r):
    d = built.drivers[drv]

    def smp(it):
        out = {}
        for name, kind, eb, cnt in d.params:
            if kind == "in":
                out[name] = [r.choice([0, 1, 2**64 - 1, 2**63, r.getrandbits(64), r.getrandbits(64)]) for _ in range(cnt)]
            elif kind == "val":
                out[name] = r.choice([0, 1, 2**32 - 1, r.getrandbits(32)])
        return out
    return smp


def check_bv(built, name, spec, timeout):
    drv, fn, desc, bvs, ref = spec
    ob = Obligation("default:zz.%s" % name, "L", ["backend::w64::zz::" + fn], "all limb values", desc)
    t0 = time.time()
    r = rng("zz", name)
    smp = sampler(built, drv, r)
    try:
        T.reset()
        ex, ins, outs = sym_run(built, drv)
        validate(built, drv, outs, smp, 16)
    except ExecError as e:
        return [ob.unknown("executor: %s" % e)]
    em = BVEmitter()
    diffs = bvs(em, ins, outs)
    v, mod, dt = run_solver(em.script(["(or %s)" % " ".join(diffs)] if len(diffs) > 1 else diffs), "z3", timeout)

    def native_bad(inputs):
        nat = built.native(drv, inputs)
        exp = ref(inputs)
        return any(list(nat[k]) != list(vv) for k, vv in exp.items()), nat, exp
    if v == "unsat":
        return [ob.ok("z3-bv", time.time() - t0, 1)]
    if v == "sat":
        inputs = model_inputs(parse_model(mod), built, drv)
        bad, nat, exp = native_bad(inputs)
        if bad:
            return [ob.fail({"key": "zz.%s" % name.split("[")[0], "inputs": {k: (hexl(x) if isinstance(x, list) else hex(x)) for k, x in inputs.items()},
                             "native": {k: hexl(x) for k, x in nat.items()}, "expected": {k: hexl(x) for k, x in exp.items()},
                             "found_by": "z3-bv model, replayed natively"}, "z3-bv", time.time() - t0, 1)]
        return [ob.unknown("z3 model does not reproduce natively")]
    for it in range(2000):
        inputs = smp(it)
        bad, nat, exp = native_bad(inputs)
        if bad:
            return [ob.fail({"key": "zz.%s" % name.split("[")[0], "inputs": {k: (hexl(x) if isinstance(x, list) else hex(x)) for k, x in inputs.items()},
                             "native": {k: hexl(x) for k, x in nat.items()}, "expected": {k: hexl(x) for k, x in exp.items()},
                             "found_by": "solver %s; boundary replay on the native build" % v}, "replay", time.time() - t0, 1)]
    return [ob.unknown("solver: %s" % v)]


def check_mul(built, name, timeout):
    drv, fn, na, nb, trunc = MULS[name]
    ob = Obligation("default:zz.%s" % name, "L", ["backend::w64::zz::" + fn], "all limb values",
                    "a * b" + (" mod 2^%d" % trunc if trunc else " (exact, %d bits)" % (64 * (na + nb))))
    t0 = time.time()
    r = rng("zz", name)
    smp = sampler(built, drv, r)
    try:
        T.reset()
        ex, ins, outs = sym_run(built, drv)
        validate(built, drv, outs, smp, 16)
    except ExecError as e:
        return [ob.unknown("executor: %s" % e)]
    enc = IntEnc()
    Rf = word_form(enc, outs["out"], 64)
    A = word_form(enc, ins["a"], 64)
    B = word_form(enc, ins["b"], 64)
    P = enc.product(A, B)

    def native_bad(inputs):
        nat = built.native(drv, inputs)["out"]
        exp = ival(inputs["a"]) * ival(inputs["b"])
        if trunc:
            exp %= 1 << trunc
        return ival(nat) != exp, nat, exp
    if trunc:
        from .lhelp import atom_samples
        samples = atom_samples(enc, built, drv, smp, [(Rf, outs["out"], 64)], 24)
        res = PR.prove_congruence(enc, Rf, P, 1 << trunc, timeout=timeout, samples=samples)
        ok = res.status == "proved"
        why = res.info.get("reason") if not ok else ""
        secs, nq = res.seconds, res.queries
    else:
        res = PR.prove(enc, "(= %s %s)" % (Rf.smt(), P.smt()), timeout=timeout)
        ok = res.status == "proved"
        why = res.status
        secs, nq = res.seconds, res.queries
    if ok:
        return [ob.ok("z3-int (abstract partial products)", secs, nq)]
    for it in range(3000):
        inputs = smp(it)
        bad, nat, exp = native_bad(inputs)
        if bad:
            return [ob.fail({"key": "zz.%s" % name, "inputs": {k: hexl(x) for k, x in inputs.items()}, "native": hexl(nat), "expected": hex(exp),
                             "found_by": "no certificate (%s); boundary replay on the native build" % why}, "replay", time.time() - t0, nq)]
    return [ob.unknown("no certificate: %s" % why)]


def obligations(built, tier, shifts, timeout):
    obs = []
    for name, spec in spec_table(shifts).items():
        obs.extend(check_bv(built, name, spec, timeout))
    for name in MULS:
        obs.extend(check_mul(built, name, timeout))
    return obs
