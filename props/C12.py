"""C12 Field division, inversion, square root and Legendre symbol are correct.

What a bounded solver check can reach here (DESIGN 3 C12): the linear-algebra
steps of the binary GCD -- `lin` (u*f+v*g mod q) and `lindiv31abs`
(|a*f+b*g|/2^31 with sign) -- for ALL operands and update factors, on the
real optimized IR (engine L, integer encoding, abstract partial products),
one obligation per sign case of (f,g).  End-to-end convergence of the
approximate GCD (x/y*y == x) is a proof from the literature, outside.

Two more groups live in their own modules: `batch_invert` over an abstract
field with zeros (engine P on the MIR, props/C12_batch.py) and the tails of
the square-root functions after the exponentiation (engine L, staged cuts,
props/C12_sqrt.py).  `--only lin|batch|sqrt[,tag..]` selects groups."""
import time
from engines.llsym.build import build, Driver
from engines.llsym.intenc import IntEnc, Lin
from engines.llsym import prove as PR
from engines.llsym import terms as T
from engines.llsym.llexec import ExecError
from vlib.common import Obligation, finish, log, NCPU
from vlib.par import pmap
from . import fields as F
from .fields import limbs_int, int_limbs
from .lhelp import sym_run, word_form, atom_samples, rng, hexl, MachineryError, model_inputs, env_from_inputs

HOSTS = {
    "gf25519": ("src/backend/w64/gf255_m64.rs", "GF255::<19>"),
    "gf255e": ("src/backend/w64/gf255_m64.rs", "GF255::<18651>"),
    "gf448": ("src/backend/w64/gf448.rs", "GF448"),
    "gfsecp256k1": ("src/backend/w64/gfsecp256k1.rs", "GFsecp256k1"),
}
QUICK = ["gf25519", "gf448", "gfsecp256k1"]


def lin_drivers(tag):
    host, ty = HOSTS[tag]
    n = F.BYTAG[tag].n
    tmi = lambda v: "unsafe { transmute::<[u64; %d], %s>(*%s) }" % (n, ty, v)
    ds = [
        Driver("drv_%s_lin" % tag, [("a", "in", 8, n), ("b", "in", 8, n), ("f", "val", 8, 1), ("g", "val", 8, 1),
                                    ("out", "out", 8, n)],
               "        let x: %s = %s; let y: %s = %s;\n        let r = <%s>::lin(&x, &y, f, g);\n"
               "        *out = unsafe { transmute::<%s, [u64; %d]>(r) };" % (ty, tmi("a"), ty, tmi("b"), ty, ty, n), host),
        Driver("drv_%s_lindiv" % tag, [("a", "in", 8, n), ("b", "in", 8, n), ("f", "val", 8, 1), ("g", "val", 8, 1),
                                       ("out", "out", 8, n), ("ng", "out", 8, 1)],
               "        let x: %s = %s; let y: %s = %s;\n        let (r, s) = <%s>::lindiv31abs(&x, &y, f, g);\n"
               "        *out = unsafe { transmute::<%s, [u64; %d]>(r) }; ng[0] = s;"
               % (ty, tmi("a"), ty, tmi("b"), ty, ty, n), host),
    ]
    return ds


def signed_arg(name, neg, bound):
    """term for a u64 argument holding a signed value: +v or -v with v in [0|1, bound]"""
    v = T.var(name + ("n" if neg else "p"), 64, 1 if neg else 0, bound)
    return (T.t_sub(0, v, 64) if neg else v), v


def check_lin(built, tag, sf, sg, timeout):
    f = F.BYTAG[tag]
    n, q = f.n, f.q
    drv = "drv_%s_lin" % tag
    name = "default:%s.lin[f%s,g%s]" % (tag, "<0" if sf else ">=0", "<0" if sg else ">=0")
    ob = Obligation(name, "L", ["%s::lin (%s)" % (HOSTS[tag][1], HOSTS[tag][0])],
                    "all limb patterns of u, v; |f|,|g| <= 2^62 in this sign case",
                    "val(lin(u,v,f,g)) == u*f + v*g (mod q)")
    ft, fv = signed_arg("f", sf, 1 << 62)
    gt, gv = signed_arg("g", sg, 1 << 62)
    try:
        ex, ins, outs = sym_run(built, drv, concrete={"f": ft, "g": gt})
    except ExecError as e:
        return [ob.unknown("executor: %s" % e)]
    r = rng("lin", tag, sf, sg)
    W = 1 << (64 * n)

    def inputs(it):
        from .fieldops import boundary_values
        vals = boundary_values(f, r)
        fa = r.choice([1, 1 << 62, r.randrange(1, 1 << 62), 2, (1 << 31)])
        ga = r.choice([1, 1 << 62, r.randrange(1, 1 << 62), 3, (1 << 31) - 1])
        return {"a": int_limbs(r.choice(vals), n), "b": int_limbs(r.choice(vals), n),
                "f": (-fa) % (1 << 64) if sf else (fa if it % 5 else 0), "g": (-ga) % (1 << 64) if sg else (ga if it % 7 else 0)}

    def env_of(inp):
        env = {}
        for nm in ("a", "b"):
            for i, w in enumerate(inp[nm]):
                env["%s%d" % (nm, i)] = w
        fa = (-inp["f"]) % (1 << 64) if sf else inp["f"]
        ga = (-inp["g"]) % (1 << 64) if sg else inp["g"]
        env[fv.aux[0]] = fa
        env[gv.aux[0]] = ga
        return env

    def native_ok(inp):
        nat = built.native(drv, inp)["out"]
        sgn = lambda x: x - (1 << 64) if x >> 63 else x
        exp = (limbs_int(inp["a"]) * sgn(inp["f"]) + limbs_int(inp["b"]) * sgn(inp["g"])) % q
        return limbs_int(nat) % q == exp, {"inputs": {k: hexl(v) for k, v in inp.items()}, "native": hexl(nat),
                                           "expected_value": hex(exp)}
    # translator validation
    for it in range(16):
        inp = inputs(it)
        got = T.evaluate(outs["out"], env_of(inp))
        nat = built.native(drv, inp)["out"]
        if list(got) != list(nat):
            raise MachineryError("translator validation failed for %s: %r" % (drv, inp))
    enc = IntEnc()
    R = word_form(enc, outs["out"], 64)
    A = word_form(enc, ins["a"], 64)
    B = word_form(enc, ins["b"], 64)
    Ff = enc.form(fv)[0]
    Gf = enc.form(gv)[0]
    rhs = enc.product(A, Ff).scale(-1 if sf else 1) + enc.product(B, Gf).scale(-1 if sg else 1)
    samples = []
    for it in range(48):
        ae = enc.eval_atoms(env_of(inputs(it)))
        samples.append(ae)
    try:
        enc.validate_on(samples[0])
    except AssertionError as e:
        raise MachineryError("encoder validation failed for %s: %s" % (drv, e))
    res = PR.prove_congruence(enc, R, rhs, q, timeout=timeout, samples=samples)
    if res.status == "proved":
        return [ob.ok("z3-int (%d lemmas)" % len(res.info.get("lemmas", [])), res.seconds, res.queries)]
    for it in range(400):
        inp = inputs(it)
        ok, det = native_ok(inp)
        if not ok:
            det["key"] = "%s.lin" % tag
            det["found_by"] = "boundary replay after failed certificate"
            return [ob.fail(det, "z3-int+replay", res.seconds)]
    return [ob.unknown("no congruence certificate (%s)" % res.info.get("reason"), "z3-int", res.seconds)]


def check_lindiv(built, tag, sf, sg, timeout):
    f = F.BYTAG[tag]
    n = f.n
    NB = 64 * n
    drv = "drv_%s_lindiv" % tag
    name = "default:%s.lindiv31abs[f%s,g%s]" % (tag, "<0" if sf else ">=0", "<0" if sg else ">=0")
    ob = Obligation(name, "L", ["%s::lindiv31abs (%s)" % (HOSTS[tag][1], HOSTS[tag][0])],
                    "all a, b in [0, 2^%d) (as in the GCD) and |f|,|g| <= 2^31 in this sign case with a*f+b*g divisible by 2^31 and the quotient fitting %d bits" % (NB - 1, NB - 1),
                    "result == |a*f+b*g| / 2^31 exactly, returned word is all-ones iff the sum is negative (else 0)")
    ft, fv = signed_arg("f", sf, 1 << 31)
    gt, gv = signed_arg("g", sg, 1 << 31)
    # operands as used by the GCD: non-negative, top bit clear
    av = [T.var("a%d" % i, 64) for i in range(n - 1)] + [T.var("a%d" % (n - 1), 64, 0, (1 << 63) - 1)]
    bv = [T.var("b%d" % i, 64) for i in range(n - 1)] + [T.var("b%d" % (n - 1), 64, 0, (1 << 63) - 1)]
    try:
        ex, ins, outs = sym_run(built, drv, concrete={"f": ft, "g": gt, "a": av, "b": bv})
    except ExecError as e:
        return [ob.unknown("executor: %s" % e)]
    r = rng("lindiv", tag, sf, sg)
    M64 = (1 << 64) - 1
    HALF = 1 << (NB - 1)

    def inputs(it):
        while True:
            fa = r.choice([1, 1 << 31, r.randrange(1, 1 << 31), 3])
            ga = r.choice([1, (1 << 31) - 1, r.randrange(1, 1 << 31) | 1, 5]) | 1
            Fs, Gs = (-fa if sf else fa), (-ga if sg else ga)
            bits = r.choice([NB - 40, NB - 40, 200, 64, 31, 10])
            A = r.randrange(0, 1 << bits)
            B0 = r.randrange(0, 1 << bits)
            # adjust B so that A*F + B*G == 0 mod 2^31 (G odd)
            need = (-(A * Fs + B0 * Gs)) % (1 << 31)
            B = B0 + (need * pow(Gs % (1 << 31), -1, 1 << 31)) % (1 << 31)
            Tt = A * Fs + B * Gs
            if Tt % (1 << 31) == 0 and abs(Tt >> 31) < HALF and 0 <= B < HALF:
                return {"a": int_limbs(A % (1 << NB), n), "b": int_limbs(B % (1 << NB), n),
                        "f": Fs % (1 << 64), "g": Gs % (1 << 64)}

    def env_of(inp):
        env = {}
        for nm in ("a", "b"):
            for i, w in enumerate(inp[nm]):
                env["%s%d" % (nm, i)] = w
        env[fv.aux[0]] = (-inp["f"]) % (1 << 64) if sf else inp["f"]
        env[gv.aux[0]] = (-inp["g"]) % (1 << 64) if sg else inp["g"]
        return env

    def signed(x, bits):
        return x - (1 << bits) if x >> (bits - 1) else x

    def native_ok(inp):
        nat = built.native(drv, inp)
        Tt = signed(limbs_int(inp["a"]), NB) * signed(inp["f"], 64) + signed(limbs_int(inp["b"]), NB) * signed(inp["g"], 64)
        if Tt % (1 << 31) or abs(Tt >> 31) >= HALF or limbs_int(inp["a"]) >= HALF or limbs_int(inp["b"]) >= HALF:
            return True, {}
        exp = abs(Tt) >> 31
        ok = limbs_int(nat["out"]) == exp and nat["ng"][0] == (M64 if Tt < 0 else 0)
        return ok, {"inputs": {k: hexl(v) for k, v in inp.items()}, "native": hexl(nat["out"]), "ng": hex(nat["ng"][0]),
                    "expected": hex(exp)}
    for it in range(16):
        inp = inputs(it)
        env = env_of(inp)
        nat = built.native(drv, inp)
        if list(T.evaluate(outs["out"], env)) != list(nat["out"]) or T.evaluate(outs["ng"], env)[0] != nat["ng"][0]:
            raise MachineryError("translator validation failed for %s: %r" % (drv, inp))
    enc = IntEnc()
    R = word_form(enc, outs["out"], 64)
    NG = enc.form(outs["ng"][0])[0]
    A = word_form(enc, ins["a"], 64)
    B = word_form(enc, ins["b"], 64)
    # signed values of a, b: subtract 2^NB * top bit
    _, _, _, ta, _, _ = enc.split(enc.form(ins["a"][n - 1])[0], 0, M64, 63)
    _, _, _, tb, _, _ = enc.split(enc.form(ins["b"][n - 1])[0], 0, M64, 63)
    As = A - ta.scale(1 << NB)
    Bs = B - tb.scale(1 << NB)
    Ff = enc.form(fv)[0]
    Gf = enc.form(gv)[0]
    Tf = enc.product(As, Ff).scale(-1 if sf else 1) + enc.product(Bs, Gf).scale(-1 if sg else 1)
    Bn = enc.as_mask(NG, 64)
    if Bn is None:
        return [ob.unknown("returned sign word is not a syntactic mask in the encoding")]
    z, _, _ = enc.bool_times(Bn, R, 0, (1 << NB) - 1)
    signedR = R - z.scale(2)           # R * (1 - 2*neg)
    pre = ["(= (mod %s %d) 0)" % (Tf.smt(), 1 << 31),
           "(< %s %d)" % (Tf.smt(), HALF << 31), "(> %s (- %d))" % (Tf.smt(), HALF << 31)]
    samples = []
    for it in range(48):
        samples.append(enc.eval_atoms(env_of(inputs(it))))
    try:
        enc.validate_on(samples[0], pre)
    except AssertionError as e:
        raise MachineryError("encoder validation failed for %s: %s" % (drv, e))
    BIGQ = 1 << (NB + 400)      # the claim is an exact integer identity: the modulus is out of reach
    res = PR.prove_congruence(enc, signedR.scale(1 << 31), Tf, BIGQ, extra=pre, timeout=timeout, samples=samples)
    if res.status == "proved":
        # sign word: negative sum <=> all-ones (zero sum counts as non-negative)
        r2 = PR.prove(enc, "(and (=> (< %s 0) (= %s 1)) (=> (> %s 0) (= %s 0)))" % (Tf.smt(), Bn.smt(), Tf.smt(), Bn.smt()),
                      extra=pre + ["(= %s %s)" % (signedR.scale(1 << 31).smt(), Tf.smt())], timeout=timeout)
        if r2.status == "proved":
            return [ob.ok("z3-int (%d lemmas)" % len(res.info.get("lemmas", [])), res.seconds + r2.seconds, res.queries + 1)]
        why = "sign word: %s" % r2.status
    else:
        why = "no certificate (%s)" % res.info.get("reason")
    for it in range(400):
        inp = inputs(it)
        ok, det = native_ok(inp)
        if not ok:
            det["key"] = "%s.lindiv31abs" % tag
            det["found_by"] = "boundary replay after " + why
            return [ob.fail(det, "z3-int+replay", res.seconds)]
    return [ob.unknown(why, "z3-int", res.seconds)]


def divleg_drivers(tag):
    """x / y (encoded) and the Legendre symbol, for a closed-case corpus (the end-to-end statements of the binary GCD)"""
    f = F.BYTAG[tag]
    ty, n, L = f.rust, f.n, f.enc_len
    return [Driver("drv_%s_divenc" % tag, [("x", "in", 1, L), ("y", "in", 1, L), ("out", "out", 1, L)],
                   "        let a = <%s>::decode_reduce(&x[..]); let b = <%s>::decode_reduce(&y[..]);\n        *out = (a / b).encode();" % (ty, ty)),
            Driver("drv_%s_legenc" % tag, [("x", "in", 1, L), ("st", "out", 4, 1)],
                   "        let a = <%s>::decode_reduce(&x[..]);\n        st[0] = a.legendre() as u32;" % ty)]


def divleg_corpus(built, tag, tier):
    f = F.BYTAG[tag]
    q, L = f.q, f.enc_len
    ob = Obligation("default:%s.div_legendre:corpus" % tag, "ground", [f.rust + "::set_div", f.rust + "::legendre"],
                    "closed cases: divisors and operands -k and k for k in 1..2000, random k below 2^40, powers of two and their negatives, "
                    "values sharing their top bits with the modulus, random values",
                    "native run: (x / y) * y = x (y != 0), x / 0 = 0; legendre(x) = 0, 1, -1 as Euler's criterion says")
    t0 = time.time()
    r = rng("divleg", tag)
    ys = [0, 1, 2, q - 1, q - 2] + [q - k for k in range(1, 2001)] + list(range(3, 400)) + \
        [q - r.getrandbits(40) for _ in range(3000 if tier == "quick" else 20000)] + \
        [(1 << k) % q for k in range(1, 64 * f.n, 7)] + [q - (1 << k) % q for k in range(1, 64 * f.n, 7)] + \
        [r.randrange(q) for _ in range(300)]
    for i, y in enumerate(ys):
        y %= q
        x = (r.randrange(q) if i % 3 else 1)
        nat = built.native("drv_%s_divenc" % tag, {"x": list(x.to_bytes(L, "little")), "y": list(y.to_bytes(L, "little"))})
        z = int.from_bytes(bytes(nat["out"]), "little")
        want = (x * pow(y, -1, q)) % q if y else 0
        if z != want:
            return [ob.fail({"key": "%s.div" % tag, "inputs": {"x": hex(x), "y": hex(y)}, "native": hex(z), "expected": hex(want),
                             "found_by": "native replay of closed cases"}, "native", time.time() - t0, 0)]
        lg = built.native("drv_%s_legenc" % tag, {"x": list(y.to_bytes(L, "little"))})["st"][0]
        e = 0 if y == 0 else (1 if pow(y, (q - 1) // 2, q) == 1 else 0xFFFFFFFF)
        if lg != e:
            return [ob.fail({"key": "%s.legendre" % tag, "inputs": {"x": hex(y)}, "native": hex(lg), "expected": hex(e),
                             "found_by": "native replay of closed cases"}, "native", time.time() - t0, 0)]
    return [ob.ok("native replay x%d" % len(ys), time.time() - t0, 0, syntactic=True)]


GROUPS = ("lin", "batch", "sqrt")


def run(tier, only=None):
    """--only accepts group names (lin, batch, sqrt) and/or field tags (gf25519, gf448, ...; for batch also the
    backend file name, e.g. modint); no group name = all groups"""
    t0 = time.time()
    only = list(only or [])
    groups = [g for g in GROUPS if g in only] or list(GROUPS)
    keys = [k for k in only if k not in GROUPS]
    from . import C12_batch as CB, C12_sqrt as CS
    tags = [t for t in HOSTS if (tier == "thorough" or t in QUICK) and (not keys or t in keys)] if "lin" in groups else []
    ds = []
    for t in tags:
        ds += lin_drivers(t)
        ds += divleg_drivers(t)
    merr = None
    mir = None
    if "batch" in groups:
        import threading
        from engines.polyid.build import dump_mir
        box = {}

        def _mir():
            try:
                box["mir"] = dump_mir()
            except Exception as e:       # reported below as a machinery error
                box["err"] = "%s: %s" % (type(e).__name__, e)
        th = threading.Thread(target=_mir)
        th.start()
        ds += CB.static_drivers(tier, only)
    if "sqrt" in groups:
        ds += CS.drivers(tier, only)
    # a user-defined ModInt256 instance with q = 5 mod 8 (the property quantifies over user-defined moduli; none of the
    # library's own ModInt256 types exercises the q = 5 mod 8 constants): closed cases, replayed natively
    UQ = 0xC0000000000000010123456789ABCDE6FEDCBA987654321000000000000000E5
    umod = "sqrt" in groups and not keys
    prelude = ""
    if umod:
        prelude = ("    pub type VMod5 = crate::backend::ModInt256<0x00000000000000E5, 0xFEDCBA9876543210, 0x0123456789ABCDE6, 0xC000000000000001>;\n")
        ds.append(Driver("drv_vmod5_sqrt", [("x", "in", 1, 32), ("out", "out", 1, 32), ("st", "out", 4, 1)],
                         "        let v = VMod5::decode_reduce(&x[..]);\n        let (y, r) = v.sqrt();\n        *out = y.encode32(); st[0] = r;"))
    built = build(ds, tag="C12-default", prelude=prelude)
    if "batch" in groups:
        th.join()
        if "mir" in box:
            mir = CB.patch_mir(box["mir"][0])
            log("[C12] MIR dump %.1fs" % box["mir"][1])
        else:
            merr = "MIR dump failed: %s" % box.get("err")
    timeout = 120 if tier == "quick" else 900
    items = [(k, t, sf, sg) for k in ("lin", "lindiv") for t in tags for sf in (0, 1) for sg in (0, 1)
             if not (k == "lindiv" and t == "gf448" and (sf or sg)) or keys]
    if mir is not None:
        items += [("batch",) + w for w in CB.work_items(mir, tier, only)]
    if "sqrt" in groups:
        items += [("sqrt", t, k) for t in CS.tags_for(tier, only) for k in CS.kinds(t)]
    # long items first
    items.sort(key=lambda it: 0 if (it[0] == "batch" and it[4] > 8) else 1)

    def work(it):
        if it[0] == "lin":
            return check_lin(built, it[1], it[2], it[3], timeout)
        if it[0] == "lindiv":
            return check_lindiv(built, it[1], it[2], it[3], timeout)
        if it[0] == "batch":
            return CB.check_one(mir, built, tier, *it[1:])
        return CS.check_tail(built, F.BYTAG[it[1]], it[2], timeout)
    res = pmap(work, items, nproc=NCPU, timeout=timeout * 10)
    obs = []
    for it, (st, val) in zip(items, res):
        if st == "ok":
            obs.extend(val)
        else:
            if it[0] == "batch":
                nm = "default:%s.batch_invert[n=%d]" % (it[2].rsplit("/", 1)[-1][:-3], it[4])
            elif it[0] == "sqrt":
                nm = "default:%s.%s" % (it[1], it[2])
            else:
                nm = "default:%s.%s[%d,%d]" % (it[1], it[0], it[2], it[3])
            o = Obligation(nm, "P" if it[0] == "batch" else "L")
            o.unknown("%s: %s" % (st, str(val)[-400:]))
            obs.append(o)
            if "MachineryError" in str(val):
                merr = str(val)[-600:]
    for t in tags:
        obs.extend(divleg_corpus(built, t, tier))
    if umod:
        ob = Obligation("default:user_modint256_q5mod8.sqrt:corpus", "ground", ["backend::w64::modint::ModInt256::set_sqrt (q = 5 mod 8: make_qm5d8, Atkin)"],
                        "closed cases: a user-defined 256-bit prime q = 5 mod 8 (limbs 2 and 3 differ in their low three bits); 0, small squares, random squares and non-squares",
                        "status all-ones and an even root y with y^2 = x exactly for squares; status 0 and value 0 otherwise")
        r_ = rng("c12umod")
        tc = time.time()
        bad = None
        xs = [0, 1, 4, 9, UQ - 1, 2, 3, 5] + [pow(r_.randrange(2, UQ), 2, UQ) for _ in range(12)] + [r_.randrange(2, UQ) for _ in range(12)]
        for x in xs:
            nat = built.native("drv_vmod5_sqrt", {"x": list(x.to_bytes(32, "little"))})
            y = int.from_bytes(bytes(nat["out"]), "little")
            is_sq = x == 0 or pow(x, (UQ - 1) // 2, UQ) == 1
            good = (nat["st"][0] == 0xFFFFFFFF and y * y % UQ == x and y % 2 == 0 and y < UQ) if is_sq else (nat["st"][0] == 0 and y == 0)
            if not good:
                bad = {"key": "user_modint256_q5mod8.sqrt", "inputs": {"x": hex(x), "q": hex(UQ)}, "native": {"y": hex(y), "status": hex(nat["st"][0])},
                       "is_square": is_sq, "found_by": "native replay of closed cases"}
                break
        (ob.fail(bad, "native", time.time() - tc, 0) if bad else ob.ok("native replay x%d" % len(xs), time.time() - tc, 0, syntactic=True))
        obs.append(ob)
    built.close()
    bounds = {"lin": "all u, v (all limb patterns); all f, g with |f|,|g| <= 2^62, one obligation per sign case",
              "lindiv31abs": "all a, b in [0, 2^(bits-1)) as in the GCD; |f|,|g| <= 2^31 per sign case; exact-division and fit preconditions as documented",
              "batch_invert": CB.BOUNDS, "sqrt": CS.BOUNDS}
    return finish("C12", tier, obs, t0,
                  functions_encoded=sorted(set(fn for o in obs for fn in o.functions)),
                  bounds={k: v for k, v in bounds.items() if (k in ("lin", "lindiv31abs") and "lin" in groups)
                          or (k == "batch_invert" and "batch" in groups) or (k == "sqrt" and "sqrt" in groups)},
                  stubs=(["set_div / invert inside batch_invert: uninterpreted inverse with inv(b)*b = 1 for b != 0, inv(0) = 0"]
                         if "batch" in groups else None),
                  assumptions=["LLVM IR semantics as implemented in engines/llsym (validated natively each run)",
                               "abstract partial products (sound over-approximation)"]
                  + (CB.ASSUMPTIONS if "batch" in groups else []) + (CS.ASSUMPTIONS if "sqrt" in groups else []),
                  outside=["end-to-end x/y*y == x and the Legendre symbol value: convergence of the approximate "
                           "binary GCD is not a bounded solver question (DESIGN 3 C12)",
                           "lindiv31abs of GF448 with a negative factor (no certificate within budget); montylin / lindiv31abs of the Montgomery types; binary-field inversion: not posed"]
                  + CB.OUTSIDE + CS.OUTSIDE,
                  machinery_error=merr)
