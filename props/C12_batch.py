"""C12 (batch inversion): `batch_invert` of every field type equals element-wise inversion with zeros preserved.

Engine P, formula mode.  The MIR of the real `batch_invert` (one body per backend file: gf255_m64 [generic over
MQ, so GF255<19>, GF255e, GF255s at once], modint [generic over the modulus: GFp256 and every ModInt256 scalar
type], gfgen [one body per `define_gfgen!` instance], gf448, gfsecp256k1; whichever the build contains) is executed
on a slice of n abstract ring elements x0..x(n-1).  Field operations are the usual primitives (contracts of
C01/C20): `*`, `*=` are ring products, `iszero` is the Boolean atom "x = 0", `set_cond` an if-then-else; the one
division per sub-batch (`ONE / tt[blen-1]`, i.e. `set_div`) is an uninterpreted inverse `inv(b)` with the contract
                 b != 0  ==>  inv(b) * b = 1            inv(0) = 0
(the end-to-end division theorem, outside this check).  Everything else (sub-batch loop and lengths, the `tt`
array, index arithmetic, bounds checks, the two passes, the conditional copies) is interpreted from the MIR.

Decision: for every zero pattern Z of the inputs (all 2^n patterns for the small lengths, a listed family for the
length above the sub-batch size) the inputs in Z are replaced by 0, every remaining `iszero` atom is resolved (an
atom on a product of non-zero symbols is false in an integral domain; anything else makes the obligation
inconclusive), and for each i
      i in Z      :  result[i] = 0
      i not in Z  :  result[i] * x_i - 1  =  sum_k c_k * (inv_k * b_k - 1)
with cofactors c_k found by sympy (untrusted) and the identity decided by z3 on the unexpanded DAG.
A failed identity is only a candidate: concrete inputs with that zero pattern are run through the natively
compiled function (engine L's cdylib drivers) and compared with Python's modular inverse; only a native
disagreement is a violation.  Every run also cross-checks interpreter, specification and native code on random
inputs (a disagreement that is not explained by a reported candidate is a machinery error)."""
import re, time

import z3

from vlib.common import Obligation
from engines.polyid import terms as R
from engines.polyid.interp import (Interp, Cell, Ref, IntV, BoolV, MaskV, Agg, UNIT, MirError, Unsupported, clone,
                                   strip_generics, short_type)
from engines.polyid.prove import Ideal, prove_zero
from engines.llsym.build import Driver
from . import fields as F
from .fields import limbs_int, int_limbs
from .lhelp import rng, hexl, MachineryError

TIMEOUT_MS = 30000

# native instances per backend file (tag of props/fields.py); the first one is used in the quick tier
NATIVE = {
    "gf255_m64.rs": ["gf25519", "gf255e", "gf255s"],
    "modint.rs": ["gfp256", "sc25519", "scsecp256k1"],
    "gfgen.rs": ["sc448"],
    "gf448.rs": ["gf448"],
    "gfsecp256k1.rs": ["gfsecp256k1"],
}
QUICK_N = [0, 1, 2, 3, 4]
THOROUGH_N = [0, 1, 2, 3, 4, 5, 6, 7, 8]


def patch_mir(mir):
    """rustc prints bounds-check borrows as `&raw const (fake) (*_1)`; the place parser does not know the
    `(fake)` marker (engine file not edited here): drop it from the text before any body is parsed."""
    for i, ln in enumerate(mir.lines):
        if "(fake) " in ln:
            mir.lines[i] = ln.replace("&raw const (fake) ", "&raw const ").replace("&(fake) ", "&")
    return mir


class BInterp(Interp):
    """slice length (`PtrMetadata`) and the abstract inverse"""

    def __init__(self, mir, near_line=0, elem=""):
        Interp.__init__(self, mir, call_hook=self._hook, const_hook=self._const)
        self.elem = elem        # short name of the slice's element type (a field type even if not named GF*/ModInt256)
        self.invs = []          # (symbol name, argument term)
        self._inv_of = {}
        self._near = near_line
        self._cc = {}

    def _const(self, it, text):
        """constants of the backend modules: MIR operands print the full path
        (`backend::w64::gf255_m64::GF255::<MQ>::batch_invert::promoted[2]`, `ed448::scalarmod::Scalar::N`) while
        the items are indexed as `gf255_m64::<impl at ..>::batch_invert::promoted[2]`; function-local consts
        (`SUBLEN` of gfgen) are indexed by their bare name."""
        if text in self._cc:
            return clone(self._cc[text])
        parts = strip_generics(text).split("::")
        if len(parts) >= 2 and parts[-2] == self.elem and parts[-1] in ("ZERO", "ONE", "MINUS_ONE", "TWO"):
            return {"ZERO": R.ZERO, "ONE": R.ONE, "MINUS_ONE": R.const(-1), "TWO": R.const(2)}[parts[-1]]
        try:
            v = self._named_const(text)
        except MirError:
            v = self._fallback_const(text)
        self._cc[text] = v
        return clone(v)

    def _fallback_const(self, text):
        base = strip_generics(text)
        parts = base.split("::")
        last = parts[-1]
        cands = []
        for nm in self.mir.by_last.get(last, []):
            for which, (kind, s, e) in enumerate(self.mir.items[nm]):
                if kind not in ("const", "static", "promoted"):
                    continue
                if nm == last:
                    cands.append((abs(s - self._near), nm, which))       # function-local const: nearest to the body
                    continue
                m = re.fullmatch(r"(\w+)::<impl at [^>]*>::(.*)", nm)
                if not m:
                    continue
                tail = m.group(2).split("::")
                if parts[-len(tail):] != tail:
                    continue
                # the module named in the item must occur in the operand's path, before the type name
                if m.group(1) not in parts[:-len(tail)]:
                    continue
                st = self._impl_self_type(nm[:nm.index(">::") + 1])
                if st and st not in parts:
                    continue
                cands.append((0, nm, which))
        if not cands:
            raise MirError("cannot resolve constant %s" % text)
        cands.sort()
        if len(cands) > 1 and cands[0][0] == cands[1][0]:
            raise MirError("constant %s is ambiguous: %r" % (text, [c[1] for c in cands][:4]))
        _, nm, which = cands[0]
        return self._run_body(self.mir.body(nm, which), [], 2)

    def op_ext(self, op, a, b=None):
        if op == "PtrMetadata" and b is None and isinstance(a, Ref):
            v = a.get()
            if isinstance(v, Agg):
                return IntV(len(v.fields), 64)
        if op in ("AddWithOverflow", "SubWithOverflow", "MulWithOverflow") and isinstance(a, IntV) and \
                isinstance(b, IntV) and not isinstance(a, MaskV) and not isinstance(b, MaskV):
            # compile-time evaluated constants (gfgen's N / SUBLEN) keep their overflow checks
            x = {"A": a.v + b.v, "S": a.v - b.v, "M": a.v * b.v}[op[0]]
            r = IntV(x, a.bits, a.signed)
            return Agg("tuple", [r, BoolV(r.v != x)])
        return NotImplemented

    def inv(self, b):
        if R.is_const(b):
            if b.aux == 0:
                return R.ZERO
            return R.const(1 / b.aux)
        s = self._inv_of.get(b.id)
        if s is None:
            s = "inv%d" % len(self.invs)
            self._inv_of[b.id] = s
            self.invs.append((s, b))
        return R.sym(s)

    def _hook(self, it, fr, cal, args):
        if not (cal.is_field or cal.self_short == self.elem):
            return NotImplemented
        m = cal.method
        fv = self._fv
        if m == "set_div" and len(args) == 2:
            self.prim_count["div"] += 1
            args[0].set(R.mul(fv(args[0]), self.inv(fv(args[1]))))
            return UNIT
        if m == "set_invert" and len(args) == 1:
            self.prim_count["div"] += 1
            args[0].set(self.inv(fv(args[0])))
            return UNIT
        if m == "invert" and len(args) == 1:
            self.prim_count["div"] += 1
            return self.inv(fv(args[0]))
        if cal.trait in ("Div", "DivAssign") and m in ("div", "div_assign") and len(args) == 2:
            # operator impls: the by-value / by-reference variants differ only in the receiver's type, which the
            # generic resolver does not see for a constant operand; pick by the actual argument kinds and run the
            # real impl (it ends in set_div, intercepted above)
            cands = []
            mod = fr.body.name.split("::<impl")[0]
            for nm in self.mir.by_last.get(m, []):
                if not nm.startswith(mod + "::<impl"):
                    continue
                for which, (kind, s, e) in enumerate(self.mir.items[nm]):
                    if kind != "fn":
                        continue
                    b = self.mir.body(nm, which)
                    if len(b.params) == 2 and all(short_type(t)[1] == cal.self_short for _, t in b.params) and \
                            all(t.strip().startswith("&") == isinstance(a, Ref) for (_, t), a in zip(b.params, args)):
                        cands.append((nm, which))
            if len(cands) == 1:
                return self._run_body(self.mir.body(*cands[0]), args, fr.depth + 1)
        if not cal.is_field:
            return self.field_prim(cal, args)     # macro-generated field type (gfgen): same primitives
        return NotImplemented

    def resolve(self, fr, cal, arg_ops):
        try:
            return Interp.resolve(self, fr, cal, arg_ops)
        except MirError:
            # several MIR bodies printed for one item (const fn: const-eval and runtime copies; helper functions
            # nested in a macro-generated function): same name, take the copy nearest to the caller
            mod = fr.body.name.split("::<impl")[0]
            names = set(nm for nm in self.mir.by_last.get(cal.method, [])
                        if nm.startswith(mod + "::<impl") or "::" not in nm)
            if len(names) == 1:
                nm = names.pop()
                here = min(s for (k, s, e) in self.mir.items.get(fr.body.name, [(0, self._near, 0)]))
                best = min(range(len(self.mir.items[nm])), key=lambda w: abs(self.mir.items[nm][w][1] - here))
                return (nm, best)
            raise


def find_bodies(mir):
    """[(label, backend file, item)] for every `batch_invert` function body in the dump"""
    out = []
    for nm in mir.by_last.get("batch_invert", []):
        for which, (kind, s, e) in enumerate(mir.items[nm]):
            if kind != "fn":
                continue
            m = re.search(r"<impl at (src/[^:>]+\.rs):", nm)
            if not m:
                continue
            hdr = mir.lines[s]
            ty = re.search(r"\(_1: &mut \[([^\]]+)\]\)", hdr)
            out.append((ty.group(1) if ty else nm, m.group(1), (nm, which)))
    return out


def sub_batch(mir, item):
    """the sub-batch size of this body (operand of the `(n - i) > SUBLEN` comparison), for the 'one length above'
    obligation; None if not found"""
    nm, which = item
    kind, s, e = mir.items[nm][which]
    for ln in mir.lines[s:e]:
        m = re.search(r"= Gt\(move _\d+, const (.+)\);\s*$", ln)
        if not m:
            continue
        c = m.group(1).strip()
        mm = re.fullmatch(r"(\d+)_usize", c)
        if mm:
            return int(mm.group(1))
        try:
            v = BInterp(mir, near_line=s).const_value(c)
        except (MirError, Unsupported):
            return None
        return v.v if isinstance(v, IntV) else None
    return None


def execute(mir, item, n):
    kind, s0, e0 = mir.items[item[0]][item[1]]
    ty = re.search(r"\(_1: &mut \[([^\]]+)\]\)", mir.lines[s0])
    it = BInterp(mir, near_line=s0, elem=short_type(ty.group(1))[1] if ty else "")
    xs = [R.sym("x%d" % i) for i in range(n)]
    cell = Cell(Agg("array", list(xs)))
    it.run(item, [Ref(cell)])
    res = list(cell.val.fields)
    if len(res) != n:
        raise MirError("slice length changed")
    return it, xs, res


# --------------------------------------------------------------------------
# deciding one zero pattern

class Undecided(Exception):
    pass


def _monomial_nonzero(t, nonzero):
    """is the ite-free term t a non-zero rational times a product of symbols in `nonzero`?  (non-zero in an
    integral domain).  Syntactic: mul/neg/const/sym only."""
    stack = [t]
    while stack:
        u = stack.pop()
        if u.op == "mul":
            stack.extend(u.args)
        elif u.op == "neg":
            stack.append(u.args[0])
        elif u.op == "const":
            if u.aux == 0:
                return False
        elif u.op == "sym":
            if u.aux not in nonzero:
                return False
        else:
            return False
    return True


def decide_pattern(n, xs, res, invs, Z):
    """returns (status, detail, queries, seconds): status 'ok' | 'cand' (identity fails / not decidable)"""
    t0 = time.time()
    zero_map = {"x%d" % i: R.ZERO for i in Z}
    nonzero = set("x%d" % i for i in range(n) if i not in Z)
    nq = 0
    # inverse arguments first (in creation order: an argument may mention earlier inverses)
    hyps, order_inv = [], []
    inv_map = dict(zero_map)

    def res_atom(z):
        a = z.args[0]
        if _monomial_nonzero(a, nonzero):
            return False
        raise Undecided("zero test on %s is not decided by the zero pattern" % (repr(a)[:120],))
    try:
        for s, b in invs:
            b1 = R.substitute([b], inv_map)[0]
            b1 = R.resolve([b1], res_atom)[0]
            if b1 is R.ZERO:
                inv_map[s] = R.ZERO            # inv(0) = 0
            elif _monomial_nonzero(b1, nonzero):
                nonzero.add(s)                 # inv(b) * b = 1 with b != 0: inv(b) != 0
                hyps.append(R.sub(R.mul(R.sym(s), b1), R.ONE))
                order_inv.append(s)
            else:
                raise Undecided("argument of the inversion is not a product of non-zero inputs: %s" % (repr(b1)[:160],))
        out = R.substitute(res, inv_map)
        out = R.resolve(out, res_atom)
    except Undecided as e:
        return "cand", str(e), nq, time.time() - t0
    ideal = Ideal(hyps, order_inv + sorted(nonzero - set(order_inv)))
    bad = []
    for i in range(n):
        if i in Z:
            f = out[i]
        else:
            f = R.sub(R.mul(out[i], xs[i]), R.ONE)
        if f is R.ZERO:
            continue
        r = prove_zero(f, ideal, TIMEOUT_MS)
        nq += r.queries
        if not r.ok:
            bad.append((i, r.status, r.info))
    if bad:
        return "cand", "element(s) %s: %s" % ([b[0] for b in bad], "; ".join("%s %s" % (b[1], b[2]) for b in bad[:2])), nq, time.time() - t0
    return "ok", "", nq, time.time() - t0


def patterns_for(n, sub, tier):
    if n <= 8:
        return [frozenset(i for i in range(n) if (m >> i) & 1) for m in range(1 << n)], "all 2^%d zero patterns" % n
    # above the sub-batch size: a listed family around the block boundary
    pts = sorted(set(p for p in (0, 1, sub // 2, sub - 2, sub - 1, sub, sub + 1, n - 1) if 0 <= p < n))
    pats = [frozenset()]
    pats += [frozenset([p]) for p in pts]
    pats += [frozenset([sub - 1, sub]), frozenset([0, sub - 1]), frozenset(range(sub, n)), frozenset(range(0, sub)),
             frozenset(range(n))]
    pats = [p for p in pats if all(0 <= i < n for i in p)]
    seen, out = set(), []
    for p in pats:
        if p not in seen:
            seen.add(p)
            out.append(p)
    return out, "%d listed zero patterns (none, single zeros at %s, both sides of the block boundary, a whole block, all)" % (len(out), pts)


# --------------------------------------------------------------------------
# native side

def native_driver(tag, n):
    f = F.BYTAG[tag]
    L = f.n
    return Driver("drv_%s_binv%d" % (tag, n), [("a", "in", 8, n * L), ("out", "out", 8, n * L)],
                  "        let mut xs: [%s; %d] = unsafe { transmute::<[u64; %d], [%s; %d]>(*a) };\n"
                  "        <%s>::batch_invert(&mut xs[..]);\n"
                  "        *out = unsafe { transmute::<[%s; %d], [u64; %d]>(xs) };"
                  % (f.rust, n, n * L, f.rust, n, f.rust, f.rust, n, n * L))


def repr_of(f, v, r):
    """a raw representation of the value v (non-canonical ones included for raw types)"""
    if f.kind != "raw":
        return (v * f.R) % f.q
    W = 1 << (64 * f.n)
    reps = [v + k * f.q for k in range(4) if v + k * f.q < W]
    return r.choice(reps) if r.random() < 0.5 else reps[0]


def native_run(built, tag, n, vals, r):
    f = F.BYTAG[tag]
    a = []
    for v in vals:
        a += int_limbs(repr_of(f, v, r), f.n)
    out = built.native("drv_%s_binv%d" % (tag, n), {"a": a})["out"]
    got = []
    for i in range(n):
        X = limbs_int(out[i * f.n:(i + 1) * f.n])
        got.append(f.val(X) if f.valid(X) else None)
    return a, got


def sample_values(f, n, Z, r):
    vals = []
    for i in range(n):
        if i in Z:
            vals.append(0)
        else:
            vals.append(r.choice([1, 2, f.q - 1, r.randrange(1, f.q), r.randrange(1, f.q), r.randrange(1, 1 << 20)]))
    return vals


def native_hunt(built, tag, n, Z, r, count):
    """returns a counterexample detail dict or None"""
    f = F.BYTAG[tag]
    for _ in range(count):
        vals = sample_values(f, n, Z, r)
        a, got = native_run(built, tag, n, vals, r)
        exp = [pow(v, -1, f.q) if v else 0 for v in vals]
        if got != exp:
            i = [k for k in range(n) if got[k] != exp[k]][0]
            return {"inputs": {"a": hexl(a)}, "type": f.rust, "length": n, "values": [hex(v) for v in vals],
                    "element": i, "native_value": (hex(got[i]) if got[i] is not None else "invalid representation"),
                    "expected_value": hex(exp[i]), "zero_pattern": sorted(Z)}
    return None


def cross_check(built, tag, n, interp_out, r, count):
    """interpreter terms evaluated in the concrete field == native == specification, on random inputs.
    returns (number of runs, first disagreement or None)"""
    it, xs, res = interp_out
    f = F.BYTAG[tag]
    for k in range(count):
        Z = frozenset(i for i in range(n) if r.random() < 0.3) if k % 2 else frozenset()
        vals = sample_values(f, n, Z, r)
        env = {"x%d" % i: v for i, v in enumerate(vals)}
        for s, b in it.invs:
            bv = R.evaluate([b], env, f.q)[0]
            env[s] = pow(bv, -1, f.q) if bv else 0
        sym = R.evaluate(res, env, f.q)
        a, got = native_run(built, tag, n, vals, r)
        if list(sym) != list(got):
            return k, {"inputs": {"a": hexl(a)}, "values": [hex(v) for v in vals], "interpreter": [hex(v) for v in sym],
                       "native": [hex(v) if v is not None else None for v in got]}
    return count, None


# --------------------------------------------------------------------------

def lengths(tier):
    return QUICK_N if tier == "quick" else THOROUGH_N


def native_tags(fname, tier):
    base = fname.rsplit("/", 1)[-1]
    tags = NATIVE.get(base, [])
    return tags[:1] if tier == "quick" else tags


def _selected(only, label, fname, tag=None):
    keys = [k for k in only if k not in ("batch", "sqrt", "lin")]
    if not keys:
        return True
    base = fname.rsplit("/", 1)[-1]
    return any(k == tag or k == base or k == base[:-3] or k == label for k in keys)


def work_items(mir, tier, only=None):
    items = []
    for label, fname, item in find_bodies(mir):
        tags = [t for t in native_tags(fname, tier) if not only or _selected(only, label, fname, t)]
        if only and not tags and not _selected(only, label, fname):
            continue
        sub = sub_batch(mir, item)
        ns = list(lengths(tier))
        if tier != "quick" and sub:
            ns.append(sub + 1)
        for n in ns:
            items.append((label, fname, item, n, sub, tags))
    return items


def check_one(mir, built, tier, label, fname, item, n, sub, tags):
    base = fname.rsplit("/", 1)[-1]
    tags = [t for t in tags if ("drv_%s_binv%d" % (t, n)) in built.drivers]
    name = "default:%s.batch_invert[n=%d]" % (base[:-3], n)
    fn = "%s::batch_invert (%s)" % (label, fname)
    t0 = time.time()
    try:
        it, xs, res = execute(mir, item, n)
    except (MirError, Unsupported, RecursionError) as e:
        ob = Obligation(name, "P", [fn], "slice length %d" % n, "result[i] = 1/x[i], zeros preserved")
        if "assertion failed" in str(e) and n:
            # a bounds check (or another MIR assert) fails for this length whatever the data: a panic candidate
            from .lhelp import native_crashes
            r = rng("binv", label, n)
            for tag in tags:
                f = F.BYTAG[tag]
                a = []
                for v in sample_values(f, n, frozenset(), r):
                    a += int_limbs(repr_of(f, v, r), f.n)
                crashed, msg = native_crashes(built, "drv_%s_binv%d" % (tag, n), {"a": a})
                if crashed:
                    return [ob.fail({"key": "%s.batch_invert" % base[:-3], "inputs": {"a": hexl(a)}, "length": n, "type": f.rust,
                                     "native": "panic: " + msg[-200:], "found_by": "MIR assert fails (%s); native run aborts" % str(e)[:160],
                                     "driver": "drv_%s_binv%d" % (tag, n)}, "interp+native", time.time() - t0, 0)]
        return [ob.unknown("interpreter: %s" % str(e)[:300])]
    if n == 0:
        ob = Obligation(name, "P", [fn], "empty slice", "returns without touching anything (no index or arithmetic panic)")
        return [ob.ok("MIR executed: no statement beyond the loop test", time.time() - t0, 0, syntactic=True)]
    pats, pdesc = patterns_for(n, sub or (1 << 30), tier)
    nblocks = len(it.invs)
    ob = Obligation(name, "P", [fn],
                    "slice length %d (%d sub-batch%s of at most %s), all elements symbolic, %s"
                    % (n, nblocks, "es" if nblocks != 1 else "", sub, pdesc),
                    "for every zero pattern Z: result[i]*x[i] = 1 for i not in Z, result[i] = 0 for i in Z "
                    "(abstract field with inv(b)*b = 1 for b != 0, inv(0) = 0; MIR executed: %d products, %d zero tests, "
                    "%d selections, %d division(s))" % (it.prim_count["mul"], it.prim_count["iszero"],
                                                        it.prim_count["select"], it.prim_count["div"]))
    # vacuity guards
    exp_div = 0 if n == 0 else (n + (sub or n) - 1) // (sub or n)
    if it.prim_count["div"] != exp_div or len(it.invs) != exp_div:
        # not the documented structure (one inversion per sub-batch): still decided below, but say so
        ob.desc += " [note: %d inversions for %d sub-batches]" % (len(it.invs), exp_div)
    if it.prim_count["iszero"] == 0 or it.prim_count["select"] == 0:
        raise MachineryError("batch_invert %s n=%d executed without zero tests/selections (interpreter did not see the code)" % (label, n))
    nq, cands = 0, []
    for Z in pats:
        st, det, q, _ = decide_pattern(n, xs, res, it.invs, Z)
        nq += q
        if st != "ok":
            cands.append((Z, det))
    r = rng("binv", label, n)
    nruns = 0
    for tag in tags:
        k, bad = cross_check(built, tag, n, (it, xs, res), r, 6 if n <= 8 else 2)
        nruns += k
        if bad is not None:
            # interpreter and native code disagree: the abstraction (not the code) is wrong
            raise MachineryError("batch_invert %s n=%d: interpreter != native on %r" % (tag, n, bad))
    secs = time.time() - t0
    if not cands:
        # specification == native on the same runs (a discharged obligation contradicted natively is a machinery error)
        for tag in tags:
            cex = native_hunt(built, tag, n, frozenset(), r, 2)
            if cex is not None:
                raise MachineryError("batch_invert %s n=%d discharged but native run disagrees: %r" % (tag, n, cex))
        ob.desc += " [interpreter == native on %d runs]" % nruns
        return [ob.ok("sympy cofactors + %s" % ("z3 " + z3.get_version_string()), secs, nq)]
    # candidates: native confirmation with the failing zero patterns
    for Z, det in cands[:6]:
        for tag in tags:
            cex = native_hunt(built, tag, n, Z, r, 24 if n <= 8 else 4)
            if cex is not None:
                cex["key"] = "%s.batch_invert" % base[:-3]
                cex["found_by"] = "identity fails for zero pattern %s (%s); native run of %s" % (sorted(Z), det[:200], tag)
                cex["driver"] = "drv_%s_binv%d" % (tag, n)
                return [ob.fail(cex, "z3+native", secs, nq)]
    Z, det = cands[0]
    return [ob.unknown("%d zero pattern(s) undecided, first %s: %s; native runs agree with the specification"
                       % (len(cands), sorted(Z), det[:300]), "z3", secs, nq)]


BOUNDS = ("batch_invert: slice lengths 0..4 (quick) / 0..8 and sub-batch size + 1 (thorough: 201, 201, 201, 101, 147), every element an "
          "arbitrary field element (abstract), all zero patterns for lengths <= 8, a listed family for the long one; "
          "one MIR body per backend file, so every instantiation of GF255<MQ> / ModInt256<..> is covered by its generic body")
ASSUMPTIONS = ["batch_invert: field multiplication, iszero, set_cond are the C01/C20 contracts (abstract commutative ring, "
               "Boolean zero test, if-then-else); set_div(x, y) = x * inv(y) with inv(y)*y = 1 for y != 0 and inv(0) = 0 "
               "(end-to-end division: outside); the field is an integral domain (a product of non-zero elements is non-zero)",
               "MIR semantics as implemented in engines/polyid/interp.py (cross-checked against the native build on every run)"]
OUTSIDE = ["batch_invert for slice lengths other than those listed (no induction over the length is attempted); "
           "backends not in the default build (gf255_m51, w32, modint32, the disabled gfp256.rs); gfgen instances other "
           "than those the crate defines"]


def static_drivers(tier, only=None):
    """native drivers, decided before the MIR dump is available (it runs concurrently with the build): every
    instance listed in NATIVE, the lengths of the tier and -- thorough -- the documented sub-batch sizes + 1"""
    sub = {"gf255_m64.rs": 200, "modint.rs": 200, "gfsecp256k1.rs": 200, "gf448.rs": 100, "gfgen.rs": None}
    ds = []
    for base, tags in NATIVE.items():
        for tag in (tags[:1] if tier == "quick" else tags):
            if only and not _selected(only, "", base, tag):
                continue
            ns = list(lengths(tier))
            if tier != "quick":
                s = sub[base] if sub[base] else 1024 // F.BYTAG[tag].n
                ns.append(s + 1)
            for n in ns:
                if n:
                    ds.append(native_driver(tag, n))
    return ds
