"""C12 (square roots): the tail of `sqrt` / `sqrt_ext` after the exponentiation, on the real optimized IR.

Engine L.  The whole function (exponentiation chain included: 250-450 inlined squarings) is executed symbolically
from the driver `x.sqrt()`; the *candidate root* y (the value the chain hands to the tail) is located in the term
DAG by its values on sampled runs (the specification side computes x^((q+1)/4), resp. Atkin's candidate, only to
find it) as the earliest set of 64-bit nodes that (i) hold a representation of the candidate on every sample and
(ii) separate the outputs from the exponentiation (cutting them leaves a tail of a few hundred nodes that
depends on nothing but them and the input x).  The located nodes are replaced by fresh variables Y (all 2^256 /
2^448 limb patterns; for Montgomery types all values below the modulus), then the tail is decided stage by stage
(staged cuts, as in props/C11_theta.py: each stage's nodes are located by value, proved equal to their
specification over the previous stage's fresh variables, and replaced by fresh variables of the same width):

   normalise   N = canonical(Y):  N == Y (mod q), 0 <= N < q                                   (LIA)
   sign        S = N if N even, S == -N (mod q) if N odd; so canonical(S) is even (q odd)       (LIA)
   square      Q == S*S (mod q)   (abstract 64x64 partial products, as C01)                     (LIA)
   status      D == Q - x (mod q);  status = 0xFFFFFFFF iff D in {0, q, 2q, ..}, else exactly 0  (LIA + BV)
   result      sqrt: out = S if status else 0 (limbs);  sqrt_ext: out = S                      (BV)

Composition (meta-argument, stated in the evidence): status = all-ones  <=>  y^2 = x;  the returned element is
+-y with an even canonical representative, or 0 (sqrt) when the status is 0.  Because Y is arbitrary this holds
whatever the exponentiation computes: "all-ones => x is a square and the result is its even root" is
unconditional; "x square => all-ones" and "non-square => y^2 = -x (resp. +-2x)" need y = x^((q+1)/4) (resp.
Atkin's candidate), i.e. the exponent arithmetic and Euler's criterion: outside (checked natively on a corpus).

Montgomery type (GFp256 = ModInt256, thorough tier): limbs hold v*R mod q below q; the parity test reads
`encode32()[0] & 1`, of which only the low limb survives dead-code elimination.  Stage `parity` replaces `normalise`:
the parity word is proved bit-identical (z3-bv) to `encode(Y)[0] & 1` of the real `encode` executed on the same
variables, and `encode` is proved to return the canonical integer (R*E == Y mod q, E < q; LIA).  `status` is a limb
comparison (both sides canonical).  The Montgomery squaring stage is posed but does not close (C01's open item).

A stage that cannot be located or proved is only a candidate: the native build is run on special and random
inputs against the documented contract; only a native disagreement is a violation."""
import time

from engines.llsym.build import Driver
from engines.llsym import terms as T
from engines.llsym.llexec import ExecError
from engines.llsym.intenc import IntEnc
from engines.llsym import prove as PR
from engines.llsym.smt import BVEmitter, run_solver, bvc
from vlib.common import Obligation
from . import fields as F
from .fields import limbs_int, int_limbs
from .lhelp import sym_run, word_form, rng, hexl, MachineryError

M64 = (1 << 64) - 1
ALL1 = 0xFFFFFFFF
RAW_QUICK = ["gf25519", "gf448", "gfsecp256k1"]
RAW_ALL = ["gf25519", "gf255e", "gf255s", "gf448", "gfsecp256k1"]
HAS_EXT = {"gf25519", "gf255e", "gf255s", "gf448"}
# Montgomery types: only GFp256 (thorough tier; its squaring stage is a known open item, DESIGN 8.3).  Measured
# and not posed: the ModInt256 scalar fields with q = 3 mod 4 / 5 mod 8 (ed25519, jq255e/s, gls254 scalars: the
# parity word vs encode()[0] & 1 is a miter of two differently specialised Montgomery reductions with 64-bit
# constant multipliers: z3-bv times out at 120 s), ed448::Scalar (gfgen: the optimized sqrt has a data-dependent
# branch, C02's known finding, the executor stops), P-256 / secp256k1 scalars (q = 1 mod 8: `unimplemented!()`)
MONTY = ["gfp256"]


def sqrt_driver(f, kind):
    ty, n = f.rust, f.n
    return Driver("drv_%s_%s" % (f.tag, kind), [("a", "in", 8, n), ("out", "out", 8, n), ("st", "out", 4, 1)],
                  "        let x: %s = unsafe { transmute::<[u64; %d], %s>(*a) };\n"
                  "        let (r, c) = x.%s();\n"
                  "        *out = unsafe { transmute::<%s, [u64; %d]>(r) }; st[0] = c;" % (ty, n, ty, kind, ty, n))


def kinds(tag):
    return ["sqrt", "sqrt_ext"] if tag in HAS_EXT else ["sqrt"]


def tags_for(tier, only=None):
    tags = RAW_QUICK if tier == "quick" else RAW_ALL + MONTY
    keys = [k for k in (only or []) if k not in ("batch", "sqrt", "lin")]
    if keys:
        return [t for t in RAW_ALL + MONTY if t in keys]      # a named type is posed in either tier
    return tags


def drivers(tier, only=None):
    ds = [sqrt_driver(F.BYTAG[t], k) for t in tags_for(tier, only) for k in kinds(t)]
    ds += [F.encode_driver(F.BYTAG[t]) for t in tags_for(tier, only) if F.BYTAG[t].kind != "raw"]
    return ds


# --------------------------------------------------------------------------
# specification side (used to *locate* values and to judge native runs; never to prove anything)

def cand_value(f, xv):
    """the candidate root the documented algorithm hands to the tail"""
    q = f.q
    if q % 4 == 3:
        return pow(xv, (q + 1) // 4, q)
    b = pow(2 * xv, (q - 5) // 8, q)          # q = 5 mod 8: Atkin
    c = 2 * xv * b * b % q
    modint = f.kind != "raw" and f.n == 4     # ModInt256 has no c' = 3 substitution (its sqrt returns 0 on failure)
    cp = 3 if (c in (1, q - 1) and not modint) else c
    return xv * b * (cp - 1) % q


def is_square(f, xv):
    return xv == 0 or pow(xv, (f.q - 1) // 2, f.q) == 1


def even_rep(f, v):
    return v if v % 2 == 0 else f.q - v


def contract_ok(f, kind, X, out, st):
    """documented contract of sqrt / sqrt_ext on raw input limbs X (int) -> (ok, expected description)"""
    q = f.q
    xv = f.val(X)
    O = limbs_int(out)
    if not f.valid(O):
        return False, "result is not a valid representation"
    ov = f.val(O)
    if is_square(f, xv):
        if st != ALL1:
            return False, "x is a square: status must be 0xFFFFFFFF"
        if ov * ov % q != xv or ov % 2:
            return False, "x is a square: result must be the root with even canonical value"
        return True, ""
    if st != 0:
        return False, "x is not a square: status must be 0"
    if kind == "sqrt":
        return (ov == 0), "x is not a square: result must be 0"
    sub = [(-xv) % q] if q % 4 == 3 else [2 * xv % q, (-2 * xv) % q]
    return (ov * ov % q in sub and ov % 2 == 0), "x is not a square: result must be the even root of %s" % (
        "-x" if q % 4 == 3 else "2x or -2x")


def corpus(f, r, count):
    q, n = f.q, f.n
    W = 1 << (64 * n)
    vals = [0, 1, 2, 3, 4, 9, 16, 25, q - 1, q - 2, q - 4, (q - 1) // 2, (q + 1) // 2]
    vals += [k * k % q for k in range(5, 40)]
    vals += [(q - k) * (q - k) % q for k in range(1, 6)]
    while len(vals) < count:
        v = r.randrange(q)
        vals.append(v * v % q if r.random() < 0.5 else v)
    out = []
    for v in vals:
        if f.kind == "raw":
            reps = [v + k * q for k in range(8) if v + k * q < W]
            out.append(reps[0])
            if len(reps) > 1:
                out.append(r.choice(reps[1:]))
        else:
            out.append(v * f.R % q)
    return out


def native_hunt(built, f, kind, r, count=160):
    drv = "drv_%s_%s" % (f.tag, kind)
    n = 0
    for X in corpus(f, r, count):
        nat = built.native(drv, {"a": int_limbs(X, f.n)})
        n += 1
        ok, why = contract_ok(f, kind, X, nat["out"], nat["st"][0])
        if not ok:
            return n, {"inputs": {"a": hexl(int_limbs(X, f.n))}, "value": hex(f.val(X)), "native_out": hexl(nat["out"]),
                       "native_value": hex(f.val(limbs_int(nat["out"]))) if f.valid(limbs_int(nat["out"])) else None,
                       "native_status": hex(nat["st"][0]), "expected": why, "driver": drv}
    return n, None


# --------------------------------------------------------------------------
# locating values in the DAG

def reps_of(f, v):
    if f.kind == "raw":
        W = 1 << (64 * f.n)
        return [v + k * f.q for k in range(8) if v + k * f.q < W]
    return [v * f.R % f.q]


class Chain:
    def __init__(self, f, roots, envs, Xs):
        self.f, self.roots, self.envs, self.Xs = f, list(roots), envs, Xs
        self.spec = []
        for X in Xs:
            xv = f.val(X)
            c = cand_value(f, xv)
            e = even_rep(f, c)
            self.spec.append({"y": reps_of(f, c), "yn": [c], "ys": reps_of(f, e), "sq": reps_of(f, e * e % f.q),
                              "d": reps_of(f, (e * e - xv) % f.q)})

    def terms(self):
        return [x for x in self.roots if isinstance(x, T.Term)]

    def candidates(self, stage, memos=None):
        big = self.terms()
        if memos is None:
            memos = [T.evaluate_all(big, e) for e in self.envs]
        order = T.topo(big)
        pos = {t.id: k for k, t in enumerate(order)}
        res = []
        for i in range(self.f.n):
            alts = [set((rv >> (64 * i)) & M64 for rv in s[stage]) for s in self.spec]
            res.append([t for t in order if t.op != "var" and t.w == 64
                        and all(m[t.id] in a for m, a in zip(memos, alts))])
        return res, pos, len(order)

    @staticmethod
    def reach(roots, stop, limit):
        seen = set()
        stack = [x for x in roots if isinstance(x, T.Term)]
        while stack:
            t = stack.pop()
            if t.id in seen or t.id in stop:
                continue
            seen.add(t.id)
            if len(seen) > limit:
                return None
            for a in t.args:
                if isinstance(a, T.Term):
                    stack.append(a)
        return seen

    def separator(self, stage="y", memos=None):
        """earliest candidate nodes (one per limb) whose removal leaves a small tail"""
        cs, pos, full = self.candidates(stage, memos)
        if any(not c for c in cs):
            return None, "no node holds limb %d of the candidate on the sampled runs" % [i for i, c in enumerate(cs) if not c][0]
        limit = max(4000, full // 8)
        if full <= limit:
            return None, "the function is too small to contain an exponentiation (%d nodes)" % full
        S = {t.id: (i, t) for i, c in enumerate(cs) for t in c}
        if self.reach(self.roots, set(S), limit) is None:
            return None, "the nodes holding the candidate do not separate the outputs from the exponentiation"
        for i, t in sorted(S.values(), key=lambda it: -pos[it[1].id]):
            if self.reach(self.roots, set(S) - {t.id}, limit) is not None:
                del S[t.id]
        per = [[t for (j, t) in S.values() if j == i] for i in range(self.f.n)]
        if any(len(p) != 1 for p in per):
            return None, "separator is not one node per limb (%r)" % [len(p) for p in per]
        return [p[0] for p in per], "%d-node function, tail of %d nodes" % (
            full, len(self.reach(self.roots, set(t.id for p in per for t in p), limit)))

    def latest(self, stage, allowed):
        """latest candidate per limb whose cone is closed over the allowed variables"""
        cs, pos, _ = self.candidates(stage)
        out = []
        for i, c in enumerate(cs):
            pick = None
            for t in reversed(c):
                if set(v.aux[0] for v in T.variables([t])) <= allowed:
                    pick = t
                    break
            if pick is None:
                return None, "stage '%s': limb %d not located (%d candidates)" % (stage, i, len(c))
            out.append(pick)
        return out, ""

    def cut(self, nodes, prefix, bounds=None):
        vs = [T.var("%s%d" % (prefix, i), t.w) for i, t in enumerate(nodes)]
        for e in self.envs:
            m = T.evaluate_all(nodes, e)
            for i, t in enumerate(nodes):
                e["%s%d" % (prefix, i)] = m[t.id]
        self.roots = T.substitute(self.roots, {t.id: v for t, v in zip(nodes, vs)})
        return vs


def _concat(em, vs):
    s = em.ref(vs[0], 64)
    for v in vs[1:]:
        s = "(concat %s %s)" % (em.ref(v, 64), s)
    return s


def _names(prefix, n):
    return set("%s%d" % (prefix, i) for i in range(n))


# --------------------------------------------------------------------------

def check_tail(built, f, kind, timeout):
    """returns the list of obligations for one (type, function)"""
    if f.kind != "raw":
        return check_tail_monty(built, f, kind, timeout)
    tag, n, q = f.tag, f.n, f.q
    drv = "drv_%s_%s" % (tag, kind)
    fn = ["%s::%s (via driver %s; set_sqrt%s inlined)" % (f.rust, kind, drv, "_ext" if tag in HAS_EXT else "")]
    NB = 64 * n
    dom = "all %d-bit limb patterns of the candidate root and of x" % NB
    base = "default:%s.%s" % (tag, kind)
    ob_n = Obligation(base + ":normalise", "L", fn, dom, "N := normalised candidate: N == Y (mod q) and 0 <= N < q")
    ob_s = Obligation(base + ":sign", "L", fn, "all N < q", "S = N when N is even; S == -N (mod q) when N is odd "
                      "(hence the canonical value of S is even: q is odd)")
    ob_q = Obligation(base + ":square", "L", fn, "all %d-bit limb patterns of S" % NB, "Q == S*S (mod q)")
    ob_t = Obligation(base + ":status", "L", fn, "all %d-bit limb patterns of Q and x" % NB,
                      "D == Q - x (mod q); status == 0xFFFFFFFF iff D is a multiple of q, else exactly 0 "
                      "[with the stages above: status all-ones <=> y^2 == x (mod q)]")
    ob_r = Obligation(base + ":result", "L", fn, "all %d-bit limb patterns of S, D" % NB,
                      "returned limbs == S if status is all-ones else 0" if kind == "sqrt" else
                      "returned limbs == S (the even representative of +-y) whatever the status")
    ob_c = Obligation(base + ":corpus", "native", fn, "special values (0, small squares, q-k, non-canonical "
                      "representations) and random squares / non-squares",
                      "documented contract on the native build (ground facts, not solver coverage): status all-ones and "
                      "even root exactly for squares; otherwise status 0 and 0 (sqrt) / the even root of -x resp. +-2x (sqrt_ext)")
    obs = [ob_n, ob_s, ob_q, ob_t, ob_r, ob_c]
    r = rng("sqrt", tag, kind)
    t0 = time.time()
    nrun, cex = native_hunt(built, f, kind, r)
    if cex is None:
        ob_c.ok("native replay (%d runs)" % nrun, time.time() - t0, 0, syntactic=True)
    else:
        cex["key"] = "%s.%s" % (tag, kind)
        cex["found_by"] = "native corpus"
        ob_c.fail(cex, "native", time.time() - t0, 0)

    def give_up(first, why, rest):
        """`first` could not be decided: native confirmation or inconclusive; later stages were not reached"""
        if cex is not None:
            cex.setdefault("solver_diagnosis", why[:300])
            first.unknown("%s; the native corpus shows a contract violation (reported under %s:corpus)" % (why, base))
        else:
            first.unknown("%s; the native build meets the contract on %d corpus inputs" % (why, nrun))
        for o in rest:
            if o.verdict == "inconclusive" and not o.reason:
                o.unknown("not reached: %s" % why[:160])
        return obs

    try:
        T.reset()
        ex, ins, outs = sym_run(built, drv)
    except ExecError as e:
        return give_up(ob_n, "executor: %s" % e, obs[1:5])
    W = 1 << NB
    # sampled runs used to locate values: candidates of both parities, squares and non-squares (otherwise two
    # stages could hold the same values on every sample)
    Xs, quota = [], {(0, 0): 2, (0, 1): 2, (1, 0): 2, (1, 1): 2}
    for _ in range(4000):
        X = r.getrandbits(NB) if f.kind == "raw" else r.randrange(q)
        k = (cand_value(f, f.val(X)) & 1, int(is_square(f, f.val(X))))
        if quota[k]:
            quota[k] -= 1
            Xs.append(X)
        if len(Xs) == 8:
            break
    envs = [{"a%d" % i: w for i, w in enumerate(int_limbs(X, n))} for X in Xs]
    ch = Chain(f, list(outs["out"]) + list(outs["st"]), envs, Xs)
    # one concrete evaluation of the whole DAG per sample: translator validation (== native) and value signatures
    memos = [T.evaluate_all(ch.terms(), e) for e in envs]
    for X, m in zip(Xs, memos):
        nat = built.native(drv, {"a": int_limbs(X, n)})
        got = [m[t.id] if isinstance(t, T.Term) else t for t in ch.roots]
        if got != list(nat["out"]) + list(nat["st"]):
            raise MachineryError("translator validation failed for %s on %s: dag=%r native=%r" % (drv, hex(X), got, nat))
    A = _names("a", n)
    # ---- cut at the candidate
    ynodes, info = ch.separator("y", memos)
    del memos
    if ynodes is None:
        return give_up(ob_n, "candidate root not located: %s" % info, obs[1:5])
    Y = ch.cut(ynodes, "Y")
    left = set(v.aux[0] for v in T.variables(ch.terms()))
    if not left <= (_names("Y", n) | A):
        raise MachineryError("%s: tail depends on %r" % (drv, sorted(left)))
    for o in obs[:5]:
        o.desc += " [candidate cut: %s]" % info
    # ---- normalise
    yn, why = ch.latest("yn", _names("Y", n))
    if yn is None:
        return give_up(ob_n, "the normalised candidate is not in the DAG (%s)" % why, obs[1:5])
    t1 = time.time()
    enc = IntEnc()
    YN, YY = word_form(enc, yn, 64), word_form(enc, Y, 64)
    samples = [enc.eval_atoms(e) for e in envs] + stage_samples(enc, f, r, ["Y"])
    _selfcheck(enc, samples, drv)
    res = PR.prove_congruence(enc, YN, YY, q, timeout=timeout, samples=samples)
    r2 = PR.prove(enc, "(<= 0 %s %d)" % (YN.smt(), q - 1), timeout=timeout) if res.status == "proved" else None
    if res.status == "proved" and r2.status == "proved":
        ob_n.ok("z3-int (%d lemmas)" % len(res.info.get("lemmas", [])), time.time() - t1, res.queries + 1)
    else:
        return give_up(ob_n, "normalisation: congruence %s, range %s" % (res.status, r2.status if r2 else "-"), obs[1:5])
    Nv = ch.cut(yn, "N")
    # ---- sign
    ys, why = ch.latest("ys", _names("N", n))
    if ys is None:
        return give_up(ob_s, "the sign-adjusted root is not in the DAG (%s)" % why, obs[2:5])
    t1 = time.time()
    enc = IntEnc()
    YS, Nf = word_form(enc, ys, 64), word_form(enc, Nv, 64)
    lsb = enc.split(enc.form(Nv[0])[0], 0, M64, 1)[0]
    below = "(< %s %d)" % (Nf.smt(), q)
    samples = [enc.eval_atoms(e) for e in envs] + stage_samples(enc, f, r, ["N"], below=True)
    _selfcheck(enc, samples, drv, [below])
    _casecheck(enc, samples, drv, lambda s_: lsb.eval(s_) == 0 and Nf.eval(s_) < q, [below, "(= %s 0)" % lsb.smt()])
    _casecheck(enc, samples, drv, lambda s_: lsb.eval(s_) == 1 and Nf.eval(s_) < q, [below, "(= %s 1)" % lsb.smt()])
    ra = PR.prove(enc, "(= %s %s)" % (YS.smt(), Nf.smt()), extra=[below, "(= %s 0)" % lsb.smt()], timeout=timeout)
    rb = PR.prove_congruence(enc, YS, -Nf, q, extra=[below, "(= %s 1)" % lsb.smt()], timeout=timeout,
                             samples=[s for s in samples if lsb.eval(s) == 1])
    if ra.status == "proved" and rb.status == "proved" and q % 2 == 1:
        ob_s.ok("z3-int", time.time() - t1, 1 + rb.queries)
    else:
        return give_up(ob_s, "sign stage: even case %s, odd case %s" % (ra.status, rb.status), obs[2:5])
    Sv = ch.cut(ys, "S")
    # ---- square
    sq, why = ch.latest("sq", _names("S", n))
    if sq is None:
        return give_up(ob_q, "the square of the root is not in the DAG (%s)" % why, obs[3:5])
    t1 = time.time()
    enc = IntEnc()
    SQ, Sf = word_form(enc, sq, 64), word_form(enc, Sv, 64)
    samples = [enc.eval_atoms(e) for e in envs] + stage_samples(enc, f, r, ["S"])
    _selfcheck(enc, samples, drv)
    res = PR.prove_congruence(enc, SQ, enc.product(Sf, Sf), q, timeout=timeout, samples=samples)
    if res.status == "proved":
        ob_q.ok("z3-int (%d lemmas, abstract partial products)" % len(res.info.get("lemmas", [])), time.time() - t1, res.queries)
    else:
        return give_up(ob_q, "square: %s (%s)" % (res.status, res.info.get("reason")), obs[3:5])
    Qv = ch.cut(sq, "Q")
    # ---- status
    d, why = ch.latest("d", _names("Q", n) | A)
    if d is None:
        return give_up(ob_t, "the difference Q - x is not in the DAG (%s)" % why, obs[4:5])
    t1 = time.time()
    enc = IntEnc()
    D, Qf, Af = word_form(enc, d, 64), word_form(enc, Qv, 64), word_form(enc, ins["a"], 64)
    samples = [enc.eval_atoms(e) for e in envs] + stage_samples(enc, f, r, ["Q", "a"])
    _selfcheck(enc, samples, drv)
    res = PR.prove_congruence(enc, D, Qf - Af, q, timeout=timeout, samples=samples)
    if res.status != "proved":
        return give_up(ob_t, "comparison: D == Q - x (mod q) %s (%s)" % (res.status, res.info.get("reason")), obs[4:5])
    Dv = ch.cut(d, "D")
    st = ch.roots[n]
    if not isinstance(st, T.Term) or not set(v.aux[0] for v in T.variables([st])) <= _names("D", n):
        return give_up(ob_t, "status word does not depend on the difference only", obs[4:5])
    em = BVEmitter()
    Dbv = _concat(em, Dv)
    zs = [k * q for k in range(8) if k * q < W]
    isz = "(or %s)" % " ".join("(= %s %s)" % (Dbv, bvc(z, NB)) for z in zs)
    v, mod, dt = run_solver(em.script(["(distinct %s (ite %s %s %s))" % (em.ref(st, 32), isz, bvc(ALL1, 32), bvc(0, 32))]),
                            "z3", timeout)
    if v != "unsat":
        return give_up(ob_t, "status word is not 'D in {k*q}' (%s)" % v, obs[4:5])
    ob_t.ok("z3-int (%d lemmas) + z3-bv" % len(res.info.get("lemmas", [])), time.time() - t1, res.queries + 1)
    # ---- result
    t1 = time.time()
    outs_ = ch.roots[:n]
    okv = set(v_.aux[0] for v_ in T.variables(outs_)) <= (_names("S", n) | _names("D", n))
    if not okv:
        return give_up(ob_r, "returned limbs depend on more than S and the comparison", [])
    em = BVEmitter()
    diffs = []
    for i in range(n):
        want = ("(ite (= %s %s) %s %s)" % (em.ref(st, 32), bvc(ALL1, 32), em.ref(Sv[i], 64), bvc(0, 64))
                if kind == "sqrt" else em.ref(Sv[i], 64))
        if kind != "sqrt" and outs_[i] is Sv[i]:
            continue
        diffs.append("(distinct %s %s)" % (em.ref(outs_[i], 64), want))
    if not diffs:
        ob_r.ok("syntactic (returned limbs are the cut nodes)", time.time() - t1, 0, syntactic=True)
    else:
        v, mod, dt = run_solver(em.script(["(or %s)" % " ".join(diffs)]), "z3", timeout)
        if v == "unsat":
            ob_r.ok("z3-bv", time.time() - t1, 1)
        else:
            return give_up(ob_r, "returned limbs are not 'S if status else 0' (%s)" % v, [])
    return obs


def check_tail_monty(built, f, kind, timeout):
    """Montgomery representation (ModInt256, gfgen): limbs hold v*R mod q and are always below q.  The parity test
    reads `encode()[0] & 1`; only the low limb of that Montgomery reduction survives dead-code elimination, so the
    parity word is proved bit-identical to `encode(Y)[0] & 1` of the real `encode` run on the same variables, and
    `encode` is proved to return the canonical integer (as C05)."""
    tag, n, q, R = f.tag, f.n, f.q, f.R
    drv = "drv_%s_%s" % (tag, kind)
    fn = ["%s::%s (via driver %s)" % (f.rust, kind, drv), "%s::encode (parity test)" % f.rust]
    NB = 64 * n
    base = "default:%s.%s" % (tag, kind)
    ob_n = Obligation(base + ":parity", "L", fn, "all candidate limbs Y < q (Montgomery invariant)",
                      "the parity word used for the sign is bit-identical to encode(Y)[0] & 1, and "
                      "int(encode(Y)) * R == Y (mod q), int(encode(Y)) < q")
    ob_s = Obligation(base + ":sign", "L", fn, "all Y < q, both parities", "S = Y when the canonical value is even; "
                      "S == -Y (mod q), S < q when it is odd (hence the canonical value of S is even: q is odd)")
    ob_q = Obligation(base + ":square", "L", fn, "all S < q", "Q * R == S*S (mod q), Q < q  (Montgomery squaring)")
    ob_t = Obligation(base + ":status", "L", fn, "all limb patterns of Q, x", "status == 0xFFFFFFFF iff Q and x are equal limb by "
                      "limb (equal values: both representations are canonical), else exactly 0")
    ob_r = Obligation(base + ":result", "L", fn, "all S, D", "returned limbs == S if status is all-ones else 0"
                      if kind == "sqrt" else "returned limbs == S whatever the status")
    ob_c = Obligation(base + ":corpus", "native", fn, "special values and random squares / non-squares",
                      "documented contract on the native build (ground facts, not solver coverage)")
    obs = [ob_n, ob_s, ob_q, ob_t, ob_r, ob_c]
    r = rng("sqrt", tag, kind)
    t0 = time.time()
    nrun, cex = native_hunt(built, f, kind, r)
    if cex is None:
        ob_c.ok("native replay (%d runs)" % nrun, time.time() - t0, 0, syntactic=True)
    else:
        cex["key"] = "%s.%s" % (tag, kind)
        cex["found_by"] = "native corpus"
        ob_c.fail(cex, "native", time.time() - t0, 0)

    def stop(first, why, rest):
        first.unknown(why + ("; the native corpus shows a contract violation (reported under %s:corpus)" % base
                             if cex is not None else "; the native build meets the contract on %d corpus inputs" % nrun))
        if cex is not None:
            cex.setdefault("solver_diagnosis", why[:300])
        for o in rest:
            if o.verdict == "inconclusive" and not o.reason:
                o.unknown("not reached: %s" % why[:160])
        return obs
    try:
        T.reset()
        ex, ins, outs = sym_run(built, drv)
    except ExecError as e:
        return stop(ob_n, "executor: %s" % e, obs[1:5])
    Xs, quota = [], {(0, 0): 2, (0, 1): 2, (1, 0): 2, (1, 1): 2}
    for _ in range(4000):
        X = r.randrange(q)
        k = (cand_value(f, f.val(X)) & 1, int(is_square(f, f.val(X))))
        if quota[k]:
            quota[k] -= 1
            Xs.append(X)
        if len(Xs) == 8:
            break
    envs = [{"a%d" % i: w for i, w in enumerate(int_limbs(X, n))} for X in Xs]
    ch = Chain(f, list(outs["out"]) + list(outs["st"]), envs, Xs)
    memos = [T.evaluate_all(ch.terms(), e) for e in envs]
    for X, m in zip(Xs, memos):
        nat = built.native(drv, {"a": int_limbs(X, n)})
        got = [m[t.id] if isinstance(t, T.Term) else t for t in ch.roots]
        if got != list(nat["out"]) + list(nat["st"]):
            raise MachineryError("translator validation failed for %s on %s" % (drv, hex(X)))
    A = _names("a", n)
    ynodes, info = ch.separator("y", memos)
    del memos
    if ynodes is None:
        return stop(ob_n, "candidate root not located: %s" % info, obs[1:5])
    Y = ch.cut(ynodes, "Y")
    for o in obs[:5]:
        o.desc += " [candidate cut: %s]" % info

    def lt(form):
        return "(< %s %d)" % (form.smt(), q)
    # ---- parity: the real encode on the same variables
    t1 = time.time()
    try:
        ex2, _, outs2 = sym_run(built, "drv_%s_encode" % tag, concrete={"a": Y})
    except ExecError as e:
        return stop(ob_n, "executor (encode): %s" % e, obs[1:5])
    E = ex2.wide.get("out")
    if not E:
        return stop(ob_n, "encode output not available as words", obs[1:5])
    lsbs = [cand_value(f, f.val(X)) & 1 for X in Xs]
    big = ch.terms()
    memos = [T.evaluate_all(big, e) for e in envs]
    Ynames = _names("Y", n)
    L = None
    for t in T.topo(big):
        if t.op != "var" and all(m[t.id] == b for m, b in zip(memos, lsbs)) and \
                set(v.aux[0] for v in T.variables([t])) <= Ynames:
            L = t
            break
    if L is None:
        return stop(ob_n, "no node of the tail holds the parity of the canonical candidate", obs[1:5])
    e0 = T.t_and(E[0], 1, 64)
    want = e0 if L.w == 64 else (T.t_zext(e0, L.w) if L.w > 64 else T.t_trunc(e0, L.w))
    nq = 0
    if want is not L:
        em = BVEmitter()
        v, _, dt = run_solver(em.script(["(distinct %s %s)" % (em.ref(L, L.w), em.ref(want, L.w))], get_model=False),
                              "z3", timeout)
        nq += 1
        if v != "unsat":
            return stop(ob_n, "parity word is not encode(Y)[0] & 1 (%s)" % v, obs[1:5])
    enc = IntEnc()
    Ef, Yf = word_form(enc, E, 64), word_form(enc, Y, 64)
    samples = stage_samples(enc, f, r, ["Y"], below=True)
    _selfcheck(enc, samples, drv, [lt(Yf)])
    res = PR.prove_congruence(enc, Ef.scale(R), Yf, q, extra=[lt(Yf)], timeout=timeout, samples=samples)
    r2 = PR.prove(enc, "(<= 0 %s %d)" % (Ef.smt(), q - 1), extra=[lt(Yf)], timeout=timeout) if res.status == "proved" else None
    if not (res.status == "proved" and r2.status == "proved"):
        return stop(ob_n, "encode: value %s, range %s" % (res.status, r2.status if r2 else "-"), obs[1:5])
    ob_n.ok("%s + z3-int (%d lemmas)" % ("z3-bv" if nq else "hash-consed identical", len(res.info.get("lemmas", []))),
            time.time() - t1, nq + res.queries + 1)
    Lv = T.var("L0", L.w, 0, 1)
    for e in envs:
        e["L0"] = T.evaluate([L], e)[0]
    ch.roots = T.substitute(ch.roots, {L.id: Lv})
    # ---- sign
    ys, why = ch.latest("ys", Ynames | {"L0"})
    if ys is None:
        return stop(ob_s, "the sign-adjusted root is not in the DAG (%s)" % why, obs[2:5])
    t1 = time.time()
    enc = IntEnc()
    YS, Yf = word_form(enc, ys, 64), word_form(enc, Y, 64)
    Lf = enc.form(Lv)[0]
    samples = []
    from .fieldops import boundary_values
    vals = [v % q for v in boundary_values(f, r)] + [0, 1, q - 1]
    for it in range(48):
        env = {"Y%d" % i: w for i, w in enumerate(int_limbs(r.choice(vals), n))}
        env["L0"] = it & 1
        samples.append(enc.eval_atoms(env))
    _selfcheck(enc, samples, drv, [lt(Yf)])
    ra = PR.prove(enc, "(= %s %s)" % (YS.smt(), Yf.smt()), extra=[lt(Yf), "(= %s 0)" % Lf.smt()], timeout=timeout)
    odd = [lt(Yf), "(= %s 1)" % Lf.smt(), "(> %s 0)" % Yf.smt()]      # odd canonical value: Y != 0
    _casecheck(enc, samples, drv, lambda s_: Lf.eval(s_) == 0 and Yf.eval(s_) < q, [lt(Yf), "(= %s 0)" % Lf.smt()])
    _casecheck(enc, samples, drv, lambda s_: Lf.eval(s_) == 1 and 0 < Yf.eval(s_) < q, odd)
    rb = PR.prove_congruence(enc, YS, -Yf, q, extra=odd, timeout=timeout, samples=[s_ for s_ in samples if Lf.eval(s_) == 1 and Yf.eval(s_) > 0])
    rc = PR.prove(enc, "(<= 0 %s %d)" % (YS.smt(), q - 1), extra=[lt(Yf)], timeout=timeout)
    if ra.status == "proved" and rb.status == "proved" and rc.status == "proved" and q % 2 == 1:
        ob_s.ok("z3-int", time.time() - t1, 2 + rb.queries)
    else:
        return stop(ob_s, "sign stage: even case %s, odd case %s, range %s" % (ra.status, rb.status, rc.status), obs[2:5])
    Sv = ch.cut(ys, "S")
    # ---- square (known open item for the Montgomery types: attempted, the chain continues over a fresh Q)
    sq, why = ch.latest("sq", _names("S", n))
    if sq is None:
        return stop(ob_q, "the square of the root is not in the DAG (%s)" % why, obs[3:5])
    t1 = time.time()
    enc = IntEnc()
    SQ, Sf = word_form(enc, sq, 64), word_form(enc, Sv, 64)
    samples = stage_samples(enc, f, r, ["S"], below=True)
    _selfcheck(enc, samples, drv, [lt(Sf)])
    prod = enc.product(Sf, Sf)
    extra = [lt(Sf)]
    from .fieldops import product_axioms
    try:
        extra += product_axioms(enc, f, {"a": Sv})
    except Exception:
        pass
    # small budget: C01 measured this lemma at 60-600 s without a certificate
    # (one direct query only; the lemma search of prove_congruence costs minutes here and finds nothing)
    res = PR.prove(enc, "(= (mod (- %s %s) %d) 0)" % (SQ.scale(R).smt(), prod.smt(), q), extra=extra, timeout=10)
    res.info = res.info or {}
    r2 = PR.prove(enc, "(<= 0 %s %d)" % (SQ.smt(), q - 1), extra=extra, timeout=10)
    if res.status == "proved" and r2.status == "proved":
        ob_q.ok("z3-int (abstract partial products)", time.time() - t1, 2)
    else:
        ob_q.unknown("Montgomery squaring: value %s (%s), range %s -- the doubling step on 128-bit words leaves opaque atoms in "
                     "the integer encoding (same open item as C01, DESIGN 8.3); the later stages are decided over a fresh Q < q"
                     % (res.status, res.info.get("reason"), r2.status), "z3-int", time.time() - t1, res.queries + 1)
    Qv = ch.cut(sq, "Q")
    # ---- status: canonical representations are compared limb by limb (no subtraction)
    t1 = time.time()
    st = ch.roots[n]
    QA = _names("Q", n) | A
    if not isinstance(st, T.Term) or not set(v.aux[0] for v in T.variables([st])) <= QA:
        return stop(ob_t, "status word does not depend on Q and x only", obs[4:5])
    em = BVEmitter()
    Qbv, Abv = _concat(em, Qv), _concat(em, ins["a"])
    v, mod, dt = run_solver(em.script(["(distinct %s (ite (= %s %s) %s %s))" % (em.ref(st, 32), Qbv, Abv, bvc(ALL1, 32), bvc(0, 32))]),
                            "z3", timeout)
    if v != "unsat":
        return stop(ob_t, "status word is not 'Q == x limb-wise' (%s)" % v, obs[4:5])
    ob_t.ok("z3-bv", time.time() - t1, 1)
    # ---- result
    t1 = time.time()
    outs_ = ch.roots[:n]
    if not set(v_.aux[0] for v_ in T.variables(outs_)) <= (_names("S", n) | QA):
        return stop(ob_r, "returned limbs depend on more than S and the comparison", [])
    em = BVEmitter()
    diffs = []
    for i in range(n):
        if kind != "sqrt" and outs_[i] is Sv[i]:
            continue
        want = ("(ite (= %s %s) %s %s)" % (em.ref(st, 32), bvc(ALL1, 32), em.ref(Sv[i], 64), bvc(0, 64))
                if kind == "sqrt" else em.ref(Sv[i], 64))
        diffs.append("(distinct %s %s)" % (em.ref(outs_[i], 64), want))
    if not diffs:
        ob_r.ok("syntactic (returned limbs are the cut nodes)", time.time() - t1, 0, syntactic=True)
    else:
        v, mod, dt = run_solver(em.script(["(or %s)" % " ".join(diffs)]), "z3", timeout)
        if v == "unsat":
            ob_r.ok("z3-bv", time.time() - t1, 1)
        else:
            return stop(ob_r, "returned limbs are not 'S if status else 0' (%s)" % v, [])
    return obs


def stage_samples(enc, f, r, prefixes, below=False, count=48):
    """atom environments for lemma discovery: boundary and random values of the stage's own input variables
    (the located nodes' values on real runs never reach the corners, e.g. a candidate >= q)"""
    from .fieldops import boundary_values
    vals = boundary_values(f, r)
    if below:
        vals = [v % f.q for v in vals] + [f.q - 1, f.q - 2, 0, 1, 2]
    out = []
    for it in range(count):
        env = {}
        for p in prefixes:
            for i, w in enumerate(int_limbs(r.choice(vals), f.n)):
                env["%s%d" % (p, i)] = w
        out.append(enc.eval_atoms(env))
    return out


def _casecheck(enc, samples, drv, pred, extra):
    """a case assumption must be met by a real execution (guards against a vacuous case split)"""
    for s_ in samples:
        if pred(s_):
            try:
                enc.validate_on(s_, list(extra))
            except AssertionError as e:
                raise MachineryError("case assumption rejected by a concrete run for %s: %s" % (drv, e))
            return
    raise MachineryError("no sample meets a case assumption for %s" % drv)


def _selfcheck(enc, samples, drv, extra=()):
    try:
        enc.validate_on(samples[0], list(extra))
        enc.validate_on(samples[-1], list(extra))
    except AssertionError as e:
        raise MachineryError("encoder validation failed for %s: %s" % (drv, e))


BOUNDS = ("sqrt / sqrt_ext tails: candidate root Y and input x range over all limb patterns (2^256, 2^448; Montgomery type: "
          "all values below the modulus); field types GF255<19>, GF448, GFsecp256k1 (quick) + GF255e, GF255s, GFp256 "
          "(thorough), default 64-bit backend")
ASSUMPTIONS = ["sqrt tails: cutting the located candidate nodes is a pure over-approximation (fresh variables of the same "
               "width); the composition of the stage lemmas into 'status all-ones <=> y^2 = x, result = even "
               "representative of +-y or 0' is a meta-argument over congruences mod q (q odd: ground fact)",
               "sqrt: the specification-side candidate (x^((q+1)/4), Atkin) is used only to locate nodes and to judge native runs",
               "GFp256 sqrt: candidate limbs below the modulus (Montgomery invariant of the preceding multiplication, C01 "
               "':range' where it closes); the Montgomery squaring inside the tail is posed but does not close (C01 open item)"]
OUTSIDE = ["square roots: that the exponentiation chain computes x^((q+1)/4) (resp. Atkin's (2x)^((q-5)/8) and the "
           "c' = 3 substitution), hence 'x square => status all-ones' and the substitute root of sqrt_ext for non-squares "
           "(only checked natively on the corpus); Legendre symbol value",
           "sqrt of the ModInt256 scalar fields with q = 3 mod 4 / 5 mod 8 (ed25519, jq255e, jq255s, gls254 scalars): the parity "
           "word against encode()[0] & 1 is a miter of two differently specialised Montgomery reductions (z3-bv: no answer in "
           "120 s), not posed; ed448::Scalar::sqrt (gfgen): data-dependent branch in the optimized IR (C02 known finding), "
           "the executor stops, not posed; P-256 / secp256k1 scalars: q = 1 mod 8, sqrt is unimplemented!(); "
           "binary-field sqrt/trace/halftrace; gf255_m51 and the 32-bit backends"]
