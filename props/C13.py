"""C13 Truncated-signature verification is sound and complete -- the part a bounded
solver check reaches: the documented *preparation step* for ECDSA/P-256
(`PrivateKey::prepare_truncate`), on the real optimized IR with all signature
bytes symbolic at every admissible length (engine L, path forking, z3-bv):

  prepare(sig) = Some(out)  <=>  len even, 2..64, p-n <= r < n, 0 < s < n          (r, s big-endian halves)
  out[0..32]  = r as 32 big-endian bytes (left-padded)
  out[32..64] = s' little-endian, s' = s if s < 2^255 else n - s   (so s' < 2^255 and (r, s') is valid iff (r, s) is)

The search itself (baby-step/giant-step over x-only differential sequences, UX_COMP
table, rm up to 32 bits) is thousands of chained field operations under
variable-time control: not encodable within reach; see MANIFEST/DESIGN."""
import time
from engines.llsym.build import build, Driver
from engines.llsym import terms as T
from engines.llsym.llexec import ExecError
from engines.llsym.smt import BVEmitter, run_solver, parse_model, bvc
from vlib.common import Obligation, finish, log, NCPU
from vlib.par import pmap
from . import fields as F
from .lhelp import explore, rng, hexl, model_inputs, _feasible, native_crashes

N = F.N256
PMN = F.P256 - F.N256


def drivers(lens):
    ds = []
    for n in lens:
        ds.append(Driver("drv_p256_prep_%d" % n, [("sig", "in", 1, n), ("out", "out", 1, 64), ("st", "out", 4, 1)],
                         "        match crate::p256::PrivateKey::prepare_truncate(&sig[..]) {\n"
                         "            Some(x) => { *out = x; st[0] = 1; }\n            None => { *out = [0u8; 64]; st[0] = 0; }\n        }"))
    return ds


def be(em, bs, width):
    if not bs:
        return bvc(0, width)
    e = em.ref(bs[0], 8)
    for b in bs[1:]:
        e = "(concat %s %s)" % (e, em.ref(b, 8))
    pad = width - 8 * len(bs)
    return "((_ zero_extend %d) %s)" % (pad, e) if pad else e


def check_len(built, n, timeout):
    drv = "drv_p256_prep_%d" % n
    ob = Obligation("default:p256.prepare_truncate[len=%d]" % n, "L", ["p256::PrivateKey::prepare_truncate"],
                    "all %d-byte strings" % n, "Some/None condition, r re-encoding and s normalisation as documented")
    t0 = time.time()
    try:
        paths, nq, trunc = explore(built, drv, max_paths=64, feas_timeout=20)
    except Exception as e:
        return [ob.unknown("executor: %s" % str(e)[:300])]
    if trunc:
        return [ob.unknown("path budget exhausted")]
    for p in paths:
        if p.outcome == "error":
            return [ob.unknown("executor: %s" % p.info["msg"][:300])]
        if p.outcome == "panic":
            st, model = _feasible(p.conds, timeout)
            if st == "sat":
                inputs = model_inputs(model, built, drv)
                crashed, err = native_crashes(built, drv, inputs)
                if crashed:
                    return [ob.fail({"key": "p256.prepare_truncate.panic", "inputs": {"sig": bytes(inputs["sig"]).hex()},
                                     "panic": p.info, "native_stderr": err, "found_by": "z3-bv path model, replayed natively"},
                                    "z3-bv", time.time() - t0, nq)]
            if st != "unsat":
                return [ob.unknown("panic path feasibility undecided")]
    rets = [p for p in paths if p.outcome == "ret"]
    even = (n % 2 == 0) and 0 < n <= 64
    half = n // 2
    for p in rets:
        sig = p.ins["sig"]
        st = p.outs["st"][0]
        out = p.outs["out"]
        em = BVEmitter()
        pc = ["(= %s %s)" % (em.ref(c, 1), "#b1" if v else "#b0") for c, v in p.conds]
        st_s = em.ref(st, 32)
        if not even:
            v, _, _ = run_solver(em.script(pc + ["(distinct %s %s)" % (st_s, bvc(0, 32))], get_model=False), "z3", timeout)
            nq += 1
            if v != "unsat":
                return [_viol_or_unknown(ob, built, drv, em, pc, "(distinct %s %s)" % (st_s, bvc(0, 32)), "odd / empty / over-long input accepted", t0, nq, timeout)]
            continue
        r = be(em, list(sig[:half]), 256)
        s = be(em, list(sig[half:]), 256)
        okc = "(and (bvuge %s %s) (bvult %s %s) (distinct %s %s) (bvult %s %s))" % (
            r, bvc(PMN, 256), r, bvc(N, 256), s, bvc(0, 256), s, bvc(N, 256))
        # expected output
        sprime = "(ite (bvuge %s %s) (bvsub %s %s) %s)" % (s, bvc(1 << 255, 256), bvc(N, 256), s, s)
        outr = be(em, list(out[:32]), 256)
        # s' little-endian in out[32..64]
        e = em.ref(out[32], 8)
        for b in out[33:64]:
            e = "(concat %s %s)" % (em.ref(b, 8), e)
        bad = "(or (distinct %s (ite %s %s %s)) (and %s (or (distinct %s %s) (distinct %s %s))))" % (
            st_s, okc, bvc(1, 32), bvc(0, 32), okc, outr, r, e, sprime)
        v, _, _ = run_solver(em.script(pc + [bad], get_model=False), "z3", timeout)
        nq += 1
        if v != "unsat":
            return [_viol_or_unknown(ob, built, drv, em, pc, bad, "prepared signature is not (r big-endian padded, s' little-endian) / wrong accept condition", t0, nq, timeout)]
    return [ob.ok("path-forking symbolic execution, %d paths; z3-bv x%d" % (len(paths), nq), time.time() - t0, nq)]


def _viol_or_unknown(ob, built, drv, em, pc, bad, what, t0, nq, timeout):
    v, mod, dt = run_solver(em.script(pc + [bad]), "z3", timeout)
    if v == "sat":
        inputs = model_inputs(parse_model(mod), built, drv)
        nat = built.native(drv, inputs)
        ok, exp = reference(inputs["sig"], nat)
        if not ok:
            return ob.fail({"key": "p256.prepare_truncate.value", "what": what, "inputs": {"sig": bytes(inputs["sig"]).hex()},
                            "native": {"st": nat["st"][0], "out": bytes(nat["out"]).hex()}, "expected": exp,
                            "found_by": "z3-bv model, replayed natively against the documented preparation rule"},
                           "z3-bv", time.time() - t0, nq)
        return ob.unknown("model does not reproduce natively")
    return ob.unknown("solver: %s (%s)" % (v, what))


def reference(sig, nat):
    n = len(sig)
    if n % 2 or n == 0 or n > 64:
        return nat["st"][0] == 0, "None"
    h = n // 2
    r = int.from_bytes(bytes(sig[:h]), "big")
    s = int.from_bytes(bytes(sig[h:]), "big")
    if not (PMN <= r < N and 0 < s < N):
        return nat["st"][0] == 0, "None"
    sp = s if s < (1 << 255) else N - s
    exp = r.to_bytes(32, "big") + sp.to_bytes(32, "little")
    return nat["st"][0] == 1 and bytes(nat["out"]) == exp, exp.hex()


def run(tier, only=None):
    t0 = time.time()
    lens = [0, 1, 2, 30, 32, 34, 48, 62, 63, 64, 65, 66] if tier == "quick" else list(range(0, 68))
    built = build(drivers(lens), tag="C13-default")
    timeout = 60 if tier == "quick" else 300

    def work(n):
        T.reset()
        return check_len(built, n, timeout)
    res = pmap(work, lens, nproc=NCPU, timeout=timeout * 20)
    obs = []
    for n, (st, val) in zip(lens, res):
        if st == "ok":
            obs.extend(val)
        else:
            o = Obligation("default:p256.prepare_truncate[len=%d]" % n, "L")
            o.unknown("%s: %s" % (st, str(val)[-300:]))
            obs.append(o)
    built.close()
    return finish("C13", tier, obs, t0,
                  functions_encoded=sorted(set(fn for o in obs for fn in o.functions)),
                  bounds={"lengths": str(lens), "bytes": "all symbolic"},
                  assumptions=["LLVM IR semantics of engines/llsym"],
                  outside=["verify_trunc_* for Ed25519 and P-256: the reconstruction search (UX_COMP table lookup, x-only differential "
                           "sequences, batch normalisation, up to 2^16 group operations under variable-time control) is not encodable "
                           "within reach of the solvers; soundness/completeness of the search are NOT claimed",
                           "UX_COMP table contents"])
