"""C13 Truncated-signature verification is sound and complete -- the part a bounded
solver check reaches: the documented *preparation step* for ECDSA/P-256
(`PrivateKey::prepare_truncate`), on the real optimized IR with all signature
bytes symbolic at every admissible length (engine L, path forking, z3-bv):

  prepare(sig) = Some(out)  <=>  len even, 2..64, p-n <= r < n, 0 < s < n          (r, s big-endian halves)
  out[0..32]  = r as 32 big-endian bytes (left-padded)
  out[32..64] = s' little-endian, s' = s if s < 2^255 else n - s   (so s' < 2^255 and (r, s') is valid iff (r, s) is)

The search itself (baby-step/giant-step over x-only differential sequences, UX_COMP
table, rm up to 32 bits) is thousands of chained field operations under
variable-time control: not encodable within reach; see MANIFEST/DESIGN."""
import time
from engines.llsym.build import build, Driver
from engines.llsym import terms as T
from engines.llsym.llexec import ExecError
from engines.llsym.smt import BVEmitter, run_solver, parse_model, bvc
from vlib.common import Obligation, finish, log, NCPU
from vlib.par import pmap
from . import fields as F
from .lhelp import explore, rng, hexl, model_inputs, _feasible, native_crashes

N = F.N256
PMN = F.P256 - F.N256


def drivers(lens):
    ds = []
    for n in lens:
        ds.append(Driver("drv_p256_prep_%d" % n, [("sig", "in", 1, n), ("out", "out", 1, 64), ("st", "out", 4, 1)],
                         "        match crate::p256::PrivateKey::prepare_truncate(&sig[..]) {\n"
                         "            Some(x) => { *out = x; st[0] = 1; }\n            None => { *out = [0u8; 64]; st[0] = 0; }\n        }"))
    return ds


def corpus_drivers():
    """native round trips through the library's own signers (closed cases; replay material, not solver coverage)"""
    ds = []
    # Ed25519: sign with a seed-derived key, blank the last rm bits, complete; st bit0: Some, bit1: equals the original
    body = ("        let sk = crate::ed25519::PrivateKey::from_seed(&seed[..]);\n"
            "        let sig = match variant { 0 => sk.sign_raw(&msg[..]), 1 => sk.sign_ctx(&ctx[..cl as usize], &msg[..]), _ => sk.sign_ph(&ctx[..cl as usize], &msg[..]) };\n"
            "        let mut t = sig; let rmu = rm as usize;\n"
            "        for i in 0..(rmu >> 3) { t[63 - i] = fill; }\n"
            "        if (rmu & 7) != 0 { let j = 63 - (rmu >> 3); t[j] = (t[j] & (0xFFu8 >> (rmu & 7))) | (fill & !(0xFFu8 >> (rmu & 7))); }\n"
            "        if flip < 64 { t[flip as usize] ^= 1; }\n"
            "        let pk = sk.public_key;\n"
            "        let r = match variant { 0 => pk.verify_trunc_raw(&t, rmu, &msg[..]), 1 => pk.verify_trunc_ctx(&t, rmu, &ctx[..cl as usize], &msg[..]), _ => pk.verify_trunc_ph(&t, rmu, &ctx[..cl as usize], &msg[..]) };\n"
            "        st[0] = match r { Some(f) => { *out = f; 1 | (((f == sig) as u32) << 1) } None => 0 };")
    ds.append(Driver("drv_c13_ed", [("seed", "in", 1, 32), ("msg", "in", 1, 16), ("ctx", "in", 1, 8), ("cl", "val", 4, 1), ("variant", "val", 4, 1),
                                    ("rm", "val", 4, 1), ("fill", "val", 1, 1), ("flip", "val", 4, 1), ("out", "out", 1, 64), ("st", "out", 4, 1)], body))
    # P-256: sign, prepare, blank, complete; st bit0: Some, bit1: completed signature verifies, bit2: r unchanged
    body = ("        let sk = crate::p256::PrivateKey::from_seed(&seed[..]); let pk = sk.to_public_key();\n"
            "        let sig = sk.sign_hash(&hv[..], &[]);\n"
            "        let p = match crate::p256::PrivateKey::prepare_truncate(&sig) { Some(p) => p, None => { st[0] = 0x100; return; } };\n"
            "        let mut t = p; let rmu = rm as usize;\n"
            "        for i in 0..(rmu >> 3) { t[63 - i] = fill; }\n"
            "        if (rmu & 7) != 0 { let j = 63 - (rmu >> 3); t[j] = (t[j] & (0xFFu8 >> (rmu & 7))) | (fill & !(0xFFu8 >> (rmu & 7))); }\n"
            "        if flip < 64 { t[flip as usize] ^= 1; }\n"
            "        st[0] = match pk.verify_trunc_hash(&t, rmu, &hv[..]) { Some(f) => { *out = f; 1 | ((pk.verify_hash(&f, &hv[..]) as u32) << 1) | (((f[..32] == sig[..32]) as u32) << 2) } None => 0 };")
    ds.append(Driver("drv_c13_p256", [("seed", "in", 1, 32), ("hv", "in", 1, 32), ("rm", "val", 4, 1), ("fill", "val", 1, 1), ("flip", "val", 4, 1),
                                      ("out", "out", 1, 64), ("st", "out", 4, 1)], body))
    # P-256: the s = 0 corner (h*G + r*Q neutral, transmitted part of s zero): must be None
    body = ("        let d = crate::p256::Scalar::decode_reduce(&seed[..]);\n"
            "        let sk = match crate::p256::PrivateKey::decode(&{ let mut e = d.encode(); e.reverse(); e }) { Some(k) => k, None => { st[0] = 0x100; return; } };\n"
            "        let pk = sk.to_public_key();\n"
            "        let rp = crate::p256::Point::mulgen(&crate::p256::Scalar::from_u64(kk[0] | 1)); let renc = rp.encode_compressed();\n"
            "        let mut rb = [0u8; 32]; rb.copy_from_slice(&renc[1..33]); let mut rl = rb; rl.reverse();\n"
            "        let r = crate::p256::Scalar::decode_reduce(&rl); let h = -(r * d); let mut hv = h.encode(); hv.reverse();\n"
            "        let mut sig = [0u8; 64]; sig[..32].copy_from_slice(&rb);\n"
            "        st[0] = match pk.verify_trunc_hash(&sig, rm as usize, &hv) { Some(f) => { *out = f; 1 | ((pk.verify_hash(&f, &hv) as u32) << 1) } None => 0 };")
    ds.append(Driver("drv_c13_p256_s0", [("seed", "in", 1, 32), ("kk", "in", 8, 1), ("rm", "val", 4, 1), ("out", "out", 1, 64), ("st", "out", 4, 1)], body))
    # P-256: a VALID signature whose transmitted part of s is all zero (s = top << (256 - rm)): hv chosen as s*k - r*d
    body = ("        let d = crate::p256::Scalar::decode_reduce(&seed[..]);\n"
            "        let sk = match crate::p256::PrivateKey::decode(&{ let mut e = d.encode(); e.reverse(); e }) { Some(k) => k, None => { st[0] = 0x100; return; } };\n"
            "        let pk = sk.to_public_key(); let rmu = rm as usize;\n"
            "        let k = crate::p256::Scalar::from_u64(kk[0] | 1);\n"
            "        let rp = crate::p256::Point::mulgen(&k); let renc = rp.encode_compressed();\n"
            "        let mut rb = [0u8; 32]; rb.copy_from_slice(&renc[1..33]); let mut rl = rb; rl.reverse();\n"
            "        let r = crate::p256::Scalar::decode_reduce(&rl);\n"
            "        let mut sl = [0u8; 32]; let tv = ((top as u64) % ((1u64 << (rmu - 1)) - 1) + 1) << (64 - rmu); sl[24..32].copy_from_slice(&tv.to_le_bytes());\n"
            "        let sc = crate::p256::Scalar::decode_reduce(&sl); let h = sc * k - r * d; let mut hv = h.encode(); hv.reverse();\n"
            "        let mut full = [0u8; 64]; full[..32].copy_from_slice(&rb); { let mut sb = sl; sb.reverse(); full[32..].copy_from_slice(&sb); }\n"
            "        if !pk.verify_hash(&full, &hv) { st[0] = 0x200; return; }\n"
            "        let mut t = [0u8; 64]; t[..32].copy_from_slice(&rb);\n"
            "        st[0] = match pk.verify_trunc_hash(&t, rmu, &hv) { Some(f) => { *out = f; 1 | (((f == full) as u32) << 1) } None => 0 };")
    ds.append(Driver("drv_c13_p256_zs0", [("seed", "in", 1, 32), ("kk", "in", 8, 1), ("top", "val", 4, 1), ("rm", "val", 4, 1), ("out", "out", 1, 64), ("st", "out", 4, 1)], body))
    # Ed25519: signatures whose hidden part lands on a chosen slot of the precomputed table (found by trying counters)
    body = ("        let sk = crate::ed25519::PrivateKey::from_seed(&seed[..]); let pk = sk.public_key; let rmu = rm as usize;\n"
            "        let want: i32 = if neg != 0 { -(j as i32) } else { j as i32 };\n"
            "        let mut ctr = 0u64; let mut found = false; let mut sig = [0u8; 64]; let mut msg = [0u8; 8];\n"
            "        while ctr < 600000 { msg = ctr.to_le_bytes(); sig = sk.sign_raw(&msg);\n"
            "            let v = (((sig[61] >> 5) as i32) | ((sig[62] as i32) << 3) | ((sig[63] as i32) << 11)) - 16384;\n"
            "            if v == want { found = true; break; } ctr += 1; }\n"
            "        if !found { st[0] = 0x100; return; }\n"
            "        let mut t = sig; for i in 0..(rmu >> 3) { t[63 - i] = fill; }\n"
            "        if (rmu & 7) != 0 { let q = 63 - (rmu >> 3); t[q] = (t[q] & (0xFFu8 >> (rmu & 7))) | (fill & !(0xFFu8 >> (rmu & 7))); }\n"
            "        st[0] = match pk.verify_trunc_raw(&t, rmu, &msg) { Some(f) => { *out = f; 1 | (((f == sig) as u32) << 1) } None => 0 };")
    ds.append(Driver("drv_c13_ed_slot", [("seed", "in", 1, 32), ("j", "val", 4, 1), ("neg", "val", 4, 1), ("rm", "val", 4, 1), ("fill", "val", 1, 1),
                                         ("out", "out", 1, 64), ("st", "out", 4, 1)], body))
    return ds


def check_corpus(built, tier):
    from .lhelp import native_crashes
    obs = []
    r = rng("c13corpus")
    rms = [8, 12, 16] if tier == "quick" else [8, 9, 15, 16, 17, 24, 32]
    nkeys = 6 if tier == "quick" else 16

    def run1(ob, drv, inputs, want, what):
        crashed, err = native_crashes(built, drv, inputs, timeout=300)
        if crashed:
            ob.fail({"key": ob.name.split(":", 1)[1] + ".panic", "inputs": {k: (bytes(v).hex() if isinstance(v, list) and k not in ("kk",) else v) for k, v in inputs.items()},
                     "native_stderr": err[-300:], "found_by": "native replay of closed cases"}, "native", 0.0, 0)
            return False
        st = built.native(drv, inputs)["st"][0]
        if not want(st):
            ob.fail({"key": ob.name.split(":", 1)[1], "what": what, "inputs": {k: (bytes(v).hex() if isinstance(v, list) and k not in ("kk",) else v) for k, v in inputs.items()},
                     "status": hex(st), "found_by": "native replay of closed cases (library signer -> truncation -> completion)"}, "native", 0.0, 0)
            return False
        return True
    # Ed25519
    ob = Obligation("default:ed25519.verify_trunc:roundtrip", "ground", ["ed25519::PublicKey::verify_trunc_raw/ctx/ph"],
                    "closed cases: %d seed-derived keys x rm in %s x 3 variants (empty and non-empty context), arbitrary filler in the removed bits" % (nkeys, rms),
                    "a library signature with its last rm bits replaced is completed to the original; one flipped kept bit => None")
    obs.append(ob)
    t0 = time.time()
    n = 0
    ok = True
    for it in range(nkeys):
        seed = [r.getrandbits(8) for _ in range(32)]
        msg = [r.getrandbits(8) for _ in range(16)]
        ctx = [r.getrandbits(8) for _ in range(8)]
        for variant in (0, 1, 2):
            cl = r.choice([0, 0, 3, 8]) if variant else 0
            rm = rms[(it + variant) % len(rms)]
            base = {"seed": seed, "msg": msg, "ctx": ctx, "cl": cl, "variant": variant, "rm": rm, "fill": r.choice([0, 0xFF, r.getrandbits(8)])}
            ok = ok and run1(ob, "drv_c13_ed", dict(base, flip=64), lambda st: st == 3, "valid truncated signature not completed to the original")
            n += 1
            if ok and it % 2 == 0:
                ok = run1(ob, "drv_c13_ed", dict(base, flip=r.randrange(0, 64 - (rm + 7) // 8 - 1)), lambda st: st == 0, "corrupted truncated signature completed")
                n += 1
            if not ok:
                break
        if not ok:
            break
    if ok:
        ob.ok("native replay x%d" % n, time.time() - t0, 0, syntactic=True)
    # Ed25519: chosen slots of the precomputed table (first, second, last but one, last; both signs)
    ob = Obligation("default:ed25519.verify_trunc:table_slots", "ground", ["ed25519::PublicKey::verify_trunc_raw", "UX_COMP table search"],
                    "closed cases: library signatures whose hidden part has floor(s / 2^237) - 2^14 = +/-j for j in {0, 1, 9162, 9163}, rm in {19, 24}",
                    "completed to the original signature")
    obs.append(ob)
    t0 = time.time()
    ok = True
    n = 0
    for j in (0, 1, 9162, 9163):
        for neg in (0, 1):
            if j == 0 and neg:
                continue
            for rm in ((19, 24) if tier == "quick" else (19, 22, 27, 32)):
                ok = run1(ob, "drv_c13_ed_slot", {"seed": [0x42] * 32, "j": j, "neg": neg, "rm": rm, "fill": 0xFF if neg else 0},
                          lambda st: st in (3, 0x100), "a valid truncated signature whose hidden part uses table slot %d is not completed" % j)
                n += 1
                if not ok:
                    break
            if not ok:
                break
        if not ok:
            break
    if ok:
        ob.ok("native replay x%d" % n, time.time() - t0, 0, syntactic=True)
    # P-256
    ob = Obligation("default:p256.verify_trunc_hash:roundtrip", "ground", ["p256::PublicKey::verify_trunc_hash", "p256::PrivateKey::prepare_truncate"],
                    "closed cases: %d seed-derived keys x rm in %s" % (nkeys, rms),
                    "sign_hash -> prepare_truncate -> removed bits replaced -> completed signature verifies with the same r; one flipped kept bit => None")
    obs.append(ob)
    t0 = time.time()
    n = 0
    ok = True
    for it in range(nkeys):
        seed = [r.getrandbits(8) for _ in range(32)]
        hv = [r.getrandbits(8) for _ in range(32)]
        rm = rms[it % len(rms)]
        base = {"seed": seed, "hv": hv, "rm": rm, "fill": r.choice([0, 0xFF, r.getrandbits(8)])}
        ok = run1(ob, "drv_c13_p256", dict(base, flip=64), lambda st: st == 7 or st == 0x100, "valid truncated signature not completed to a valid signature with the same r")
        n += 1
        if ok and it % 2 == 0:
            ok = run1(ob, "drv_c13_p256", dict(base, flip=r.randrange(32, 64 - (rm + 7) // 8 - 1)), lambda st: st in (0, 0x100), "corrupted truncated signature completed")
            n += 1
        if not ok:
            break
    if ok:
        ob.ok("native replay x%d" % n, time.time() - t0, 0, syntactic=True)
    ob = Obligation("default:p256.verify_trunc_hash:s=0", "ground", ["p256::PublicKey::verify_trunc_hash"],
                    "closed cases: hv = -r*d mod n (so that h*G + r*Q is the point at infinity), transmitted part of s zero, %d keys" % nkeys,
                    "returns None (a completed signature must be valid: s in 1..n-1)")
    obs.append(ob)
    t0 = time.time()
    ok = True
    for it in range(nkeys):
        seed = [r.getrandbits(8) for _ in range(32)]
        ok = run1(ob, "drv_c13_p256_s0", {"seed": seed, "kk": [r.getrandbits(63)], "rm": rms[it % len(rms)]}, lambda st: st in (0, 0x100),
                  "Some(r || 0) returned: a signature with s = 0 that verify_hash rejects")
        if not ok:
            break
    if ok:
        ob.ok("native replay x%d" % nkeys, time.time() - t0, 0, syntactic=True)
    ob = Obligation("default:p256.verify_trunc_hash:zero_kept_part", "ground", ["p256::PublicKey::verify_trunc_hash", "p256::Point::to_x_affine_diff"],
                    "closed cases: valid signatures (hv = s*k - r*d) whose transmitted part of s is all zero (s0*R is the point at infinity), %d keys" % nkeys,
                    "completed to the original valid signature")
    obs.append(ob)
    t0 = time.time()
    ok = True
    for it in range(nkeys):
        seed = [r.getrandbits(8) for _ in range(32)]
        ok = run1(ob, "drv_c13_p256_zs0", {"seed": seed, "kk": [r.getrandbits(63)], "top": r.getrandbits(31), "rm": rms[it % len(rms)]},
                  lambda st: st in (3, 0x100), "valid signature with an all-zero transmitted s part not completed (or driver self-check 0x200)")
        if not ok:
            break
    if ok:
        ob.ok("native replay x%d" % nkeys, time.time() - t0, 0, syntactic=True)
    return obs


def be(em, bs, width):
    if not bs:
        return bvc(0, width)
    e = em.ref(bs[0], 8)
    for b in bs[1:]:
        e = "(concat %s %s)" % (e, em.ref(b, 8))
    pad = width - 8 * len(bs)
    return "((_ zero_extend %d) %s)" % (pad, e) if pad else e


def check_len(built, n, timeout):
    drv = "drv_p256_prep_%d" % n
    ob = Obligation("default:p256.prepare_truncate[len=%d]" % n, "L", ["p256::PrivateKey::prepare_truncate"],
                    "all %d-byte strings" % n, "Some/None condition, r re-encoding and s normalisation as documented")
    t0 = time.time()
    try:
        paths, nq, trunc = explore(built, drv, max_paths=64, feas_timeout=20)
    except Exception as e:
        return [ob.unknown("executor: %s" % str(e)[:300])]
    if trunc:
        return [ob.unknown("path budget exhausted")]
    for p in paths:
        if p.outcome == "error":
            return [ob.unknown("executor: %s" % p.info["msg"][:300])]
        if p.outcome == "panic":
            st, model = _feasible(p.conds, timeout)
            if st == "sat":
                inputs = model_inputs(model, built, drv)
                crashed, err = native_crashes(built, drv, inputs)
                if crashed:
                    return [ob.fail({"key": "p256.prepare_truncate.panic", "inputs": {"sig": bytes(inputs["sig"]).hex()},
                                     "panic": p.info, "native_stderr": err, "found_by": "z3-bv path model, replayed natively"},
                                    "z3-bv", time.time() - t0, nq)]
            if st != "unsat":
                return [ob.unknown("panic path feasibility undecided")]
    rets = [p for p in paths if p.outcome == "ret"]
    even = (n % 2 == 0) and 0 < n <= 64
    half = n // 2
    for p in rets:
        sig = p.ins["sig"]
        st = p.outs["st"][0]
        out = p.outs["out"]
        em = BVEmitter()
        pc = ["(= %s %s)" % (em.ref(c, 1), "#b1" if v else "#b0") for c, v in p.conds]
        st_s = em.ref(st, 32)
        if not even:
            v, _, _ = run_solver(em.script(pc + ["(distinct %s %s)" % (st_s, bvc(0, 32))], get_model=False), "z3", timeout)
            nq += 1
            if v != "unsat":
                return [_viol_or_unknown(ob, built, drv, em, pc, "(distinct %s %s)" % (st_s, bvc(0, 32)), "odd / empty / over-long input accepted", t0, nq, timeout)]
            continue
        r = be(em, list(sig[:half]), 256)
        s = be(em, list(sig[half:]), 256)
        okc = "(and (bvuge %s %s) (bvult %s %s) (distinct %s %s) (bvult %s %s))" % (
            r, bvc(PMN, 256), r, bvc(N, 256), s, bvc(0, 256), s, bvc(N, 256))
        # expected output
        sprime = "(ite (bvuge %s %s) (bvsub %s %s) %s)" % (s, bvc(1 << 255, 256), bvc(N, 256), s, s)
        outr = be(em, list(out[:32]), 256)
        # s' little-endian in out[32..64]
        e = em.ref(out[32], 8)
        for b in out[33:64]:
            e = "(concat %s %s)" % (em.ref(b, 8), e)
        bad = "(or (distinct %s (ite %s %s %s)) (and %s (or (distinct %s %s) (distinct %s %s))))" % (
            st_s, okc, bvc(1, 32), bvc(0, 32), okc, outr, r, e, sprime)
        v, _, _ = run_solver(em.script(pc + [bad], get_model=False), "z3", timeout)
        nq += 1
        if v != "unsat":
            return [_viol_or_unknown(ob, built, drv, em, pc, bad, "prepared signature is not (r big-endian padded, s' little-endian) / wrong accept condition", t0, nq, timeout)]
    return [ob.ok("path-forking symbolic execution, %d paths; z3-bv x%d" % (len(paths), nq), time.time() - t0, nq)]


def _viol_or_unknown(ob, built, drv, em, pc, bad, what, t0, nq, timeout):
    v, mod, dt = run_solver(em.script(pc + [bad]), "z3", timeout)
    if v == "sat":
        inputs = model_inputs(parse_model(mod), built, drv)
        nat = built.native(drv, inputs)
        ok, exp = reference(inputs["sig"], nat)
        if not ok:
            return ob.fail({"key": "p256.prepare_truncate.value", "what": what, "inputs": {"sig": bytes(inputs["sig"]).hex()},
                            "native": {"st": nat["st"][0], "out": bytes(nat["out"]).hex()}, "expected": exp,
                            "found_by": "z3-bv model, replayed natively against the documented preparation rule"},
                           "z3-bv", time.time() - t0, nq)
        return ob.unknown("model does not reproduce natively")
    return ob.unknown("solver: %s (%s)" % (v, what))


def reference(sig, nat):
    n = len(sig)
    if n % 2 or n == 0 or n > 64:
        return nat["st"][0] == 0, "None"
    h = n // 2
    r = int.from_bytes(bytes(sig[:h]), "big")
    s = int.from_bytes(bytes(sig[h:]), "big")
    if not (PMN <= r < N and 0 < s < N):
        return nat["st"][0] == 0, "None"
    sp = s if s < (1 << 255) else N - s
    exp = r.to_bytes(32, "big") + sp.to_bytes(32, "little")
    return nat["st"][0] == 1 and bytes(nat["out"]) == exp, exp.hex()


def run(tier, only=None):
    t0 = time.time()
    lens = [0, 1, 2, 30, 32, 34, 48, 62, 63, 64, 65, 66] if tier == "quick" else list(range(0, 68))
    built = build(drivers(lens) + corpus_drivers(), tag="C13-default")
    timeout = 60 if tier == "quick" else 300

    def work(n):
        T.reset()
        return check_len(built, n, timeout)
    res = pmap(work, lens, nproc=NCPU, timeout=timeout * 20)
    obs = []
    for n, (st, val) in zip(lens, res):
        if st == "ok":
            obs.extend(val)
        else:
            o = Obligation("default:p256.prepare_truncate[len=%d]" % n, "L")
            o.unknown("%s: %s" % (st, str(val)[-300:]))
            obs.append(o)
    if not only or "corpus" in only:
        obs.extend(check_corpus(built, tier))
    built.close()
    return finish("C13", tier, obs, t0,
                  functions_encoded=sorted(set(fn for o in obs for fn in o.functions)),
                  bounds={"lengths": str(lens), "bytes": "all symbolic"},
                  assumptions=["LLVM IR semantics of engines/llsym"],
                  outside=["verify_trunc_* for Ed25519 and P-256: the reconstruction search (UX_COMP table lookup, x-only differential "
                           "sequences, batch normalisation, up to 2^16 group operations under variable-time control) is not encodable "
                           "within reach of the solvers; soundness/completeness of the search are NOT claimed",
                           "UX_COMP table contents"])
