"""C14 X25519 and X448 compute the RFC 7748 functions on all inputs.

Engine P: the MIR of `x25519()` / `x448()` is executed with symbolic input
bytes (z3 bit-vectors) and an abstract field (ring terms); the oracle is the
RFC 7748 section 5 pseudo-code transcribed below over the same term
constructors.  The ladder state is cut at every iteration (both sides are
re-started from the same fresh symbols), so the claim is 255 / 448 small
queries "one iteration of the code = one iteration of the RFC", plus
byte-level facts (clamping, masking of the u coordinate), the initial and the
final state.  `*_base`: clamping, Edwards `mulgen` (C04) and the birational
map as a ring identity.  See engines/polyid/NOTES.md."""
import random
import threading
import time

import z3

from vlib.common import Obligation, finish, log, NCPU, SEED
from vlib.par import pmap
from engines.polyid import terms as R
from engines.polyid.build import dump_mir
from engines.polyid.interp import Cell, Ref, IntV, Agg, UNIT, MirError, Unsupported
from engines.polyid.algo import AlgoInterp, Config, SymV, ScalarTok, Lin, NotAbstractable
from engines.polyid.prove import Ideal, prove_zero
from engines.polyid import replay as RP

MIR = None
Z3_VERSION = "z3 " + z3.get_version_string()
TIMEOUT_MS = 30000

FUNCS = {
    "x25519": dict(nbytes=32, bits=255, a24=121665, field="GF255", p=2 ** 255 - 19,
                   clamp=lambda k: _clamp25519(k), umask=True, base_u=9, ed="ed25519"),
    "x448": dict(nbytes=56, bits=448, a24=39081, field="GF448", p=2 ** 448 - 2 ** 224 - 1,
                 clamp=lambda k: _clamp448(k), umask=False, base_u=5, ed="ed448"),
}


class Machinery(Exception):
    pass


# --------------------------------------------------------------------------
# RFC 7748 section 5 (transcription)

def _clamp25519(k):
    """decodeScalar25519: k_list[0] &= 248; k_list[31] &= 127; k_list[31] |= 64"""
    k = list(k)
    k[0] = k[0] & 248
    k[31] = k[31] & 127
    k[31] = k[31] | 64
    return k


def _clamp448(k):
    """decodeScalar448: k_list[0] &= 252; k_list[55] |= 128"""
    k = list(k)
    k[0] = k[0] & 252
    k[55] = k[55] | 128
    return k


def rfc_decode_u(u, bits):
    """decodeUCoordinate: if bits % 8: u_list[-1] &= (1 << (bits % 8)) - 1"""
    u = list(u)
    if bits % 8:
        u[-1] = u[-1] & ((1 << (bits % 8)) - 1)
    return u


def rfc_bit(kbytes, t):
    """k_t = (k >> t) & 1 of the little-endian integer"""
    return z3.Extract(t & 7, t & 7, kbytes[t >> 3]) == 1


def rfc_cswap(swap, a, b):
    """dummy = mask(swap) AND (x_2 XOR x_3); x_2 ^= dummy; x_3 ^= dummy"""
    return R.ite(swap, b, a), R.ite(swap, a, b)


def rfc_step(x1, st, swap, a24):
    """one iteration of the loop body after `swap ^= k_t`; st = (x2, z2, x3, z3)"""
    x2, z2, x3, z3 = st
    x2, x3 = rfc_cswap(swap, x2, x3)
    z2, z3 = rfc_cswap(swap, z2, z3)
    A = x2 + z2
    AA = A * A
    B = x2 - z2
    BB = B * B
    E = AA - BB
    C = x3 + z3
    D = x3 - z3
    DA = D * A
    CB = C * B
    s = DA + CB
    d = DA - CB
    nx3 = s * s
    nz3 = x1 * (d * d)
    nx2 = AA * BB
    nz2 = E * (AA + R.const(a24) * E)
    return nx2, nz2, nx3, nz3


# --------------------------------------------------------------------------

class Atoms:
    def __init__(self):
        self.tab = {}
        self.n = 0

    def atom(self, e):
        if z3.is_true(e):
            return R.TRUE
        if z3.is_false(e):
            return R.FALSE
        key = "c%d" % e.get_id()
        self.tab[key] = e
        return R.batom(key)


def z3_equal(a, b, atoms, extra=()):
    """ring terms with `ite` over registered conditions equal for all values?
    The (at most two) conditions are first proved equivalent by z3 on the
    bit-vector side, then both terms are compared for each truth value as pure
    polynomial identities (z3, real arithmetic)."""
    t0 = time.time()
    if a is b:
        return "unsat", 0.0, 0
    keys = R.batoms([a, b])
    q = 0
    if len(keys) > 2:
        return "unknown", time.time() - t0, 0
    if len(keys) == 2:
        s = z3.Solver()
        s.set("timeout", TIMEOUT_MS)
        s.add(atoms.tab[keys[0]] != atoms.tab[keys[1]])
        r = str(s.check())
        q += 1
        if r != "unsat":
            return r, time.time() - t0, q
    vals = [(True,), (False,)] if keys else [()]
    for v in vals:
        amap = {k: v[0] for k in keys}
        x, y = R.assign([a, b], amap)
        if x is y:
            continue
        (ex, ey), syms = R.to_z3([x, y], z3)
        s = z3.Solver()
        s.set("timeout", TIMEOUT_MS)
        s.add(ex != ey)
        r = str(s.check())
        q += 1
        if r != "unsat":
            return r, time.time() - t0, q
    return "unsat", time.time() - t0, q


def z3_valid(cond, extra=()):
    t0 = time.time()
    s = z3.Solver()
    s.set("timeout", TIMEOUT_MS)
    for c in extra:
        s.add(c)
    s.add(z3.Not(cond))
    return str(s.check()), time.time() - t0, 1


class Acc:
    def __init__(self, name, functions, desc, bounds, hint):
        self.o = Obligation(name, "P", functions, bounds, desc)
        self.o.hint = hint
        self.secs = 0.0
        self.q = 0
        self.fails = []
        self.unk = []
        self.n = 0

    def add(self, label, res):
        st, secs, q = res
        self.secs += secs
        self.q += q
        self.n += 1
        if st == "sat":
            self.fails.append(label)
        elif st != "unsat":
            self.unk.append("%s: %s" % (label, st))

    def done(self):
        o = self.o
        solver = "%s (unsat on %d queries)" % (Z3_VERSION, self.q)
        if self.n == 0:
            raise Machinery("obligation %s posed nothing" % o.name)
        if self.fails:
            o.unknown("candidate: differs at " + ", ".join(self.fails[:6]), solver, self.secs, self.q)
            o.candidate = True
        elif self.unk:
            o.unknown("; ".join(self.unk[:4]), solver, self.secs, self.q)
            o.candidate = False
        else:
            o.ok(solver, self.secs, self.q, syntactic=(self.q == 0))
            o.candidate = False
        return o


def task_ladder(fname):
    F = FUNCS[fname]
    nb, bits, a24 = F["nbytes"], F["bits"], F["a24"]
    atoms = Atoms()
    ub = [z3.BitVec("u%d" % i, 8) for i in range(nb)]
    kb = [z3.BitVec("k%d" % i, 8) for i in range(nb)]
    rec = {"states": [], "decode": None, "div": None, "swaps": [], "sarr": None}
    names = ["x2", "z2", "x3", "z3"]
    x1 = R.sym("x1")

    def call_hook(interp, fr, cal, args):
        m = cal.method
        if cal.is_field and m == "decode_reduce":
            arr = args[0].get() if isinstance(args[0], Ref) else args[0]
            rec["decode"] = list(arr.fields)
            return x1
        if cal.is_field and m == "cswap" and len(args) == 3:
            ctl = args[2]
            a, b = args[0].get(), args[1].get()
            if isinstance(ctl, IntV):
                full = (1 << ctl.bits) - 1
                if ctl.v == 0:
                    return UNIT
                if ctl.v & full != full:
                    raise MirError("cswap control word %r" % (ctl,))
                args[0].set(b)
                args[1].set(a)
                return UNIT
            rec["swaps"].append(ctl.e)
            c = atoms.atom(ctl.e != 0)
            args[0].set(R.ite(c, b, a))
            args[1].set(R.ite(c, a, b))
            interp.prim_count["cswap"] += 1
            return UNIT
        if cal.is_field and m == "div" and len(args) == 2:
            fv = interp._fv
            rec["div"] = (fv(args[0]), fv(args[1]))
            return R.sym("quotient")
        if cal.is_field and m == "encode":
            return Agg("array", [R.sym("encoded")])
        return NotImplemented

    cuts = []

    def loop_hook(interp, fr, k, it_ref):
        if fr.body.name != fname:
            return
        locs = [fr.debug_local(n_, nonref=True) for n_ in names]
        cur = [fr.cell(l).val for l in locs]
        sw = fr.cell(fr.debug_local("swap")).val
        if k == 0:
            rec["sarr"] = list(fr.cell(fr.debug_local("s")).val.fields)
        fresh = [R.sym("%s_%d" % (n_, k)) for n_ in names]
        cuts.append((k, cur, sw, fresh))
        for l, f in zip(locs, fresh):
            fr.cell(l).val = f

    it = AlgoInterp(MIR, Config(fname), call_hook=call_hook, loop_hook=loop_hook)
    pt = Agg("array", [SymV(b, 8, False) for b in ub])
    sc = Agg("array", [SymV(b, 8, False) for b in kb])
    it.run(fname, [Ref(Cell(pt)), Ref(Cell(sc))])
    fns = [fname]
    if len(cuts) != bits + 1:
        # the number of iterations is part of the claim
        o = Obligation("%s:schedule" % fname, "P", fns, "", "the ladder runs exactly %d iterations" % bits)
        o.hint = dict(func=fname)
        o.candidate = True
        o.unknown("candidate: %d loop iterations executed, RFC 7748 has %d" % (len(cuts) - 1, bits))
        return [o]
    if it.prim_count["mul"] < 5 * bits or it.prim_count["cswap"] < 2 * bits:
        raise Machinery("%s: too few field operations executed (%r)" % (fname, dict(it.prim_count)))
    hint = dict(func=fname)
    bounds = "all %d-byte point strings and scalar strings (bytes symbolic); field abstract (any commutative ring)" \
        % nb
    obs = []
    # ---- byte-level facts
    kcl = F["clamp"](kb)
    A = Acc("%s:clamp" % fname, fns, "the scalar bytes used by the ladder are decodeScalar(k) of RFC 7748", bounds, hint)
    if rec["sarr"] is None or len(rec["sarr"]) != nb:
        raise Machinery("scalar array not found")
    for i, (c_, o_) in enumerate(zip(rec["sarr"], kcl)):
        ce = c_.e if isinstance(c_, SymV) else z3.BitVecVal(c_.v, 8)
        A.add("byte %d" % i, z3_valid(ce == o_))
    obs.append(A.done())
    A = Acc("%s:u-decode" % fname, fns, "the bytes handed to decode_reduce are decodeUCoordinate's (top bit of the "
            "last byte masked for X25519, nothing masked for X448); reduction mod p is decode_reduce's contract (C05)",
            bounds, hint)
    ud = rfc_decode_u(ub, bits)
    if rec["decode"] is None or len(rec["decode"]) != nb:
        raise Machinery("decode_reduce not reached")
    for i, (c_, o_) in enumerate(zip(rec["decode"], ud)):
        ce = c_.e if isinstance(c_, SymV) else z3.BitVecVal(c_.v, 8)
        A.add("byte %d" % i, z3_valid(ce == o_))
    obs.append(A.done())
    # ---- initial state
    A = Acc("%s:ladder-init" % fname, fns, "initial state (x_2, z_2, x_3, z_3, swap) = (1, 0, u, 1, 0)", bounds, hint)
    k0, cur0, sw0, fr0 = cuts[0]
    for lab, c_, o_ in zip(names, cur0, (R.ONE, R.ZERO, x1, R.ONE)):
        A.add(lab, z3_equal(c_, o_, atoms))
    swe = sw0.e if isinstance(sw0, SymV) else z3.BitVecVal(sw0.v, 32)
    A.add("swap", z3_valid(swe == 0))
    obs.append(A.done())
    # ---- steps
    A = Acc("%s:ladder-step" % fname, fns,
            "for every t = %d..0: starting from the same arbitrary state, one loop iteration of the code equals one "
            "iteration of the RFC 7748 ladder (conditional swaps driven by k_t xor k_(t+1), a24 = %d); the swap word "
            "is 0 or all-ones" % (bits - 1, a24), bounds + "; %d iterations, each cut and re-started from fresh symbols"
            % bits, hint)
    prev_bit = z3.BoolVal(False)
    for idx in range(1, bits + 1):
        k, cur, sw, fresh = cuts[idx]
        t = bits - idx
        kt = rfc_bit(kcl, t)
        swap = atoms.atom(z3.Xor(prev_bit, kt))
        start = cuts[idx - 1][3]
        want = rfc_step(x1, start, swap, a24)
        for lab, c_, o_ in zip(names, cur, want):
            A.add("t=%d %s" % (t, lab), z3_equal(c_, o_, atoms))
        swe = sw.e if isinstance(sw, SymV) else z3.BitVecVal(sw.v, 32)
        A.add("t=%d swap" % t, z3_valid(z3.And(z3.Or(swe == 0, swe == z3.BitVecVal(-1, 32)), (swe != 0) == kt)))
        prev_bit = kt
        if len(A.fails) >= 3 or len(A.unk) >= 3:
            break       # a broken step shows at once; do not pay for 255/448 failing queries
    obs.append(A.done())
    # ---- final
    A = Acc("%s:ladder-final" % fname, fns, "after the loop: final conditional swap, result = x_2 / z_2 "
            "(division with x/0 = 0 is RFC's x_2 * z_2^(p-2); C12 contract), then encode (C05)", bounds, hint)
    if rec["div"] is None:
        raise Machinery("final division not reached")
    start = cuts[bits][3]
    swap = atoms.atom(prev_bit)
    x2f, _ = rfc_cswap(swap, start[0], start[2])
    z2f, _ = rfc_cswap(swap, start[1], start[3])
    A.add("x_2", z3_equal(rec["div"][0], x2f, atoms))
    A.add("z_2", z3_equal(rec["div"][1], z2f, atoms))
    obs.append(A.done())
    return obs


def task_base(fname):
    """x25519_base / x448_base: clamp, Scalar::decode_reduce, Point::mulgen, to_montgomery_u, encode"""
    F = FUNCS[fname]
    nb = F["nbytes"]
    bname = fname + "_base"
    kb = [z3.BitVec("k%d" % i, 8) for i in range(nb)]
    rec = {}
    ed = F["ed"]
    x, y, z = R.sym("x"), R.sym("y"), R.sym("z")
    fields = {"X": x * z, "Y": y * z, "Z": z, "T": x * y * z}

    def call_hook(interp, fr, cal, args):
        m = cal.method
        if m == "decode_reduce" and not cal.is_field or (m == "decode_reduce" and "calar" in cal.text):
            arr = args[0].get() if isinstance(args[0], Ref) else args[0]
            rec["sbytes"] = list(arr.fields)
            return ScalarTok("s")
        if m == "decode_reduce":
            arr = args[0].get() if isinstance(args[0], Ref) else args[0]
            if "sbytes" not in rec:
                rec["sbytes"] = list(arr.fields)
                return ScalarTok("s")
        if m == "mulgen" and cal.self_short == "Point":
            rec["mulgen_arg"] = args[0].get() if isinstance(args[0], Ref) else args[0]
            from engines.polyid.algo import struct_fields
            names = struct_fields(MIR, ed, "Point")
            return Agg("struct", [fields[n] for n in names], ed + "::Point", list(names))
        if cal.is_field and m == "div" and len(args) == 2:
            fv = interp._fv
            rec.setdefault("divs", []).append((fv(args[0]), fv(args[1])))
            q = R.sym("q%d" % len(rec["divs"]))
            return q
        if cal.is_field and m == "encode":
            rec["encoded"] = interp._fv(args[0])
            return Agg("array", [R.sym("encoded")])
        return NotImplemented

    it = AlgoInterp(MIR, Config(bname), call_hook=call_hook)
    sc = Agg("array", [SymV(b, 8, False) for b in kb])
    it.run(bname, [Ref(Cell(sc))])
    fns = sorted(n for n in it.executed if not n.rsplit("::", 1)[-1].isupper())
    hint = dict(func=bname)
    bounds = "all %d-byte scalar strings; Edwards point symbolic (x, y, z)" % nb
    obs = []
    A = Acc("%s:clamp" % bname, fns, "the bytes handed to Scalar::decode_reduce are decodeScalar(k) of RFC 7748 "
            "(reduction mod L is harmless: the generator has order L)", bounds, hint)
    kcl = F["clamp"](kb)
    if len(rec.get("sbytes", [])) != nb:
        raise Machinery("scalar decode not reached in %s" % bname)
    for i, (c_, o_) in enumerate(zip(rec["sbytes"], kcl)):
        ce = c_.e if isinstance(c_, SymV) else z3.BitVecVal(c_.v, 8)
        A.add("byte %d" % i, z3_valid(ce == o_))
    if not isinstance(rec.get("mulgen_arg"), ScalarTok):
        raise Machinery("mulgen is not called on the decoded scalar")
    obs.append(A.done())
    # birational map
    A = Acc("%s:map" % bname, fns,
            "the value encoded is the Montgomery u of the Edwards point returned by mulgen: u = (1+y)/(1-y) "
            "(edwards25519) resp. u = y^2/x^2 (edwards448, 4-isogeny of RFC 7748 section 4.2), as ring identities on "
            "numerator and denominator; x/0 = 0 gives 0 for the neutral", bounds, hint)
    divs = rec.get("divs", [])
    if not divs or "encoded" not in rec:
        raise Machinery("no division / encode in %s" % bname)
    enc = rec["encoded"]
    ideal = Ideal([], ["x", "y", "z", "q1"])
    if fname == "x25519":
        num, den = divs[0]
        if enc is not R.sym("q1"):
            A.fails.append("encoded value is not the quotient")
            A.n += 1
        for lab, t in (("num*(1-y) = den*(1+y)", num * (1 - y) - den * (1 + y)),):
            r = prove_zero(t, ideal, TIMEOUT_MS)
            A.add(lab, ("unsat" if r.ok else ("sat" if r.status in ("sat", "nocert") else r.status), r.seconds, r.queries))
        # den vanishes exactly at y = 1 (the neutral): den = z*(1-y)
        r = prove_zero(den - z * (1 - y), ideal, TIMEOUT_MS)
        A.add("den = z*(1-y)", ("unsat" if r.ok else ("sat" if r.status in ("sat", "nocert") else r.status), r.seconds, r.queries))
    else:
        num, den = divs[0]
        q = R.sym("q1")
        r = prove_zero(enc - q * q, ideal, TIMEOUT_MS)
        A.add("encoded = (Y/X)^2", ("unsat" if r.ok else ("sat" if r.status in ("sat", "nocert") else r.status), r.seconds, r.queries))
        r = prove_zero(num * x - den * y, ideal, TIMEOUT_MS)
        A.add("num/den = y/x", ("unsat" if r.ok else ("sat" if r.status in ("sat", "nocert") else r.status), r.seconds, r.queries))
        r = prove_zero(den - x * z, ideal, TIMEOUT_MS)
        A.add("den = z*x", ("unsat" if r.ok else ("sat" if r.status in ("sat", "nocert") else r.status), r.seconds, r.queries))
    obs.append(A.done())
    return obs


def work(task):
    kind, fname = task
    return task_ladder(fname) if kind == "ladder" else task_base(fname)


# --------------------------------------------------------------------------
# native side: RFC 7748 reference in Python (integers)

def py_x(fname, u_bytes, k_bytes):
    F = FUNCS[fname]
    bits, p, a24 = F["bits"], F["p"], F["a24"]
    k = list(k_bytes)
    if fname == "x25519":
        k[0] &= 248
        k[31] &= 127
        k[31] |= 64
    else:
        k[0] &= 252
        k[55] |= 128
    kk = int.from_bytes(bytes(k), "little")
    u = list(u_bytes)
    if bits % 8:
        u[-1] &= (1 << (bits % 8)) - 1
    x1 = int.from_bytes(bytes(u), "little") % p
    x2, z2, x3, z3, swap = 1, 0, x1, 1, 0
    for t in range(bits - 1, -1, -1):
        kt = (kk >> t) & 1
        swap ^= kt
        if swap:
            x2, x3 = x3, x2
            z2, z3 = z3, z2
        swap = kt
        A = (x2 + z2) % p
        AA = A * A % p
        B = (x2 - z2) % p
        BB = B * B % p
        E = (AA - BB) % p
        C = (x3 + z3) % p
        D = (x3 - z3) % p
        DA = D * A % p
        CB = C * B % p
        x3 = pow(DA + CB, 2, p)
        z3 = x1 * pow(DA - CB, 2, p) % p
        x2 = AA * BB % p
        z2 = E * (AA + a24 * E) % p
    if swap:
        x2, x3 = x3, x2
        z2, z3 = z3, z2
    r = x2 * pow(z2, p - 2, p) % p
    return r.to_bytes(F["nbytes"], "little")


def native_check(rp, fname, rng, count):
    F = FUNCS[fname]
    nb, p = F["nbytes"], F["p"]
    us = [0, 1, p - 1, p, p + 1, (1 << (8 * nb)) - 1, F["base_u"], 2, (p + 2) % (1 << (8 * nb))]
    lines, exps = [], []
    for i in range(count):
        u = us[i] if i < len(us) else rng.getrandbits(8 * nb)
        k = rng.getrandbits(8 * nb)
        if i == 1:
            k = (1 << (8 * nb)) - 1
        if i == 2:
            k = 0
        ub, kb = u.to_bytes(nb, "little"), k.to_bytes(nb, "little")
        lines.append("%s x 0 %s %s" % (fname, ub.hex(), kb.hex()))
        exps.append(("x", ub, kb, py_x(fname, ub, kb)))
        lines.append("%s base 0 %s" % (fname, kb.hex()))
        exps.append(("base", None, kb, py_x(fname, F["base_u"].to_bytes(nb, "little"), kb)))
    import subprocess
    pr = subprocess.run([rp.exe], input="\n".join(lines) + "\n", stdout=subprocess.PIPE, stderr=subprocess.PIPE,
                        text=True, timeout=600)
    rows = pr.stdout.strip().split("\n")
    checked = 0
    mism = {}
    for (kind, ub, kb, exp), row, ln in zip(exps, rows, lines):
        t = row.split()
        got = None if (not t or t[0] != "OK" or len(t) < 2) else bytes.fromhex(t[1])
        checked += 1
        if got != exp and kind not in mism:
            mism[kind] = dict(key="%s.%s" % (fname, "x" if kind == "x" else "base"), request=ln,
                              native=(row[:200]), expected=exp.hex())
    return checked, mism


def run(tier, only=None):
    global MIR, TIMEOUT_MS
    t0 = time.time()
    TIMEOUT_MS = 10000 if tier == "quick" else 300000
    only = list(only or [])
    fnames = [f for f in FUNCS if f in only] or list(FUNCS)
    rp = RP.Replay(list(RP.CURVES))
    th = threading.Thread(target=rp.build, daemon=True)
    th.start()
    try:
        MIR, mir_secs, sc = dump_mir()
    except Exception as e:  # noqa
        th.join()
        return finish("C14", tier, [], t0, machinery_error="MIR dump failed: %s" % str(e)[:800])
    tasks = [(k, f) for f in fnames for k in ("ladder", "base")]
    res = pmap(work, tasks, nproc=NCPU, timeout=150 if tier == "quick" else 1700)
    obs = []
    merr = None
    for t, (st, val) in zip(tasks, res):
        if st == "ok":
            obs.extend(val)
        else:
            o = Obligation("%s:%s" % (t[1] + ("_base" if t[0] == "base" else ""), "task"), "P")
            o.hint = dict(func=t[1] + ("_base" if t[0] == "base" else ""))
            o.candidate = False
            o.unknown("%s: %s" % (st, str(val)[:400]))
            obs.append(o)
            if st == "err":
                merr = "task %r: %s" % (t, str(val)[:600])
    log("C14: %d obligations in %.1fs" % (len(obs), time.time() - t0))
    th.join()
    rng = random.Random(SEED or 20261004)
    native = {"checked": 0, "failed": 0, "error": rp.error}
    if rp.exe:
        for f in fnames:
            try:
                n, mism = native_check(rp, f, rng, 12 if tier == "quick" else 40)
            except Exception as e:  # noqa
                n, mism = 0, {}
                native["error"] = "native check error: %s" % e
            native["checked"] += n
            for kind, mm in mism.items():
                native["failed"] += 1
                fn = f if kind == "x" else f + "_base"
                mine = [o for o in obs if o.hint and o.hint["func"] == fn]
                cands = [o for o in mine if o.verdict != "discharged"]
                if not cands:
                    # the base variant rests on mulgen (C04) and the general function: explained if the
                    # general function is itself violated
                    if not any(o.verdict == "violated" for o in obs):
                        merr = merr or "native disagreement with RFC 7748 on discharged obligations: %r" % (mm,)
                for o in cands:
                    o.fail(mm, o.solver, o.seconds, o.queries)
            if not mism:
                for o in obs:
                    if o.verdict != "discharged" and getattr(o, "candidate", False) and o.hint["func"].startswith(f):
                        o.reason += " | native replay of %d inputs agrees with RFC 7748" % n
    return finish(
        "C14", tier, obs, t0,
        functions_encoded=sorted({fn for o in obs for fn in o.functions}),
        bounds={"inputs": "all byte strings (symbolic bytes)", "field": "abstract commutative ring",
                "ladder": "255 / 448 iterations, each cut"},
        stubs={"field operations -> ring operations": "C01", "cswap -> conditional exchange": "C20",
               "decode_reduce / encode -> value mod p / canonical bytes": "C05",
               "division x/z with z = 0 -> 0": "C12", "Point::mulgen -> [s]B": "C04"},
        assumptions=["RFC 7748 section 5 transcription in props/C14.py (validated natively against the library and "
                     "a Python integer implementation on every run)",
                     "the Montgomery ladder computes x([k]P), hence base variant = general function at u = 9 / 5: "
                     "classical theorem, trusted; the birational maps of RFC 7748 section 4"],
        outside=["limb-level decode/encode/inversion (C05, C12)", "Edwards mulgen (C04)"],
        ground_facts={"checked": native["checked"], "failed": native["failed"], "native": native},
        extra={"mir_seconds": round(mir_secs, 1)},
        machinery_error=merr)


def replay(path):
    import json, subprocess
    with open(path) as fh:
        d = json.load(fh)
    model = d["obligation"].get("model") or {}
    req = model.get("request")
    if not req:
        print("replay: no native request in %s" % path)
        return 2
    rp = RP.Replay(list(RP.CURVES))
    if not rp.build():
        print("replay: harness build failed")
        return 2
    pr = subprocess.run([rp.exe], input=req + "\n", stdout=subprocess.PIPE, text=True, timeout=120)
    t = pr.stdout.split()
    got = t[1] if len(t) > 1 else pr.stdout.strip()
    print("native  :", got)
    print("expected:", model.get("expected"))
    if got == model.get("expected"):
        print("NOT REPRODUCED")
        return 0
    print("REPRODUCED: property=C14 key=%s" % model.get("key"))
    return 1
