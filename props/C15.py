"""C15 FROST: wire formats, totality of the FROST entry points, Coordinator::choose (engine K).

Kani (CBMC + CaDiCaL) on the real code of src/frost.rs, all five ciphersuites.  The harness
template engines/kani/h/frost_common.rs is instantiated once per suite and included as a child
module INSIDE `pub mod <suite> { ... }` (private fields and helpers in scope).  Scalar / point
codecs, group arithmetic and hashes are contract stubs (listed in STUBS and in
engines/kani/NOTES_C15.md); everything of src/frost.rs itself is real.

`totality_obligations(tier)` runs only the panic-freedom harnesses (reused by C19)."""
import atexit, json, os, re, shutil, tempfile, time
from engines.kani.runner import HDIR, Insert, prepare, run_harnesses, replay as kreplay
from vlib.common import Obligation, finish, log

PID = "C15"
TEMPLATE = os.path.join(HDIR, "frost_common.rs")
KANI_ARGS = ["--no-assertion-reach-checks"]   # kani::cover! statements are unaffected

# suite -> template parameters
SUITES = {
    "ed25519": dict(flags={"modint", "le", "subgroup", "edw"}, PTP="crate::ed25519::Point", PENC="encode",
                    HLEN="64", HDR_OK="true", NEUTRAL_W0="Some(1)"),
    "ristretto255": dict(flags={"modint", "le", "edw", "ristretto"}, PTP="crate::ristretto255::Point", PENC="encode",
                         HLEN="64", HDR_OK="true", NEUTRAL_W0="Some(0)"),
    "ed448": dict(flags={"gfgen", "le", "subgroup", "edw"}, PTP="crate::ed448::Point", PENC="encode",
                  HLEN="114", HDR_OK="true", NEUTRAL_W0="Some(1)"),
    "p256": dict(flags={"modint", "be", "sec1"}, PTP="crate::p256::Point", PENC="encode_compressed",
                 HLEN="32", HDR_OK="(h == 2 || h == 3)", NEUTRAL_W0="None"),
    "secp256k1": dict(flags={"modint", "be", "sec1"}, PTP="crate::secp256k1::Point", PENC="encode_compressed",
                      HLEN="32", HDR_OK="(h == 2 || h == 3)", NEUTRAL_W0="None"),
}
ALL_SUITES = list(SUITES)

K_UNSORTED = "frost.verify_signature_share.unsorted_list"
K_EMPTYVSS = "frost.verify_split.empty_vsscomm"

W, T_, C_ = "wire", "total", "choose"
# harness suffix -> (obligation role, group, functions, claim, bounds, expected-defect key or None)
H = {
    "spec_nonce": ("wire.spec.Nonce", W, ["Nonce::decode", "Nonce::encode"],
                   "for ALL 3*NS-byte strings b: decode(b) is Some <=> the three scalars are canonical and the "
                   "identifier is non-zero; fields are the component decodings; encode(decode(b)) == b", "all b", None),
    "spec_sigshare": ("wire.spec.SignatureShare", W, ["SignatureShare::decode", "SignatureShare::encode"],
                      "same for SignatureShare (ident non-zero, zi canonical)", "all b", None),
    "spec_groupsk": ("wire.spec.GroupPrivateKey", W, ["GroupPrivateKey::decode", "GroupPrivateKey::encode",
                                                     "GroupPrivateKey::get_public_key"],
                     "decode(b) is Some <=> canonical non-zero scalar; pk == [sk]B, pk_enc == encode(pk); "
                     "encode(decode(b)) == b", "all b", None),
    "spec_grouppk": ("wire.spec.GroupPublicKey", W, ["GroupPublicKey::decode", "GroupPublicKey::encode"],
                     "decode(b) is Some <=> point_decode(b) is Some; cached encoding == b", "all b", None),
    "spec_signerpk": ("wire.spec.SignerPublicKey", W, ["SignerPublicKey::decode", "SignerPublicKey::encode"],
                      "same for SignerPublicKey (ident non-zero, point valid)", "all b", None),
    "spec_commitment": ("wire.spec.Commitment", W, ["Commitment::decode", "Commitment::encode"],
                        "same for Commitment (ident non-zero, two valid points); never INVALID", "all b", None),
    "spec_signature": ("wire.spec.Signature", W, ["Signature::decode", "Signature::encode"],
                       "same for Signature (R valid point, z canonical)", "all b", None),
    "spec_keyshare": ("wire.spec.SignerPrivateKeyShare", W,
                      ["SignerPrivateKeyShare::decode", "SignerPrivateKeyShare::encode",
                       "SignerPrivateKeyShare::get_public_key"],
                      "same for SignerPrivateKeyShare (ident, sk non-zero, group key valid; pk == [sk]B)", "all b", None),
    "rt_scalars": ("wire.roundtrip.scalars", W, ["Nonce::encode", "Nonce::decode", "SignatureShare::encode",
                                                  "SignatureShare::decode"],
                   "for all values built from canonical scalars: encode(x) is the concatenation of the component "
                   "encodings in draft order and decode(encode(x)) == x field-wise (natively replayable)",
                   "all canonical scalars", None),
    "rt_points": ("wire.roundtrip.points", W, ["SignerPublicKey::encode/decode", "Commitment::encode/decode",
                                                "Signature::encode/decode", "Nonce::get_commitment"],
                  "same for the point-carrying types, points = [k]B", "all canonical scalars k != 0", None),
    "rt_keys": ("wire.roundtrip.keys", W, ["GroupPrivateKey::encode/decode", "GroupPublicKey::encode/decode",
                                            "SignerPrivateKeyShare::encode/decode"],
                "same for the key types", "all canonical scalars != 0", None),
    "lengths_a": ("wire.lengths.a", W, ["GroupPrivateKey::decode", "GroupPublicKey::decode", "SignatureShare::decode",
                                         "Nonce::decode"],
                  "decode returns None (no panic) on every length 0..=ENC_LEN+1 other than ENC_LEN, bytes arbitrary; "
                  "ENC_LEN constants are the draft's", "every length, all bytes", None),
    "lengths_b": ("wire.lengths.b", W, ["SignerPublicKey::decode", "Signature::decode"],
                  "same for SignerPublicKey, Signature", "every length, all bytes", None),
    "lengths_c": ("wire.lengths.c", W, ["Commitment::decode", "SignerPrivateKeyShare::decode"],
                  "same for Commitment, SignerPrivateKeyShare", "every length, all bytes", None),
    "ident0": ("wire.ident0", W, ["*::decode"],
               "identifier 0 (and group private key 0) is rejected when every other component is valid; the same "
               "strings with a non-zero identifier are accepted (natively replayable)", "all canonical s, k", None),
    "glue": ("wire.suite_glue", W, ["scalar_decode", "scalar_encode", "scalar_encode_le", "scalar_cmp_vartime",
                                    "point_decode", "point_encode"],
             "scalar_decode(b) is Some <=> len == NS and wire integer < group order, scalar_encode gives b back; "
             "scalar_cmp_vartime orders as the wire integers; point_decode(point_encode([k]B)) == [k]B; "
             "neighbouring lengths rejected (natively replayable)", "all 2*NS-byte strings, all k", None),
    "clist2": ("wire.list.Commitment.2", W, ["Commitment::decode_list", "scalar_cmp_vartime", "scalar_encode_le"],
               "decode_list on 2 elements with arbitrary identifier bytes and valid points: Some <=> identifiers "
               "canonical, non-zero and strictly ascending as integers (oracle on the wire bytes); elements are the "
               "element decodings; 0 and 1 element rejected (natively replayable)",
               "all identifier bytes, points [k]B", None),
    "clist3": ("wire.list.Commitment.3", W, ["Commitment::decode_list", "Commitment::encode_list"],
               "decode_list on 3 elements: ordering between every adjacent pair; encode_list(decode_list(b)) == b",
               "all identifier bytes, points [k]B", None),
    "list_badlen": ("wire.list.badlen", W, ["Commitment::decode_list", "VSSElement::decode_list"],
                    "every length in 0..=2*ENC_LEN+1 that is not a multiple of the element length is rejected; "
                    "encode_list([]) is empty", "every such length, all bytes", None),
    "vlist": ("wire.list.VSSElement", W, ["VSSElement::decode_list", "VSSElement::encode_list"],
              "decode_list on 0..3 points: Some <=> n >= 2 and every point decodes; round trip", "all bytes", None),
    "list_rt": ("wire.list.roundtrip", W, ["Commitment::encode_list", "Commitment::decode_list",
                                            "VSSElement::encode_list", "VSSElement::decode_list"],
                "encode_list then decode_list on values built from canonical scalars (natively replayable): "
                "Some <=> ascending identifiers, elements equal", "all canonical scalars", None),
    "vshare_anylist": ("total.verify_signature_share.anylist", T_, ["SignerPublicKey::verify_signature_share",
                       "compute_binding_factors", "compute_group_commitment", "derive_interpolating_value"],
                       "verify_signature_share returns (no panic) for an ARBITRARY list of two commitments",
                       "2 commitments, any identifiers in any order, 3-byte message", K_UNSORTED),
    "vshare_sorted": ("total.verify_signature_share.sorted", T_, ["SignerPublicKey::verify_signature_share",
                      "compute_binding_factors", "compute_group_commitment", "derive_interpolating_value",
                      "binding_factor_for_participant"],
                      "with strictly ascending identifiers: no panic; a share for another identifier or a signer "
                      "absent from the list is rejected", "2 commitments, 3-byte message", None),
    "assemble_sorted": ("total.assemble_signature.sorted", T_, ["Coordinator::assemble_signature", "aggregate",
                        "Coordinator::new"],
                        "assemble_signature on the coordinator's sorted list with arbitrary shares and keys: no panic; "
                        "None when a share or a key is missing; Coordinator::new rejects thresholds < 2",
                        "2 commitments, 2 shares, 2 keys", None),
    "assemble_anylist": ("total.assemble_signature.anylist", T_, ["Coordinator::assemble_signature"],
                         "assemble_signature returns for an ARBITRARY list of two commitments",
                         "2 commitments, any identifiers", K_UNSORTED),
    "verify_shortlists": ("total.verify.shortlists", T_, ["SignerPublicKey::verify_signature_share",
                          "Coordinator::assemble_signature"],
                          "both verification entry points return on lists of 0 and 1 commitment and on empty "
                          "share / key lists", "lists of 0, 1", None),
    "sign_total": ("total.sign", T_, ["SignerPrivateKeyShare::sign"],
                   "sign returns for arbitrary share / nonce (with its own commitment) / list of 0..2 commitments; "
                   "None when the list is not strictly ascending or does not contain the signer; ident of the share",
                   "2 commitments, 3-byte message", None),
    "vsplit_total": ("total.verify_split", T_, ["SignerPrivateKeyShare::verify_split"],
                     "verify_split returns on VSS commitments of 1..3 elements; 1 element: result is pk == vss[0]",
                     "1..3 elements", None),
    "vsplit_empty": ("total.verify_split.empty", T_, ["SignerPrivateKeyShare::verify_split"],
                     "verify_split returns on the EMPTY VSS commitment", "0 elements", K_EMPTYVSS),
    "choose2": ("choose.le2", C_, ["Coordinator::choose"],
                "min_signers = 2, lists of 0..2 commitments with arbitrary identifiers: result strictly ascending, "
                "of size 2, made of the inputs; None iff fewer than 2 distinct identifiers; no panic",
                "<= 2 commitments (3 is out of reach: Vec::insert with merged length)", None),
}
TOTALITY = [h for h, d in H.items() if d[1] in (T_, C_)] + ["lengths_a", "lengths_b", "lengths_c", "list_badlen"]

WIRE_ALL = [h for h, d in H.items() if d[1] == W]
# quick tier: the shared macro body is exercised on ed25519 (representative subset, sized for the 5-minute
# budget on a loaded machine); the suite-specific code of every other suite (point_decode / point_encode /
# scalar_decode / scalar_encode) through the Commitment wire-format harness
QUICK = {
    "ed25519": ["sign_total", "clist2", "rt_points", "rt_keys", "lengths_a", "spec_commitment", "spec_nonce",
                "vsplit_total", "ident0", "glue", "vshare_anylist", "vsplit_empty"],
    "ristretto255": ["glue"],
    "ed448": ["glue"],
    "p256": ["glue"],
    "secp256k1": ["glue"],
}
# thorough tier: everything on ed25519; all wire formats on every suite; the totality harnesses on one suite of
# each codec family (the protocol code is one macro body shared by all suites), the two known-defect harnesses
# on every suite
_CORE_T = ["vshare_anylist", "vshare_sorted", "sign_total", "vsplit_total", "vsplit_empty", "verify_shortlists", "choose2"]
THOROUGH = {
    "ed25519": list(H),
    "ristretto255": WIRE_ALL + ["vshare_anylist", "vsplit_empty"],
    "ed448": WIRE_ALL + _CORE_T,
    "p256": WIRE_ALL + _CORE_T + ["assemble_sorted"],
    "secp256k1": WIRE_ALL + ["vshare_anylist", "vsplit_empty"],
}
QUICK_TOTALITY = {"ed25519": ["sign_total", "lengths_a", "vsplit_total", "vshare_anylist", "vsplit_empty"]}
THOROUGH_TOTALITY = dict((s, [h for h in hs if h in TOTALITY]) for s, hs in THOROUGH.items())
CAP = {"quick": 270, "thorough": 1800}

STUBS = {
    "backend::w64::addcarry_u64 / subborrow_u64": "portable definitions of the same file (L0; Intel semantics)",
    "ModInt256::set_decode32 / encode32 (ed448::Scalar::set_decode_ct / encode)":
        "plain representation: limbs hold the integer itself; decode accepts exactly len == 32 (56) and value < "
        "MODULUS, encode returns the limbs -- a bijection canonical bytes <-> values (contract decided by C05); "
        "iszero / equals / set_cond / add / sub / neg stay REAL",
    "ModInt256::set_mul / set_div / from_w64le (ed448::Scalar idem)":
        "arbitrary canonical scalar (from_w64le: the plain value when < MODULUS) -- C01/C12",
    "Point::set_decode / encode[_compressed] / equals / isneutral / is_in_subgroup":
        "opaque wrapper of the NE encoding bytes; decode accepts exactly len == NE and a fixed predicate of the "
        "bytes, encode returns the bytes, equals compares them (contract: decode o encode = id on canonical "
        "encodings, strict length -- C06)",
    "Point::set_add / set_mul": "arbitrary decodable subgroup point (C03/C04)",
    "Point::set_mulgen": "fixed deterministic function of the scalar, never the neutral (functional consistency)",
    "Point::verify_helper_vartime": "arbitrary bool (C07-C10)",
    "frost::<suite>::H1 / H2 / H4 / H5": "arbitrary canonical scalar / arbitrary bytes (C17)",
    "frost::<suite>::scalar_cmp_vartime (choose harness only)":
        "numeric comparison of canonical representatives; the real function is decided by wire.list.Commitment.*",
}
ASSUMPTIONS = [
    "Kani 0.68 / CBMC 6 semantics of MIR; x86_64 little-endian target",
    "stub contracts above (every one is total: a stub never panics)",
    "point-valued inputs of the totality harnesses share one group element: point arithmetic and the verification "
    "equation are arbitrary-valued stubs, so point identity cannot influence control flow of the checked functions",
    "totality inputs are values obtainable through the public API (identifiers non-zero: every constructor "
    "enforces it); sign() is called with comm == nonce.get_commitment() (documented precondition)",
]
OUTSIDE = [
    "algebraic claims of C15 (Lagrange coefficients, share equation, aggregate verifies, RFC 8032 interop)",
    "trusted_split / derive_group_info / commit / GroupPrivateKey::sign (RNG- and hash-driven)",
    "Coordinator::choose on >= 3 commitments or min_signers >= 3 (Vec::insert at merged length: CBMC OOM)",
    "lists of more than 3 commitments / VSS elements; messages longer than 3 bytes (message bytes only reach hashes)",
    "Coordinator::new / choose with min_signers > 65535 (Vec::with_capacity overflow; outside the documented "
    "MAX_MAX_SIGNERS domain)",
    "there is NO '> 65535 entries => None' check in decode_list (DESIGN.md expected one); nothing is claimed",
    "soundness of rejection in the real group (discrete log)",
]

_tmpdirs = []


def _cleanup():
    for d in _tmpdirs:
        shutil.rmtree(d, ignore_errors=True)


atexit.register(_cleanup)


def instantiate(tmpl, suite, covers=True):
    """template -> Rust source of the harness module of one suite"""
    cfg = SUITES[suite]
    out, keep, stubs, instubs = [], [True], [], False
    for line in tmpl.split("\n"):
        m = re.match(r"\s*//@if (\w+)", line)
        if m:
            keep.append(m.group(1) in cfg["flags"])
            continue
        if re.match(r"\s*//@endif", line):
            keep.pop()
            continue
        if not all(keep):
            continue
        if line.startswith("//@stublist"):
            instubs = True
            continue
        if line.startswith("//@endstublist"):
            instubs = False
            continue
        if instubs:
            if line.startswith("//# "):
                stubs.append(line[4:])
            continue
        m = re.match(r"//@harness (\S+) (\d+)(.*)", line)
        if m:
            out.append("#[kani::proof]\n#[kani::unwind(%s)]" % m.group(2))
            out.extend(stubs)
            for ex in m.group(3).split():
                o, n = ex.split("=")
                out.append("#[kani::stub(%s, %s)]" % (o, n))
            out.append("fn %s()" % (m.group(1) if covers else m.group(1).replace("@S@_", "@S@_nc_")))
            continue
        if not covers and re.match(r"\s*kani::cover!\(.*\);\s*$", line):
            continue
        out.append(line)
    s = "\n".join(out).replace("@S@", suite)
    for k in ("PTP", "PENC", "HLEN", "HDR_OK", "NEUTRAL_W0"):
        s = s.replace("@%s@" % k, cfg[k])
    bad = [l for l in s.split("\n") if "@" in re.sub(r"//.*", "", l)]
    if bad:
        raise RuntimeError("unresolved template placeholder: %s" % bad[:3])
    return s


def hname(suite, h, nc=False):
    return "verif_frost_%s_%s%s" % (suite, "nc_" if nc else "", h)


def _prepare(suites):
    """scratch copy with two generated harness modules per suite: the harnesses as written, and the same
    harnesses without their kani::cover! statements (names verif_frost_<suite>_nc_*).  Kani prints the
    playback of a satisfied cover before the playback of a failing check and the runner replays the first
    one, so counterexamples are always taken from the cover-free twin.
    Returns (Scratch, {suite: basename of the cover-free module})"""
    with open(TEMPLATE) as fh:
        tmpl = fh.read()
    d = tempfile.mkdtemp(prefix="crrl-verif-c15-")
    _tmpdirs.append(d)
    inserts, base = [], {}
    for s in suites:
        for covers in (True, False):
            bn = "frost_%s%s.rs" % (s, "" if covers else "_nc")
            p = os.path.join(d, bn)
            with open(p, "w") as fh:
                fh.write(instantiate(tmpl, s, covers))
            inserts.append(Insert("src/frost.rs", p, module=s))
            if not covers:
                base[s] = bn
    sc = prepare(inserts)
    # the attribute macros of Kani nest: ~30 of them on one function exceed rustc's default
    # recursion limit of 128.  Scratch copy only; no effect on semantics.
    lib = sc.read("src/lib.rs")
    lib = re.sub(r"(?m)^#!\[recursion_limit[^\n]*\n", "", lib)
    sc.write("src/lib.rs", '#![recursion_limit = "2048"]\n' + lib)
    return sc, base


def _mk_ob(suite, h):
    role, grp, fns, desc, bounds, _ = H[h]
    return Obligation("%s:%s" % (suite, role), "K", ["frost::%s::%s" % (suite, f) for f in fns], bounds, desc)


def _key_for(suite, h, r):
    role, _, _, _, _, exp = H[h]
    txt = " ".join(r.failed)
    if "scalar_cmp_vartime(L [i - 1], L [i]) == Ordering :: Less" in txt and h in ("vshare_anylist", "assemble_anylist"):
        return K_UNSORTED
    if h == "vsplit_empty" and "index out of bounds" in txt and "verify_split" in txt:
        return K_EMPTYVSS
    return "frost.%s" % role


def _crashed(r):
    return (r.status == "failure" and not r.failed and not r.playback) or r.status in ("error", "oom")


def _pipeline(sc, base, names, cap, jobs):
    """run cover-free harnesses, retry crashes once, replay every failure natively"""
    res = run_harnesses(sc, [(n, cap) for n, _ in names], mem_gb=12, jobs=jobs, extra_args=KANI_ARGS)
    crashed = [n for n, _ in names if _crashed(res[n])]
    if crashed:
        log("[C15] retrying %d crashed run(s): %s" % (len(crashed), ", ".join(crashed)))
        res.update(run_harnesses(sc, [(n, cap) for n in crashed], mem_gb=12, jobs=jobs, extra_args=KANI_ARGS))
    for n, suite in names:
        r = res[n]
        if r.status == "failure" and r.playback:
            kreplay(sc, r, base[suite])
    return res


def _bg(conn, sc, base, names, cap, jobs):
    try:
        conn.send(_pipeline(sc, base, names, cap, jobs))
    except BaseException as e:       # noqa
        conn.send({"__error__": "%s: %s" % (type(e).__name__, e)})
    conn.close()


def _run(tier, items):
    """items: list of (suite, harness suffix).  Returns (obligations, machinery error or None)"""
    import multiprocessing as mp
    cap = CAP["quick" if tier == "quick" else "thorough"]
    if not items:
        return [], None
    expect = [(s, h) for s, h in items if H[h][5]]
    normal = [(s, h) for s, h in items if not H[h][5]]
    order = lambda its: sorted(set(s for s, _ in its), key=ALL_SUITES.index)
    res, proc, scx = {}, None, None
    if expect:
        # harnesses that carry a known defect fail on the unchanged tree: their cover-free twin is run right
        # away and replayed natively, in a background process with its own scratch copy (the replay appends
        # the playback test to the harness file), while the other harnesses run
        scx, basex = _prepare(order(expect))
        jx = 2 if normal else 8
        ctx = mp.get_context("fork")
        pa, pb = ctx.Pipe(False)
        proc = ctx.Process(target=_bg, args=(pb, scx, basex, [(hname(s, h, True), s) for s, h in expect], cap, jx))
        proc.start()
        pb.close()
    sc = base = None
    if normal:
        sc, base = _prepare(order(normal))
        todo = [(hname(s, h), cap) for s, h in normal]
        jn = 6 if expect else 8
        res.update(run_harnesses(sc, todo, mem_gb=12, jobs=jn, extra_args=KANI_ARGS))
        crashed = [(n, c) for n, c in todo if _crashed(res[n])]
        if crashed:
            log("[C15] retrying %d crashed run(s): %s" % (len(crashed), ", ".join(n for n, _ in crashed)))
            res.update(run_harnesses(sc, crashed, mem_gb=12, jobs=jn, extra_args=KANI_ARGS))
    if proc is not None:
        try:
            got = pa.recv() if pa.poll(cap * 3 + 1200) else {"__error__": "background pipeline timed out"}
        except EOFError:
            got = {"__error__": "background pipeline died"}
        proc.join(10)
        if "__error__" in got:
            log("[C15] background pipeline: %s" % got["__error__"])
        else:
            res.update(got)
    # an expected-failure harness that passes (library fixed): run its covered variant for the vacuity guards
    redo = [(s, h) for s, h in expect if hname(s, h, True) in res and res[hname(s, h, True)].status == "success"]
    if redo:
        if sc is None or any(s not in base for s, _ in redo):
            if sc is not None:
                sc.remove()
            sc, base = _prepare(order(normal + redo))
        res.update(run_harnesses(sc, [(hname(s, h), cap) for s, h in redo], mem_gb=12, jobs=8, extra_args=KANI_ARGS))
    # a failing covered harness: run the cover-free twin to obtain the playback of the FAILING check, replay it
    fails = [(s, h) for s, h in normal + redo if res[hname(s, h)].status == "failure"]
    if fails:
        res.update(_pipeline(sc, base, [(hname(s, h, True), s) for s, h in fails], cap, 8))
    obs, merr = [], None
    for s, h in items:
        rc = res.get(hname(s, h))           # covered run (None for an expected failure that still fails)
        rn = res.get(hname(s, h, True))     # cover-free run (None when the covered run did not fail)
        ob = _mk_ob(s, h)
        if rc is None and rn is None:
            ob.unknown("not run (background pipeline failed)", "kani", 0)
            obs.append(ob)
            continue
        r = rc if (rc is not None and (rc.status != "failure" or rn is None)) else rn
        secs = (rc.seconds if rc else 0) + (rn.seconds if rn else 0)
        log("[C15] %-13s %-18s %-8s %6.1fs covers=%s replayed=%s %s"
            % (s, h, r.status, secs, rc.covers if rc else "-", r.replayed,
               "; ".join(f.split(" | ")[0] for f in r.failed[:2])))
        if r.status == "success" and r is rc:
            if r.unsat_covers or r.covers[0] != r.covers[1]:
                ob.unknown("vacuity guard not reached: %s" % r.unsat_covers[:3], "kani", secs)
                merr = "cover unreachable in %s:%s: %s" % (s, h, r.unsat_covers[:3])
            else:
                ob.ok("kani/cbmc+cadical", secs)
        elif r.status == "failure" and r is rn:
            if r.replayed is True:
                ob.fail({"key": _key_for(s, h, r), "suite": s, "harness": hname(s, h), "template": h,
                         "failed_checks": r.failed[:8], "playback": r.playback}, "kani+native playback", secs)
            else:
                why = "no playback for the failing check" if not r.playback else \
                    "counterexample lives only under a stub / does not reproduce natively (%s)" % r.replayed
                ob.unknown("%s: %s" % (why, "; ".join(f.split(" | ")[0] for f in r.failed[:3])), "kani", secs)
        elif rc is not None and rc.status == "failure":
            # covered run failed but the cover-free twin did not fail: report what happened to the twin
            ob.unknown("covered harness failed (%s) but its cover-free twin ended with %s"
                       % ("; ".join(f.split(" | ")[0] for f in rc.failed[:2]), rn.status if rn else "-"), "kani", secs)
        else:
            ob.unknown("%s: %s" % (r.status, r.log_tail[-240:].replace("\n", " | ")), "kani", secs)
        obs.append(ob)
    for x in (sc, scx):
        if x is not None:
            x.remove()
    return obs, merr


def _select(tier, only, table_quick, table_thorough):
    items = []
    for s in ALL_SUITES:
        hs = (table_quick if tier == "quick" else table_thorough).get(s, [])
        for h in hs:
            if only and not any(_match(o, s, h) for o in only):
                continue
            items.append((s, h))
    return items


def _match(tok, suite, h):
    """--only token: <substring of harness suffix or role>[@<suite>] or a bare suite name"""
    if "@" in tok:
        a, b = tok.split("@", 1)
        return b == suite and (a in h or a in H[h][0])
    return tok == suite or tok in h or tok in H[h][0]


def totality_obligations(tier):
    """the panic-freedom obligations only (for C19)"""
    items = _select(tier, None, QUICK_TOTALITY, THOROUGH_TOTALITY)
    obs, _ = _run(tier, items)
    return obs


def run(tier, only=None):
    t0 = time.time()
    items = _select(tier, only, QUICK, THOROUGH)
    obs, merr = _run(tier, items)
    return finish(PID, tier, obs, t0,
                  functions_encoded=sorted(set(fn for o in obs for fn in o.functions)),
                  bounds={"suites": sorted(set(o.name.split(":")[0] for o in obs)),
                          "lists": "<= 3 commitments / VSS elements (choose: <= 2, min_signers = 2)",
                          "message": "3 symbolic bytes (only reaches stubbed hashes)",
                          "lengths": "every length 0..=ENC_LEN+1 (lists: 0..=2*ENC_LEN+1)",
                          "unwind": "180 > 2*NS+NE+1 = 172 (ed448 key share); 360 > 2*CL+2 (list length sweep); "
                                    "520 > 3*CL (memcmp of a 3-element list); 60 > NS (choose)"},
                  stubs=STUBS, assumptions=ASSUMPTIONS, outside=OUTSIDE, machinery_error=merr)


def replay(path):
    """re-run the harness named in a replay file on the current tree; print its playback test and
    say whether it still fails natively"""
    with open(path) as fh:
        d = json.load(fh)
    ob = d["obligation"]
    m = ob.get("model") or {}
    suite, h = m.get("suite"), m.get("template")
    if not suite or h not in H:
        suite, role = ob["name"].split(":", 1)
        h = [k for k, v in H.items() if v[0] == role][0]
    log("[C15] re-running %s (%s) on the current tree" % (ob["name"], hname(suite, h)))
    global THOROUGH
    THOROUGH = dict((s, list(H)) for s in ALL_SUITES)
    return run("thorough", only=["%s@%s" % (h, suite)])
