"""C16 LMS never reuses a one-time key and accepts exactly its own signatures (engine K).

One-step induction over the private-key state machine plus RFC 8554 equivalence
of the Winternitz / Merkle layers, decided by Kani (CBMC + CaDiCaL) on the real
code of src/lms.rs, hashes replaced by deterministic mixers.  See
engines/kani/NOTES_C16.md."""
import json, os, shutil, time
from engines.kani.runner import HDIR, Insert, prepare, run_harnesses, replay as kreplay
from vlib.common import Obligation, finish, log

PID = "C16"
BODY = "lms_body.rs"

# tag, wrapper file, module in src/lms.rs
SETS = [
    ("s256m32", "lms_s256m32.rs", "LMS_SHA256_M32_H5_SHA256_N32_W8"),
    ("s256m24", "lms_s256m24.rs", "LMS_SHA256_M24_H5_SHA256_N24_W8"),
    ("shakem24", "lms_shakem24.rs", "LMS_SHAKE_M24_H5_SHAKE_N24_W8"),
    ("shakem32", "lms_shakem32.rs", "LMS_SHAKE_M32_H5_SHAKE_N32_W8"),
]

# harness -> (role key, functions, claim, bounds, quick cap, thorough cap, tiers)
H = {
    "verif_lms_params": dict(
        fn=["n/m/w/h/p/ls/key_type/ots_type/ots_siglen/lms_siglen", "make_p_ls", "PrivateKey::compute_public"],
        desc="parameter-set constants equal the RFC 8554 / SP 800-208 table values; p, ls follow RFC 8554 4.1; "
             "compute_public returns (I, T[1])",
        bounds="closed constants; key bytes symbolic", cap=(150, 600), tiers=("quick", "thorough")),
    "verif_lms_coef_cksm": dict(
        fn=["coef", "checksum"],
        desc="coef(S,i) == i-th w-bit field (bit by bit) for all (n+2)-byte S and all i < p; "
             "checksum(Q) == RFC 8554 4.4 Cksm for all n-byte Q",
        bounds="all Q, all S, all i < p", cap=(150, 600), tiers=("quick", "thorough")),
    "verif_lms_sign_state": dict(
        fn=["PrivateKey::sign"],
        desc="from ANY key state (current_leaf any u32, I/SEED/T arbitrary): None iff current_leaf >= 2^h and then "
             "state bit-identical and RNG untouched; else q bytes == OLD index (big-endian), current_leaf == old+1, "
             "state already advanced when the RNG is first called, I/SEED/T unchanged, embedded LM-OTS signature == "
             "ots_sign(old, msg), LMS type word",
        bounds="msg 3 symbolic bytes; ots_sign replaced by a deterministic mixer of (I,q,SEED,C,msg)",
        cap=(240, 1800), tiers=("quick", "thorough")),
    "verif_lms_sign_path_all": dict(
        fn=["PrivateKey::sign"],
        desc="for every leaf q in 0..2^h (concrete) and an arbitrary tree: path[i] == T[((2^h+q)>>i)^1] for i < h "
             "(RFC 8554 5.4.1), q word, type word, current_leaf == q+1",
        bounds="all 32 leaves, tree/I/SEED symbolic, msg 2 symbolic bytes; ots_sign replaced by mixer",
        cap=(240, 1800), tiers=("quick", "thorough")),
    "verif_lms_ots_sign_ref": dict(
        fn=["PrivateKey::ots_sign", "PrivateKey::make_ots_x", "coef", "checksum"],
        desc="ots_sign(q, msg) == RFC 8554 Algorithm 3 (type || C || y[i] = F^{a_i}(x_i), a = coef(Q||Cksm(Q))) for "
             "any q: u32, any I/SEED/C, exactly one RNG draw of n bytes",
        bounds="msg 3 symbolic bytes; chains <= 255 steps (unwind 256); Hn = deterministic mixer",
        cap=(240, 1800), tiers=("quick", "thorough")),
    "verif_lms_verify_ref": dict(
        fn=["PublicKey::verify", "PublicKey::ots_verify", "coef", "checksum"],
        desc="verify(sig, msg) == RFC 8554 Algorithms 6/6a/4b for ALL signature strings of length lms_siglen "
             "(q range, both type words, chains, Merkle path, full-width root comparison)",
        bounds="all lms_siglen-byte strings, msg 3 symbolic bytes, I/T1 symbolic; Hn/Hm/Hnx = deterministic mixers",
        cap=(240, 1800), tiers=("quick", "thorough")),
}

STUBS = {
    "Hn / Hm / Hnx -> hn_mix / hm_mix / hnx_mix": "fixed deterministic position-sensitive byte mixers (functional "
        "consistency only; every byte and length of every argument influences the output); collision resistance "
        "is outside the claim (C17 decides that the real functions are SHA-256/SHAKE256)",
    "PrivateKey::ots_sign -> ots_sign_mix (sign_state, sign_path only)": "draws C from the RNG like the real function, "
        "returns a deterministic mix of (I,q,SEED,C,msg); the real ots_sign is decided by verif_lms_ots_sign_ref",
    "RNG": "harness type VRng (tape symbolic); records calls and current_leaf at first call",
}


def _match(tok, tag, name):
    """--only token: <name-substring>[@<set tag>] or a bare set tag"""
    if "@" in tok:
        a, b = tok.split("@", 1)
        return b == tag and a in name
    return tok == tag or tok in name


def sel(tag, k, name):
    return "verif_lms_%s_%d::%s" % (tag, k, name)


def run(tier, only=None):
    t0 = time.time()
    inserts = [Insert("src/lms.rs", os.path.join(HDIR, f), module=mod) for _, f, mod in SETS]
    sc = prepare(inserts)
    shutil.copy(os.path.join(HDIR, BODY), os.path.join(sc.src, "src", "verif_h", BODY))
    items = []
    for k, (tag, f, mod) in enumerate(SETS):
        for name, d in H.items():
            if tier not in d["tiers"]:
                continue
            if only and not any(_match(o, tag, name) for o in only):
                continue
            cap = d["cap"][0 if tier == "quick" else 1]
            items.append((tag, k, f, mod, name, d, cap))
    res = run_harnesses(sc, [(sel(tag, k, name), cap) for tag, k, f, mod, name, d, cap in items],
                        mem_gb=12, jobs=8)
    obs, merr = [], None
    for tag, k, f, mod, name, d, cap in items:
        r = res[sel(tag, k, name)]
        ob = Obligation("%s:%s" % (tag, name[len("verif_lms_"):]), "K",
                        ["%s::%s" % (mod, x) for x in d["fn"]], d["bounds"], d["desc"])
        log("[C16] %-9s %-28s %-8s %6.1fs covers=%s %s" % (tag, name, r.status, r.seconds, r.covers,
                                                          "; ".join(r.failed[:2])))
        if r.status == "success":
            if r.unsat_covers or r.covers[0] != r.covers[1]:
                ob.unknown("vacuity guard not reached: %s" % r.unsat_covers[:3], "kani", r.seconds)
                merr = "cover unreachable in %s:%s: %s" % (tag, name, r.unsat_covers[:3])
            else:
                ob.ok("kani/cbmc+cadical", r.seconds)
        elif r.status == "failure":
            kreplay(sc, r, f)
            if r.replayed is True:
                ob.fail({"key": "%s:%s" % (tag, name[len("verif_lms_"):]), "module": mod, "harness": name,
                         "failed_checks": r.failed[:8], "playback": r.playback}, "kani+native playback", r.seconds)
            else:
                ob.unknown("counterexample lives only under a stub / does not reproduce natively (%s): %s"
                           % (r.replayed, "; ".join(r.failed[:3])), "kani", r.seconds)
        else:
            ob.unknown("%s: %s" % (r.status, r.log_tail[-300:].replace("\n", " | ")), "kani", r.seconds)
        obs.append(ob)
    sc.remove()
    return finish(PID, tier, obs, t0,
                  functions_encoded=sorted(set(fn for o in obs for fn in o.functions)),
                  bounds={"parameter sets": [s[2] for s in SETS], "message": "2-3 symbolic bytes",
                          "unwind": "256 = 2^w (Winternitz chain), 1126 = ots_siglen+2 (mixer loop)"},
                  stubs=STUBS,
                  assumptions=["Kani 0.68 / CBMC 6 semantics of MIR", "hash stand-ins are deterministic functions "
                               "(functional consistency); no collision-resistance claim"],
                  outside=["collision / preimage resistance (rejection of other messages and of altered hash-chain "
                           "bytes rests on it)", "compute_tree over the full tree with real hashes"],
                  machinery_error=merr)


def replay(path):
    with open(path) as fh:
        d = json.load(fh)
    ob = d["obligation"]
    tag, name = ob["name"].split(":", 1)
    log("[C16] re-running %s on the current tree" % ob["name"])
    return run("thorough", only=None if not name else [name + "@" + tag])
