"""C16 LMS never reuses a one-time key and accepts exactly its own signatures (engine K).

One-step induction over the private-key state machine plus RFC 8554 equivalence
of the Winternitz / Merkle layers, decided by Kani (CBMC + CaDiCaL) on the real
code of src/lms.rs, hashes replaced by deterministic stand-ins.  See
engines/kani/NOTES_C16.md for the harness list, bounds, stubs and timings."""
import json, os, shutil, time
from engines.kani.runner import HDIR, Insert, prepare, run_harnesses, replay as kreplay
from vlib.common import Obligation, finish, log

PID = "C16"
NCX = "verif_ncx_"
BODY = "lms_body.rs"

# tag, wrapper file, module in src/lms.rs
SETS = [
    ("s256m32", "lms_s256m32.rs", "LMS_SHA256_M32_H5_SHA256_N32_W8"),
    ("s256m24", "lms_s256m24.rs", "LMS_SHA256_M24_H5_SHA256_N24_W8"),
    ("shakem24", "lms_shakem24.rs", "LMS_SHAKE_M24_H5_SHAKE_N24_W8"),
    ("shakem32", "lms_shakem32.rs", "LMS_SHAKE_M32_H5_SHAKE_N32_W8"),
]
ALL = tuple(s[0] for s in SETS)

# CBMC's own pointer/overflow instrumentation and Kani's per-assertion
# reachability checks are switched off: src/lms.rs is safe Rust, Rust's own
# bounds/overflow/unwrap panics stay in as assertions, vacuity is guarded by
# explicit kani::cover! statements; with them a harness costs 2-3x more.
KARGS = ("-Z", "unstable-options", "--no-assertion-reach-checks", "--no-memory-safety-checks",
         "--no-overflow-checks")

# harness -> description; "quick"/"thorough": sets it runs on in that tier; cap: (quick, thorough) seconds;
# "weight": scheduling order (heaviest first); "deep": twin harness with full unwinding used when the
# shallow one stops at an unwinding assertion or fails
H = {
    "verif_lms_verify_ref_cff": dict(
        fn=["PublicKey::verify", "PublicKey::ots_verify", "coef", "checksum"],
        desc="verify(sig, msg) == RFC 8554 Algorithms 6/6a/4b for ALL signature strings of length lms_siglen "
             "(q range, both type words, C / y[i] / path offsets, chain start and end, Merkle parity order, "
             "full-width root comparison), message hash Q = FF..FF (coefficients 255, checksum chains run 255 steps)",
        bounds="all lms_siglen-byte strings, all I/T1, msg 3 symbolic bytes; chain lengths fixed by Q = FF..FF",
        quick=(), thorough=ALL, cap=(0, 1500), weight=190),
    "verif_lms_ots_verify_ref_cff": dict(
        fn=["PublicKey::ots_verify", "coef", "checksum"],
        desc="ots_verify(q, sig, msg) == RFC 8554 Algorithm 4b for ALL LM-OTS signature strings of length ots_siglen "
             "and any q: u32 (None iff type word wrong; C / y[i] offsets, chain start j = a_i and end, Kc); lengths "
             "ots_siglen+-1 and 3 rejected; message hash Q = FF..FF",
        bounds="all ots_siglen-byte strings, all I/q, msg 3 symbolic bytes; chain lengths fixed by Q = FF..FF",
        quick=("s256m24",), thorough=ALL, cap=(400, 1500), weight=170),
    "verif_lms_verify_layer": dict(
        fn=["PublicKey::verify"],
        desc="the LMS layer of verify == RFC 8554 Algorithm 6/6a for ALL signature strings of length lms_siglen: q "
             "range, LMS type word, (q, sig[4..4+ots_siglen], msg) handed to the LM-OTS layer, rejection when it "
             "rejects, leaf hash, path offsets, parity order, full-width root comparison; the LM-OTS layer "
             "(ots_verify / RFC Alg. 4b) is replaced on both sides by one deterministic stand-in",
        bounds="all lms_siglen-byte strings, all I/T1, msg 3 symbolic bytes; no Winternitz chain executed",
        quick=ALL, thorough=ALL, cap=(200, 600), weight=50),
    "verif_lms_ots_sign_ref_c00": dict(
        fn=["PrivateKey::ots_sign", "PrivateKey::make_ots_x", "coef", "checksum"],
        desc="ots_sign(q, msg) == RFC 8554 Algorithm 3 (type || C || y[i] = F^{a_i}(x_i), a = coef(Q||Cksm(Q))) for "
             "any q: u32, any I/SEED/C, exactly one RNG draw of n bytes; message hash Q = 00..00 "
             "(coefficients 0, checksum chains run 31 and 224 steps)",
        bounds="all I/SEED/q/C, msg 3 symbolic bytes; chain lengths fixed by Q = 00..00",
        quick=("shakem24",), thorough=ALL, cap=(360, 1500), weight=150),
    "verif_lms_sign_path_q8": dict(
        fn=["PrivateKey::sign"],
        desc="for leaves 0,1,2,10,21,29,30,31 and an arbitrary tree: q word == old index, current_leaf == old+1 already "
             "when the RNG is first called, I/SEED/T unchanged, embedded LM-OTS signature == ots_sign(old,msg), "
             "type word, path[i] == T[((2^h+q)>>i)^1] for i < h (RFC 8554 5.4.1)",
        bounds="8 concrete leaves, tree/I/SEED/randomness symbolic, msg 2 symbolic bytes; ots_sign replaced by stand-in",
        quick=ALL, thorough=(), cap=(300, 900), weight=100),
    "verif_lms_sign_path_all": dict(
        fn=["PrivateKey::sign"],
        desc="same as sign_path_q8 for every leaf 0..2^h-1",
        bounds="all 32 leaves (concrete), tree/I/SEED/randomness symbolic, msg 2 symbolic bytes",
        quick=(), thorough=ALL, cap=(240, 1500), weight=300),
    "verif_lms_sign_exhausted": dict(
        fn=["PrivateKey::sign"],
        desc="ANY current_leaf >= 2^h (symbolic u32), arbitrary I/SEED/T: sign returns None, twice; state "
             "bit-identical; RNG never called; ots_sign never reached",
        bounds="all u32 >= 32; msg 3 symbolic bytes",
        quick=ALL, thorough=ALL, cap=(200, 900), weight=60),
    "verif_lms_sign_state_anytree": dict(
        fn=["PrivateKey::sign"],
        desc="one step from ANY state with current_leaf fully symbolic (exhausted or not) and an arbitrary tree: "
             "None iff current_leaf >= 2^h; else q word, increment-before-RNG, state preservation, all "
             "ots_siglen embedded bytes, type word",
        bounds="current_leaf any u32, tree symbolic (symbolic authentication-path copy, ~15M clauses)",
        quick=(), thorough=ALL, cap=(240, 2000), weight=400),
    "verif_lms_sign_state_tree0": dict(
        fn=["PrivateKey::sign"],
        desc="same as sign_state_anytree with the tree fixed to zero and the embedded signature compared at both ends",
        bounds="current_leaf any u32, tree constant",
        quick=(), thorough=ALL, cap=(240, 900), weight=120),
    "verif_lms_params_coef": dict(
        fn=["n/m/w/h/p/ls/key_type/ots_type/ots_siglen/lms_siglen", "make_p_ls", "coef", "checksum",
            "PrivateKey::compute_public"],
        desc="parameter-set constants equal the RFC 8554 / SP 800-208 table values; p, ls follow RFC 8554 4.1; "
             "coef(S,i) == i-th w-bit field (bit by bit) for all (n+2)-byte S and all i < p; checksum(Q) == RFC 8554 "
             "4.4 Cksm for all n-byte Q; compute_public returns (I, T[1])",
        bounds="all Q, all S, all i < p; key bytes symbolic", quick=ALL, thorough=ALL, cap=(200, 600), weight=40),
    "verif_lms_verify_reject_shallow": dict(
        fn=["PublicKey::verify", "PublicKey::ots_verify"],
        desc="for ANY public key and ANY signature bytes: verify rejects lengths lms_siglen+-1, +-m, 2*lms_siglen, "
             "ots_siglen+8, ots_siglen+4, 8, 7, 4, 3, 0; q >= 2^h; any LM-OTS type word != ots_type; any LMS type "
             "word != key_type -- all before any hash is computed (unwinding 3 suffices)",
        bounds="12 concrete lengths, all bytes symbolic; all wrong words", quick=ALL, thorough=ALL,
        cap=(200, 600), weight=30, deep="verif_ncx_lms_verify_reject_deep", deep_cap=(900, 1800)),
    "verif_lms_ots_sign_ref_q1": dict(
        fn=["PrivateKey::ots_sign", "coef", "checksum"],
        desc="ots_sign == RFC 8554 Algorithm 3 with one SYMBOLIC Winternitz coefficient (Q = 01..01 except Q[5] "
             "symbolic, hence symbolic checksum digits): chains of symbolic length",
        bounds="Q[5] and both checksum coefficients symbolic, others 1", quick=(), thorough=(),
        cap=(0, 2300), weight=900),   # not posed: CBMC ends with an internal error after 240-520 s (run with --only)
    "verif_lms_verify_ref_q1": dict(
        fn=["PublicKey::verify", "PublicKey::ots_verify", "coef", "checksum"],
        desc="verify == RFC 8554 Algorithms 6/6a/4b with one SYMBOLIC Winternitz coefficient (Q = FE..FE except Q[5])",
        bounds="Q[5] and both checksum coefficients symbolic, others 254", quick=(), thorough=(),
        cap=(0, 2300), weight=1000),  # not posed: no answer within 2300 s (run with --only)
    "verif_lms_chain_fast_eq": dict(
        fn=["(machinery) ref_chain_fast == ref_chain under the stand-in hash"],
        desc="the closed form that replaces the reference Winternitz chain under Kani equals the reference chain run "
             "with the stand-in hash, ranges 0..255, 0..31, 255..255",
        bounds="all I/q/i/start", quick=(), thorough=("s256m32", "shakem24"), cap=(0, 1200), weight=200),
    "verif_lms_chainsym_fast_eq": dict(
        fn=["(machinery) ref_chain_fast == ref_chain under the stand-in hash"],
        desc="same with a symbolic entry / exit point",
        bounds="from in 0..=255 symbolic", quick=(), thorough=("s256m32",), cap=(0, 2000), weight=600),
}

STUBS = {
    "Hn -> hn_00 / hn_ff": "deterministic stand-in. Chain step and x[i] derivation: input carried "
        "over, byte 0 += (j|1), byte 1 ^= digest(I,q,i) on the steps j in {0,254,255}. Message hash: Q constant "
        "(00..00 for signing, FF..FF for verification). Functional consistency "
        "only; collision resistance is outside the claim (C17 decides that the real functions are SHA-256/SHAKE256)",
    "Hm -> hm_lean, Hnx -> hnx_lean": "deterministic, order-sensitive lane mixers over all inputs",
    "PrivateKey::ots_sign -> ots_sign_pool (sign_path_*, sign_state_*)": "draws C from the RNG like the real function "
        "and returns harness-chosen arbitrary bytes with type word, C and a digest of (I,q,SEED,msg) written in; the "
        "real ots_sign is decided by ots_sign_ref_*",
    "PrivateKey::ots_sign -> ots_sign_never (sign_exhausted)": "assert!(false); assume(false)",
    "PublicKey::ots_verify and ref_ots_kc -> kc_standin (verify_layer only)": "None iff length or type word wrong, "
        "else a digest of (I, q, first/second/middle/last block of the LM-OTS signature, msg); the real ots_verify "
        "is decided inside verify_ref_* (thorough tier) and by verify_reject_*",
    "ref_chain -> ref_chain_fast": "reference-side Winternitz chain in closed form under the stand-in hash "
        "(decided equal by chain_fast_eq*, thorough tier)",
    "honest -> honest_any, is_native -> false": "under Kani the (public key, signature) pair is ARBITRARY; in native "
        "replay it is generated honestly (RFC 8554 key generation on the leaf's path + the library's sign)",
    "RNG": "harness type VRng (tape symbolic); records calls and the key's current_leaf at the first call",
}


def _match(tok, tag, name):
    """--only token: <name-substring>[@<set tag>] or a bare set tag"""
    if "@" in tok:
        a, b = tok.split("@", 1)
        return b == tag and a in name
    return tok == tag or tok in name


def sel(tag, k, name):
    return "verif_lms_%s_%d::%s" % (tag, k, name)


def _short(name):
    s = name[len("verif_lms_"):]
    return s[:-len("_shallow")] if s.endswith("_shallow") else s


def run(tier, only=None):
    t0 = time.time()
    ti = 0 if tier == "quick" else 1
    inserts = [Insert("src/lms.rs", os.path.join(HDIR, f), module=mod) for _, f, mod in SETS]
    sc = prepare(inserts)
    shutil.copy(os.path.join(HDIR, BODY), os.path.join(sc.src, "src", "verif_h", BODY))
    items = []
    for k, (tag, f, mod) in enumerate(SETS):
        for name, d in H.items():
            if only:
                if not any(_match(o, tag, name) for o in only):
                    continue
            elif tag not in d["quick" if tier == "quick" else "thorough"]:
                continue
            cap = d["cap"][ti] or d["cap"][1]
            items.append((tag, k, f, mod, name, d, cap))
    items.sort(key=lambda it: -it[5]["weight"])
    res = run_harnesses(sc, [(sel(tag, k, name), cap) for tag, k, f, mod, name, d, cap in items],
                        mem_gb=14, jobs=8, extra_args=KARGS) if items else {}
    # escalation 1: a shallow harness that did not close is re-run with full unwinding (cover-free twin)
    esc = [(tag, k, name, d) for tag, k, f, mod, name, d, cap in items
           if d.get("deep") and res[sel(tag, k, name)].status in ("unwind", "failure")]
    if esc:
        log("[C16] escalating %d shallow harness(es) to full unwinding" % len(esc))
        res2 = run_harnesses(sc, [(sel(tag, k, d["deep"]), d["deep_cap"][ti]) for tag, k, name, d in esc],
                             mem_gb=14, jobs=8, extra_args=KARGS)
        for tag, k, name, d in esc:
            r2 = res2[sel(tag, k, d["deep"])]
            r2.seconds += res[sel(tag, k, name)].seconds
            r2.covers = res[sel(tag, k, name)].covers
            res[sel(tag, k, name)] = r2
    # escalation 2: Kani prints one playback test per satisfied cover and per failed check and the runner
    # replays the first; a failed harness is therefore re-run as its cover-free twin before the replay
    done = set((tag, name) for tag, k, name, d in esc)
    tw = [(tag, k, name, cap) for tag, k, f, mod, name, d, cap in items
          if res[sel(tag, k, name)].status == "failure" and (tag, name) not in done]
    if tw:
        log("[C16] re-running %d failed harness(es) without vacuity covers for the replay" % len(tw))
        res3 = run_harnesses(sc, [(sel(tag, k, NCX + name[len("verif_"):]), cap * 2) for tag, k, name, cap in tw],
                             mem_gb=14, jobs=8, extra_args=KARGS)
        for tag, k, name, cap in tw:
            r3 = res3[sel(tag, k, NCX + name[len("verif_"):])]
            r1 = res[sel(tag, k, name)]
            if r3.status == "failure":
                r3.seconds += r1.seconds
                r3.covers = r1.covers
                res[sel(tag, k, name)] = r3
            else:
                r1.playback = None
                r1.failed.append("(cover-free twin: %s)" % r3.status)
    obs, merr = [], None
    for tag, k, f, mod, name, d, cap in items:
        r = res[sel(tag, k, name)]
        ob = Obligation("%s:%s" % (tag, _short(name)), "K",
                        ["%s::%s" % (mod, x) for x in d["fn"]], d["bounds"], d["desc"])
        log("[C16] %-9s %-32s %-8s %6.1fs covers=%s %s" % (tag, name, r.status, r.seconds, r.covers,
                                                          "; ".join(r.failed[:2])[:300]))
        if r.status == "success":
            if r.unsat_covers or r.covers[0] != r.covers[1] or r.covers[1] == 0:
                ob.unknown("vacuity guard not reached: %s" % r.unsat_covers[:3], "kani", r.seconds)
                merr = "cover unreachable in %s:%s: %s" % (tag, name, r.unsat_covers[:3])
            else:
                ob.ok("kani/cbmc+cadical", r.seconds)
        elif r.status == "failure":
            kreplay(sc, r, f)
            if r.replayed is True:
                ob.fail({"key": "%s:%s" % (tag, _short(name)), "module": mod, "harness": r.name,
                         "failed_checks": r.failed[:8], "playback": r.playback}, "kani+native playback", r.seconds)
            else:
                ob.unknown("counterexample lives only under a stub / does not reproduce natively (replayed=%s): %s"
                           % (r.replayed, "; ".join(r.failed[:3])[:400]), "kani", r.seconds)
        else:
            ob.unknown("%s: %s" % (r.status, r.log_tail[-300:].replace("\n", " | ")), "kani", r.seconds)
        obs.append(ob)
    sc.remove()
    if not only or "corpus" in only:
        # native closed cases beyond the harness bounds (long messages, all digit values, all leaves, exhaustion)
        from . import C16_corpus as LC
        try:
            obs.extend(LC.obligations(tier))
        except Exception as e:        # noqa
            o_ = Obligation("default:lms:roundtrip_corpus", "ground")
            o_.unknown("corpus build/run failed: %s" % str(e)[-300:])
            obs.append(o_)
    posed = sorted(set((tag, _short(name)) for tag, k, f, mod, name, d, cap in items))
    notposed = sorted("%s:%s" % (tag, _short(name)) for name, d in H.items() for tag in ALL
                      if tag in d["thorough"] and (tag, _short(name)) not in posed)
    return finish(PID, tier, obs, t0,
                  functions_encoded=sorted(set(fn for o in obs for fn in o.functions)),
                  bounds={"parameter sets": [s[2] for s in SETS], "message": "2-3 symbolic bytes",
                          "unwind": "256 = 2^w (Winternitz chain); 66 = 2^(h+1)+2; 1126 = ots_siglen+2; 3 (reject_shallow)",
                          "winternitz coefficients": "fixed by the message-hash stand-in (00..00 signing / FF..FF "
                                                     "verifying)"},
                  stubs=STUBS,
                  assumptions=["Kani 0.68 / CBMC 6.11 semantics of MIR; CBMC pointer/overflow instrumentation and "
                               "assertion-reachability checks off (safe Rust; Rust's own panics stay assertions)",
                               "hash stand-ins are deterministic functions (functional consistency); no "
                               "collision-resistance claim",
                               "acceptance of honest signatures follows by composing ots_sign == RFC Alg. 3, "
                               "sign path == RFC 5.4.1, verify == RFC Alg. 6 with RFC 8554's own correctness argument "
                               "(F^(255-a) o F^a = F^255); it is exercised directly only in native replays"],
                  outside=["collision / preimage resistance (rejection of other messages and of altered hash-chain "
                           "bytes rests on it: verify is shown equal to the RFC predicate, not unforgeable)",
                           "compute_tree / generate (277k hash calls); the tree is arbitrary or honest-on-the-path",
                           "symbolic Winternitz coefficients inside whole signatures: the chain lengths are fixed by the "
                           "message-hash stand-in to the vectors 00..00 (sign) and FF..FF (verify); one symbolic "
                           "coefficient (harnesses *_q1) gives a CBMC internal error after 240-520 s resp. no answer in "
                           "2300 s, all symbolic > 50M statements; coef/checksum themselves are decided for ALL Q and "
                           "a chain entered at a symbolic point is decided for the reference (chainsym_fast_eq)",
                           "w in {1,2,4}: no such parameter set is instantiated",
                           "in this tier not posed (thorough only): " + ", ".join(notposed)],
                  machinery_error=merr)


def replay(path):
    with open(path) as fh:
        d = json.load(fh)
    ob = d["obligation"]
    tag, name = ob["name"].split(":", 1)
    log("[C16] re-running %s on the current tree" % ob["name"])
    # a replay poses one obligation only: keep the evidence file of the last full run
    ev = os.path.join(os.path.dirname(HDIR), "..", "..", "evidence", PID + ".json")
    keep = open(ev).read() if os.path.exists(ev) else None
    try:
        return run("thorough", only=["%s@%s" % (name, tag)])
    finally:
        if keep is not None:
            with open(ev, "w") as fh:
                fh.write(keep)
