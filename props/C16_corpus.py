"""C16: native closed cases for LMS signing / verification (ground facts, not solver coverage): the Kani harnesses
bound the message and keep the Winternitz digits concrete; these round trips reach what lies outside those bounds --
messages of 65 535 / 65 536 / 65 541 bytes, thousands of short messages (so that every digit value, including a zero
checksum digit, occurs), all 32 leaves of a key and the exhaustion of the key."""
import time
from engines.llsym.build import build, Driver
from vlib.common import Obligation

PRELUDE = """
    pub struct VRng(pub u64);
    impl rand_core::RngCore for VRng {
        fn next_u32(&mut self) -> u32 { self.next_u64() as u32 }
        fn next_u64(&mut self) -> u64 { let mut x = self.0; x ^= x << 13; x ^= x >> 7; x ^= x << 17; self.0 = x; x }
        fn fill_bytes(&mut self, d: &mut [u8]) { for b in d.iter_mut() { *b = self.next_u64() as u8; } }
        fn try_fill_bytes(&mut self, d: &mut [u8]) -> Result<(), rand_core::Error> { self.fill_bytes(d); Ok(()) }
    }
    impl rand_core::CryptoRng for VRng {}
"""
SETS = ["LMS_SHA256_M32_H5_SHA256_N32_W8", "LMS_SHA256_M24_H5_SHA256_N24_W8", "LMS_SHAKE_M24_H5_SHAKE_N24_W8", "LMS_SHAKE_M32_H5_SHAKE_N32_W8"]


def drivers():
    ds = []
    for i, ps in enumerate(SETS):
        body = ("        let mut rng = VRng(seed[0] | 1);\n"
                "        let mut sk = crate::lms::%s::PrivateKey::generate(&mut rng); let pk = sk.compute_public();\n"
                "        let mut bad = 0u32; let mut first = 0xFFFFFFFFu32;\n"
                "        let mut msg = vec![0u8; mlen as usize];\n"
                "        for q in 0..33u32 {\n"
                "            for (j, b) in msg.iter_mut().enumerate() { *b = (seed[0].wrapping_mul(0x9E3779B97F4A7C15).wrapping_add((q as u64) << 32).wrapping_add(j as u64) >> ((j & 7) * 8)) as u8; }\n"
                "            match sk.sign(&mut rng, &msg) {\n"
                "                Some(sig) => { if q >= 32 || !pk.verify(&sig, &msg) { bad += 1; if first == 0xFFFFFFFF { first = q; } }\n"
                "                               if mlen > 0 { let mut m2 = msg.clone(); m2[0] ^= 1; if pk.verify(&sig, &m2) { bad += 1; if first == 0xFFFFFFFF { first = 0x100 | q; } } } }\n"
                "                None => { if q < 32 { bad += 1; if first == 0xFFFFFFFF { first = 0x200 | q; } } }\n"
                "            }\n"
                "        }\n"
                "        st[0] = bad; st[1] = first;" % ps)
        ds.append(Driver("drv_lms_rt_%d" % i, [("seed", "in", 8, 1), ("mlen", "val", 4, 1), ("st", "out", 4, 2)], body))
    return ds


def obligations(tier):
    built = build(drivers(), tag="C16-corpus", prelude=PRELUDE)
    obs = []
    try:
        nkeys = 24 if tier == "quick" else 80
        for i, ps in enumerate(SETS if tier != "quick" else SETS[:2]):
            ob = Obligation("default:%s:roundtrip_corpus" % ps, "ground", ["lms::%s::PrivateKey::sign / ots_sign" % ps, "lms::%s::PublicKey::verify" % ps],
                            "closed cases: %d keys x 32 leaves, 8-byte messages; one key each for message lengths 0, 1, 65535, 65536, 65541; 33rd signature" % nkeys,
                            "every signature verifies under the key's public key, does not verify for a message with one bit flipped, "
                            "and the 33rd call returns None")
            t0 = time.time()
            bad = None
            for k in range(nkeys + 5):
                mlen = 8 if k < nkeys else [0, 1, 65535, 65536, 65541][k - nkeys]
                nat = built.native("drv_lms_rt_%d" % i, {"seed": [0x1234567 + 977 * k], "mlen": mlen})
                if nat["st"][0] != 0:
                    bad = {"key": "lms.roundtrip", "parameter_set": ps, "inputs": {"rng_seed": hex(0x1234567 + 977 * k), "message_length": mlen},
                           "failures": nat["st"][0], "first_failure_code": hex(nat["st"][1]),
                           "found_by": "native replay of closed cases (sign -> verify round trips)"}
                    break
            (ob.fail(bad, "native", time.time() - t0, 0) if bad else ob.ok("native replay x%d keys" % (nkeys + 5), time.time() - t0, 0, syntactic=True))
            obs.append(ob)
    finally:
        built.close()
    return obs
