"""C17 Hash functions match their standards for every input and call pattern (engine L).

Two layers, both decided on the optimized LLVM IR of the current tree:

 layer 2  every compression function that the IR contains as a separate
          function (SHA2Small::process, SHA2Big::process, KeccakState::process,
          Blake2s::process_block) is executed with a fully symbolic state and
          block and proved equal, output word by output word, to the
          transcription of the standard's round function (props/hashspec.py):
          word-level sweeping, cut points discovered by simulation, every lemma
          a small QF_BV query.
 layer 1  public call patterns (lengths, split points, reset/clone/extract
          sequences, key and output lengths) are enumerated as CONCRETE shapes;
          for each shape the driver is executed with all message/key bytes
          symbolic and the compression function replaced, through a call hook,
          by an uninterpreted function.  The oracle is the standard's padding /
          chaining / sponge / counter rule over the same uninterpreted function
          applied to the concatenated message.  Equality of every output byte
          is syntactic after hash-consing or decided by z3 (QF_UFBV).

 step     (props/C17_step.py) the same comparison started from an ARBITRARY
          mid-stream context (chaining value, buffer, byte counter symbolic):
          one `update`, or the finalisation, against the one-step form of the
          standard's rule.  With layer 1 as the base case this decides, by
          induction over the stream, messages of any length and any number of
          update calls, and every counter value (length fields, BLAKE2s t[0]/t[1]).

The seam between the layers (hook == "h := F(h, block), nothing else
changes") is exactly the statement layer 2 proves, frame condition included."""
import hashlib, json, os, re, sys, time, traceback
from concurrent.futures import ThreadPoolExecutor
from engines.llsym.build import build, Driver
from engines.llsym import terms as T
from engines.llsym.llexec import Executor, Ptr, ExecError, PanicReached
from engines.llsym.smt import BVEmitter, run_solver, parse_model
from vlib.common import Obligation, finish, log, NCPU, REPO
from vlib.par import pmap
from . import hashspec as H
from . import C17_step as STEP
from .lhelp import sym_run, rng, MachineryError

# ---------------------------------------------------------------------------------------------
# the functions under test

# tag, rust type, digest bytes, block/rate bytes, length-field bytes (SHA-2) or 0
FIXED = [
    ("sha224", "crate::sha2::Sha224", 28, 64, 8),
    ("sha256", "crate::sha2::Sha256", 32, 64, 8),
    ("sha384", "crate::sha2::Sha384", 48, 128, 16),
    ("sha512", "crate::sha2::Sha512", 64, 128, 16),
    ("sha512_224", "crate::sha2::Sha512_224", 28, 128, 16),
    ("sha512_256", "crate::sha2::Sha512_256", 32, 128, 16),
    ("sha3_224", "crate::sha3::SHA3_224", 28, 144, 0),
    ("sha3_256", "crate::sha3::SHA3_256", 32, 136, 0),
    ("sha3_384", "crate::sha3::SHA3_384", 48, 104, 0),
    ("sha3_512", "crate::sha3::SHA3_512", 64, 72, 0),
]
XOF = [("shake128", "crate::sha3::SHAKE128", 168), ("shake256", "crate::sha3::SHAKE256", 136)]
BLK = {t[0]: t[3] for t in FIXED}
BLK.update({t[0]: t[2] for t in XOF})
BLK["blake2s"] = 64
DLEN = {t[0]: t[2] for t in FIXED}
ALL_TAGS = [t[0] for t in FIXED] + [t[0] for t in XOF] + ["blake2s"]
QUICK_TAGS = ["sha256", "sha512", "sha3_256", "shake128", "blake2s"]

COMPRESS_PAT = {
    "sha2small": r"sha2.*SHA2Small.*7process",
    "sha2big": r"sha2.*SHA2Big.*7process",
    "keccak": r"sha3.*KeccakState.*7process",
    "blake2s": r"blake2s.*Blake2s.*13process_block",
}
FAMILY = {"sha224": "sha2small", "sha256": "sha2small", "sha384": "sha2big", "sha512": "sha2big",
          "sha512_224": "sha2big", "sha512_256": "sha2big", "sha3_224": "keccak", "sha3_256": "keccak",
          "sha3_384": "keccak", "sha3_512": "keccak", "shake128": "keccak", "shake256": "keccak",
          "blake2s": "blake2s"}


def nbuf(tag):
    return 2 * BLK[tag] + 16


# ---------------------------------------------------------------------------------------------
# drivers

def _lens(names):
    return "        let (%s) = (%s);\n" % (", ".join(names), ", ".join("%s as usize" % n for n in names))


def V(*names):
    return [(n, "val", 8, 1) for n in names]


def fixed_drivers(tag, ty, dl, blk, _lf):
    n = nbuf(tag)
    M = ("msg", "in", 1, n)
    O = lambda k: ("out%s" % ("" if k == 1 else k), "out", 1, dl)
    new = "        let mut h = <%s>::new();\n" % ty
    ds = [
        Driver("drv_%s_upd3" % tag, [M] + V("l1", "l2", "l3") + [O(1)],
               _lens(["l1", "l2", "l3"]) + new +
               "        h.update(&msg[..l1]); h.update(&msg[l1..l1 + l2]); h.update(&msg[l1 + l2..l1 + l2 + l3]);\n"
               "        *out = h.digest();"),
        Driver("drv_%s_reuse" % tag, [M] + V("l1", "l2", "l3") + [O(1), O(2)],
               _lens(["l1", "l2", "l3"]) + new +
               "        h.update(&msg[..l1]);\n        *out = h.finalize_reset();\n"
               "        h.update(&msg[l1..l1 + l2]); h.update(&msg[l1 + l2..l1 + l2 + l3]);\n"
               "        *out2 = h.finalize();"),
        Driver("drv_%s_reset" % tag, [M] + V("l1", "l2") + [O(1)],
               _lens(["l1", "l2"]) + new +
               "        h.update(&msg[..l1]); h.reset(); h.update(&msg[l1..l1 + l2]);\n        *out = h.digest();"),
        Driver("drv_%s_clone" % tag, [M] + V("l1", "l2", "l3", "l4") + [O(1), O(2)],
               _lens(["l1", "l2", "l3", "l4"]) + new +
               "        h.update(&msg[..l1]);\n        let mut c = h.clone();\n"
               "        h.update(&msg[l1..l1 + l2]); c.update(&msg[l1 + l2..l1 + l2 + l3]);\n"
               "        h.update(&msg[l1 + l2 + l3..l1 + l2 + l3 + l4]);\n"
               "        *out = h.digest(); *out2 = c.digest();"),
        Driver("drv_%s_alias" % tag, [M] + V("l1") + [O(1), O(2), O(3), O(4), ("st", "out", 8, 2)],
               _lens(["l1"]) +
               "        *out = <%s>::hash(&msg[..l1]);\n" % ty + new +
               "        *out2 = [0u8; %d]; *out3 = [0u8; %d];\n" % (dl, dl) +
               "        h.update(&msg[..l1]); st[0] = h.finalize_write(&mut out2[..]) as u64;\n"
               "        h.update(&msg[..l1]); st[1] = h.finalize_reset_write(&mut out3[..]) as u64;\n"
               "        h.update(&msg[..l1]); *out4 = h.finalize();"),
    ]
    return ds


def xof_drivers(tag, ty, rate):
    n = nbuf(tag)
    M = ("msg", "in", 1, n)
    O = lambda k: ("out%s" % ("" if k == 1 else k), "out", 1, n)
    new = "        let mut h = <%s>::new();\n" % ty
    z = lambda *os: "        " + " ".join("*%s = [0u8; %d];" % (o, n) for o in os) + "\n"
    return [
        Driver("drv_%s_x" % tag, [M] + V("l1", "l2", "o1", "o2", "o3") + [O(1)],
               _lens(["l1", "l2", "o1", "o2", "o3"]) + z("out") + new +
               "        h.inject(&msg[..l1]); h.update(&msg[l1..l1 + l2]); h.flip();\n"
               "        h.extract(&mut out[..o1]); h.extract(&mut out[o1..o1 + o2]); h.extract(&mut out[o1 + o2..o1 + o2 + o3]);"),
        Driver("drv_%s_reuse" % tag, [M] + V("l1", "l2", "o1", "o2") + [O(1), O(2)],
               _lens(["l1", "l2", "o1", "o2"]) + z("out", "out2") + new +
               "        h.inject(&msg[..l1]); h.flip_extract_reset(&mut out[..o1]);\n"
               "        h.inject(&msg[l1..l1 + l2]); h.flip_extract(&mut out2[..o2]);"),
        Driver("drv_%s_reset" % tag, [M] + V("l1", "l2", "l3", "o1", "o2") + [O(1), O(2)],
               _lens(["l1", "l2", "l3", "o1", "o2"]) + z("out", "out2") + new +
               "        h.inject(&msg[..l1]); h.reset();\n"
               "        h.inject(&msg[l1..l1 + l2]); h.flip(); h.extract(&mut out[..o1]); h.reset();\n"
               "        h.inject(&msg[l1 + l2..l1 + l2 + l3]); h.flip_extract(&mut out2[..o2]);"),
        Driver("drv_%s_clone" % tag, [M] + V("l1", "l2", "l3", "o1", "o2", "o3") + [O(1), O(2), O(3)],
               _lens(["l1", "l2", "l3", "o1", "o2", "o3"]) + z("out", "out2", "out3") + new +
               "        h.inject(&msg[..l1]);\n        let mut c = h.clone();\n"
               "        h.inject(&msg[l1..l1 + l2]); c.inject(&msg[l1 + l2..l1 + l2 + l3]);\n"
               "        h.flip(); h.extract(&mut out[..o1]);\n        let mut d = h.clone();\n"
               "        h.extract(&mut out[o1..o1 + o2]); d.extract(&mut out3[..o2]);\n"
               "        c.flip(); c.extract(&mut out2[..o3]);"),
    ]


def blake2s_drivers():
    n = nbuf("blake2s")
    M = ("msg", "in", 1, n)
    K = ("key", "in", 1, 32)
    O = lambda k: ("out%s" % ("" if k == 1 else k), "out", 1, 32)
    ST = ("st", "out", 8, 2)
    z = lambda *os: "        " + " ".join("*%s = [0u8; 32];" % o for o in os) + " *st = [0u64; 2];\n"
    kn = "        let mut h = crate::blake2s::KeyedBlake2s::new(ol, &key[..kl]);\n"
    un = "        let mut h = crate::blake2s::Blake2s::new(ol);\n"
    up3 = "        h.update(&msg[..l1]); h.update(&msg[l1..l1 + l2]); h.update(&msg[l1 + l2..l1 + l2 + l3]);\n"
    return [
        Driver("drv_blake2s_k3", [M, K] + V("kl", "ol", "l1", "l2", "l3") + [O(1), ST],
               _lens(["kl", "ol", "l1", "l2", "l3"]) + z("out") + kn + up3 +
               "        st[0] = h.finalize_write(&mut out[..]) as u64;"),
        Driver("drv_blake2s_u3", [M] + V("ol", "l1", "l2", "l3") + [O(1), ST],
               _lens(["ol", "l1", "l2", "l3"]) + z("out") + un + up3 +
               "        st[0] = h.finalize_write(&mut out[..]) as u64;"),
        Driver("drv_blake2s_kreuse", [M, K] + V("kl", "ol", "l1", "l2", "l3") + [O(1), O(2), ST],
               _lens(["kl", "ol", "l1", "l2", "l3"]) + z("out", "out2") + kn +
               "        h.update(&msg[..l1]); st[0] = h.finalize_reset_write(&mut out[..]) as u64;\n"
               "        h.update(&msg[l1..l1 + l2]); h.update(&msg[l1 + l2..l1 + l2 + l3]);\n"
               "        st[1] = h.finalize_write(&mut out2[..]) as u64;"),
        Driver("drv_blake2s_kreset", [M, K] + V("kl", "ol", "l1", "l2") + [O(1), ST],
               _lens(["kl", "ol", "l1", "l2"]) + z("out") + kn +
               "        h.update(&msg[..l1]); h.reset(); h.update(&msg[l1..l1 + l2]);\n"
               "        st[0] = h.finalize_write(&mut out[..]) as u64;"),
        Driver("drv_blake2s_ureuse", [M] + V("ol", "l1", "l2", "l3") + [O(1), O(2), ST],
               _lens(["ol", "l1", "l2", "l3"]) + z("out", "out2") + un +
               "        h.update(&msg[..l1]); st[0] = h.finalize_reset_write(&mut out[..]) as u64;\n"
               "        h.update(&msg[l1..l1 + l2]); h.update(&msg[l1 + l2..l1 + l2 + l3]);\n"
               "        st[1] = h.finalize_write(&mut out2[..]) as u64;"),
        Driver("drv_blake2s_ureset", [M] + V("ol", "l1", "l2") + [O(1), ST],
               _lens(["ol", "l1", "l2"]) + z("out") + un +
               "        h.update(&msg[..l1]); h.reset(); h.update(&msg[l1..l1 + l2]);\n"
               "        st[0] = h.finalize_write(&mut out[..]) as u64;"),
        Driver("drv_blake2s_alias", [M, K] + V("kl", "ol", "l1", "l2") + [O(1), O(2), O(3), O(4), O(5), O(6), ST],
               _lens(["kl", "ol", "l1", "l2"]) + z("out", "out2") +
               "        crate::blake2s::KeyedBlake2s::hash_into(ol, &key[..kl], &msg[..l1], &mut out[..]);\n"
               "        crate::blake2s::Blake2s::hash_into(ol, &msg[..l1], &mut out2[..]);\n"
               "        *out3 = crate::blake2s::Blake2s256::hash(&msg[..l1]);\n"
               "        let mut g = crate::blake2s::Blake2s256::new();\n"
               "        g.update(&msg[..l1]); *out4 = g.finalize_reset();\n"
               "        g.update(&msg[l1..l1 + l2]); *out5 = [0u8; 32]; st[0] = g.finalize_reset_write(&mut out5[..]) as u64;\n"
               "        g.update(&msg[..l2]); *out6 = [0u8; 32]; st[1] = g.finalize_write(&mut out6[..]) as u64;"),
    ]


def internal_drivers():
    """drivers inside the hash modules (they see the private items): struct
    layout facts and the compression functions for native validation"""
    lay = "\n".join(
        "        out[%d] = core::mem::size_of::<%s>() as u64; out[%d] = core::mem::offset_of!(%s, h) as u64; "
        "out[%d] = core::mem::offset_of!(%s, buf) as u64;" % (3 * i, t, 3 * i + 1, t, 3 * i + 2, t)
        for i, t in enumerate(["SHA2Small<224>", "SHA2Small<256>", "SHA2Big<224>", "SHA2Big<256>",
                               "SHA2Big<384>", "SHA2Big<512>"]))
    return [
        Driver("drv_c17_layout_sha2", [("out", "out", 8, 18)], lay, "src/sha2.rs"),
        Driver("drv_c17_sha2small", [("h", "in", 4, 8), ("blk", "in", 1, 64), ("out", "out", 4, 8)],
               "        let mut s = SHA2Small::<256> { h: *h, buf: *blk, ctr: 0 };\n        s.process();\n        *out = s.h;",
               "src/sha2.rs"),
        Driver("drv_c17_sha2big", [("h", "in", 8, 8), ("blk", "in", 1, 128), ("out", "out", 8, 8)],
               "        let mut s = SHA2Big::<512> { h: *h, buf: *blk, ctr: 0 };\n        s.process();\n        *out = s.h;",
               "src/sha2.rs"),
        Driver("drv_c17_keccak", [("a", "in", 8, 25), ("out", "out", 8, 25)],
               "        let mut s = KeccakState(*a);\n        s.process();\n        *out = s.0;", "src/sha3.rs"),
        Driver("drv_c17_blake2s", [("h", "in", 4, 8), ("blk", "in", 1, 64), ("ctr", "val", 8, 1), ("last", "val", 8, 1),
                                   ("out", "out", 4, 8)],
               "        let mut hh = *h;\n        Blake2s::process_block(&mut hh, &blk[..], ctr, last != 0);\n        *out = hh;",
               "src/blake2s.rs"),
    ]


def all_drivers():
    ds = internal_drivers()
    for f in FIXED:
        ds += fixed_drivers(*f)
    for x in XOF:
        ds += xof_drivers(*x)
    ds += blake2s_drivers()
    ds += STEP.step_drivers(ALL_TAGS)
    return ds


# ---------------------------------------------------------------------------------------------
# layer 1: compression functions uninterpreted

class Ctx:
    """what the workers need besides the build"""
    def __init__(self, built, layout):
        self.built, self.layout = built, layout


def install_hooks(ex, layout):
    ex.c17_hooked = set()

    def sha2(kind, w):
        size, hoff, boff = layout[kind]
        bw = w // 8

        def hook(ex, name, argv, rty):
            p = argv[0]
            h = [ex.load(Ptr(p.obj, p.off + hoff + bw * i), bw) for i in range(8)]
            blk = ex.read_bytes(Ptr(p.obj, p.off + boff), 2 * w)
            nh = H.uf_sha2(w, h, blk)
            for i in range(8):
                ex.store(Ptr(p.obj, p.off + hoff + bw * i), bw, nh[i])
            ex.c17_hooked.add(ex.m.resolve(name))
            return None
        return hook

    def keccak(ex, name, argv, rty):
        p = argv[0]
        A = [ex.load(Ptr(p.obj, p.off + 8 * i), 8) for i in range(25)]
        B = H.uf_keccak(A)
        for i in range(25):
            ex.store(Ptr(p.obj, p.off + 8 * i), 8, B[i])
        ex.c17_hooked.add(ex.m.resolve(name))
        return None

    def blake(ex, name, argv, rty):
        hp, bp, ctr, last = argv
        h = [ex.load(Ptr(hp.obj, hp.off + 4 * i), 4) for i in range(8)]
        blk = ex.read_bytes(bp, 64)
        nh = H.uf_blake2s(h, blk, ctr, last)
        for i in range(8):
            ex.store(Ptr(hp.obj, hp.off + 4 * i), 4, nh[i])
        ex.c17_hooked.add(ex.m.resolve(name))
        return None
    ex.add_call_hook(COMPRESS_PAT["sha2small"], sha2("sha2small", 32))
    ex.add_call_hook(COMPRESS_PAT["sha2big"], sha2("sha2big", 64))
    ex.add_call_hook(COMPRESS_PAT["keccak"], keccak)
    ex.add_call_hook(COMPRESS_PAT["blake2s"], blake)


def native_uf(built):
    """During translator validation the uninterpreted compression functions are interpreted by
    the NATIVE compression function of the same build (not by the standard): layer 1 validates
    the call-pattern logic whatever the compression function computes (that is layer 2)."""
    cache = {}

    def mk(name, call):
        def impl(idx, vals):
            r = cache.get((name, vals))
            if r is None:
                if len(cache) > 4096:
                    cache.clear()
                r = cache[(name, vals)] = list(call(vals))
            return r[idx]
        T.UF_IMPL[name] = impl
    mk("sha2c32", lambda v: built.native("drv_c17_sha2small", {"h": v[:8], "blk": v[8:]})["out"])
    mk("sha2c64", lambda v: built.native("drv_c17_sha2big", {"h": v[:8], "blk": v[8:]})["out"])
    mk("keccakf", lambda v: built.native("drv_c17_keccak", {"a": v})["out"])
    mk("blake2sF", lambda v: built.native("drv_c17_blake2s", {"h": v[:8], "blk": v[8:72], "ctr": v[72], "last": v[73]})["out"])


def uf_compress_sha2(w, h, blk):
    return H.uf_sha2(w, h, blk)


def spec_digest(tag, msg, outlen=None, key=(), uf=True):
    """the standard's digest of msg (byte terms/ints) with the compression
    function uninterpreted (uf=True) or real"""
    if tag in H.SHA2:
        return H.sha2_digest(tag, msg, uf_compress_sha2 if uf else None)
    if tag in H.SHA3:
        return H.sha3_digest(tag, msg, outlen, H.uf_keccak if uf else None)
    return H.blake2s_digest(msg, key, outlen, H.uf_blake2s if uf else None)


class Shape:
    """one concrete call pattern: driver, concrete parameters, and the
    expected outputs as functions of the message/key byte lists"""
    __slots__ = ("tag", "aspect", "drv", "par", "expect", "nmsg", "nkey")

    def __init__(self, tag, aspect, drv, par, expect, nmsg, nkey=0):
        self.tag, self.aspect, self.drv, self.par, self.expect = tag, aspect, drv, par, expect
        self.nmsg, self.nkey = nmsg, nkey

    def label(self):
        return "%s.%s(%s)" % (self.tag, self.aspect, ",".join("%s=%d" % kv for kv in self.par.items()))

    def fits(self):
        """the driver's own buffers must hold the pattern (else the DRIVER would panic)"""
        n = nbuf(self.tag)
        outs = sum(v for k, v in self.par.items() if k in ("o1", "o2", "o3") and self.drv.endswith("_x"))
        o_each = max([v for k, v in self.par.items() if k in ("o1", "o2", "o3")] or [0])
        if self.drv.endswith("_clone") and "o1" in self.par:
            outs = self.par["o1"] + self.par["o2"]
        lsum = sum(v for k, v in self.par.items() if k in ("l1", "l2", "l3", "l4"))
        if self.drv == "drv_blake2s_alias":
            lsum = max(self.par["l1"] + self.par["l2"], self.par["l2"])
        return lsum <= n and outs <= n and o_each <= n and self.nmsg <= n


def _pad(bs, n):
    return list(bs) + [0] * (n - len(bs))


def sh_upd3(tag, l1, l2, l3, aspect="split"):
    L = l1 + l2 + l3
    return Shape(tag, aspect, "drv_%s_upd3" % tag, {"l1": l1, "l2": l2, "l3": l3},
                 lambda D, m, k: {"out": D(tag, m[:L])}, L)


def sh_reuse(tag, l1, l2, l3):
    L = l1 + l2 + l3
    return Shape(tag, "reuse", "drv_%s_reuse" % tag, {"l1": l1, "l2": l2, "l3": l3},
                 lambda D, m, k: {"out": D(tag, m[:l1]), "out2": D(tag, m[l1:L])}, L)


def sh_reset(tag, l1, l2):
    return Shape(tag, "reset", "drv_%s_reset" % tag, {"l1": l1, "l2": l2},
                 lambda D, m, k: {"out": D(tag, m[l1:l1 + l2])}, l1 + l2)


def sh_clone(tag, l1, l2, l3, l4):
    a, b, c = l1, l1 + l2, l1 + l2 + l3
    L = c + l4
    return Shape(tag, "clone", "drv_%s_clone" % tag, {"l1": l1, "l2": l2, "l3": l3, "l4": l4},
                 lambda D, m, k: {"out": D(tag, m[:b] + m[c:L]), "out2": D(tag, m[:a] + m[b:c])}, L)


def sh_alias(tag, l1):
    dl = DLEN[tag]

    def e(D, m, k):
        d = D(tag, m[:l1])
        return {"out": d, "out2": d, "out3": d, "out4": d, "st": [dl, dl]}
    return Shape(tag, "alias", "drv_%s_alias" % tag, {"l1": l1}, e, l1)


def sh_x(tag, l1, l2, o1, o2, o3, aspect="extract"):
    n = nbuf(tag)
    L, O = l1 + l2, o1 + o2 + o3
    return Shape(tag, aspect, "drv_%s_x" % tag, {"l1": l1, "l2": l2, "o1": o1, "o2": o2, "o3": o3},
                 lambda D, m, k: {"out": _pad(D(tag, m[:L], O), n)}, L)


def sh_xreuse(tag, l1, l2, o1, o2):
    n = nbuf(tag)
    return Shape(tag, "reuse", "drv_%s_reuse" % tag, {"l1": l1, "l2": l2, "o1": o1, "o2": o2},
                 lambda D, m, k: {"out": _pad(D(tag, m[:l1], o1), n),
                                  "out2": _pad(D(tag, m[l1:l1 + l2], o2), n)}, l1 + l2)


def sh_xreset(tag, l1, l2, l3, o1, o2):
    n = nbuf(tag)
    a, b = l1, l1 + l2
    return Shape(tag, "reset", "drv_%s_reset" % tag, {"l1": l1, "l2": l2, "l3": l3, "o1": o1, "o2": o2},
                 lambda D, m, k: {"out": _pad(D(tag, m[a:b], o1), n),
                                  "out2": _pad(D(tag, m[b:b + l3], o2), n)}, b + l3)


def sh_xclone(tag, l1, l2, l3, o1, o2, o3):
    n = nbuf(tag)
    a, b, c = l1, l1 + l2, l1 + l2 + l3

    def e(D, m, k):
        s = D(tag, m[:b], o1 + o2)
        return {"out": _pad(s, n), "out3": _pad(s[o1:], n), "out2": _pad(D(tag, m[:a] + m[b:c], o3), n)}
    return Shape(tag, "clone", "drv_%s_clone" % tag,
                 {"l1": l1, "l2": l2, "l3": l3, "o1": o1, "o2": o2, "o3": o3}, e, c)


def sh_bk3(kl, ol, l1, l2, l3, aspect="keyed"):
    L = l1 + l2 + l3
    return Shape("blake2s", aspect, "drv_blake2s_k3", {"kl": kl, "ol": ol, "l1": l1, "l2": l2, "l3": l3},
                 lambda D, m, k: {"out": _pad(D("blake2s", m[:L], ol, k[:kl]), 32), "st": [ol, 0]}, L, kl)


def sh_bu3(ol, l1, l2, l3, aspect="unkeyed"):
    L = l1 + l2 + l3
    return Shape("blake2s", aspect, "drv_blake2s_u3", {"ol": ol, "l1": l1, "l2": l2, "l3": l3},
                 lambda D, m, k: {"out": _pad(D("blake2s", m[:L], ol), 32), "st": [ol, 0]}, L)


def sh_bkreuse(kl, ol, l1, l2, l3):
    L = l1 + l2 + l3
    return Shape("blake2s", "keyed_reuse", "drv_blake2s_kreuse",
                 {"kl": kl, "ol": ol, "l1": l1, "l2": l2, "l3": l3},
                 lambda D, m, k: {"out": _pad(D("blake2s", m[:l1], ol, k[:kl]), 32),
                                  "out2": _pad(D("blake2s", m[l1:L], ol, k[:kl]), 32), "st": [ol, ol]}, L, kl)


def sh_bkreset(kl, ol, l1, l2):
    return Shape("blake2s", "keyed_reset", "drv_blake2s_kreset", {"kl": kl, "ol": ol, "l1": l1, "l2": l2},
                 lambda D, m, k: {"out": _pad(D("blake2s", m[l1:l1 + l2], ol, k[:kl]), 32), "st": [ol, 0]},
                 l1 + l2, kl)


def sh_bureuse(ol, l1, l2, l3):
    L = l1 + l2 + l3
    return Shape("blake2s", "reuse", "drv_blake2s_ureuse", {"ol": ol, "l1": l1, "l2": l2, "l3": l3},
                 lambda D, m, k: {"out": _pad(D("blake2s", m[:l1], ol), 32),
                                  "out2": _pad(D("blake2s", m[l1:L], ol), 32), "st": [ol, ol]}, L)


def sh_bureset(ol, l1, l2):
    return Shape("blake2s", "reset", "drv_blake2s_ureset", {"ol": ol, "l1": l1, "l2": l2},
                 lambda D, m, k: {"out": _pad(D("blake2s", m[l1:l1 + l2], ol), 32), "st": [ol, 0]}, l1 + l2)


def sh_balias(kl, ol, l1, l2):
    def e(D, m, k):
        d32 = D("blake2s", m[:l1], 32)
        return {"out": _pad(D("blake2s", m[:l1], ol, k[:kl]), 32), "out2": _pad(D("blake2s", m[:l1], ol), 32),
                "out3": d32, "out4": d32, "out5": D("blake2s", m[l1:l1 + l2], 32), "out6": D("blake2s", m[:l2], 32),
                "st": [32, 32]}
    return Shape("blake2s", "alias", "drv_blake2s_alias", {"kl": kl, "ol": ol, "l1": l1, "l2": l2}, e,
                 max(l1 + l2, l2), kl)


# ------------------------------------------------------------------ shape enumeration

def boundary_lens(tag):
    B = BLK[tag]
    if tag in H.SHA2:
        F = 8 if B == 64 else 16
        s = {0, 1, B - F - 2, B - F - 1, B - F, B - F + 1, B - 1, B, B + 1, 2 * B - F - 1, 2 * B - F,
             2 * B - F + 1, 2 * B - 1, 2 * B, 2 * B + 1, 2 * B + 9}
    elif tag == "blake2s":
        s = {0, 1, B - 1, B, B + 1, 2 * B - 1, 2 * B, 2 * B + 1, 2 * B + 9}
    else:
        s = {0, 1, B - 2, B - 1, B, B + 1, 2 * B - 1, 2 * B, 2 * B + 1, 2 * B + 9}
    return sorted(s)


def split_points(L, B, thorough):
    """single split points for an L-byte message.  thorough: all of 0..=L.  quick: all when
    L <= B+1, else those that leave the buffer pointer within 2 of a block boundary before or
    after the split, the first/last three, and every 16th"""
    if thorough or L <= B + 1:
        return list(range(L + 1))
    near = lambda x: x % B <= 2 or x % B >= B - 2
    return [s for s in range(L + 1) if near(s) or s <= 2 or L - s <= 2 or s % 16 == 0 or near(L - s)]


def groups_for(tag, tier):
    """list of (group name, bounds text, [shapes])"""
    B = BLK[tag]
    maxlen = 2 * B + 9
    thorough = tier == "thorough"
    SP = lambda L: split_points(L, B, thorough)
    sp_txt = "every single split point 0..=len" if thorough else \
        "single split points: all for len <= block+1, else near block boundaries / ends / every 16th"
    bl = boundary_lens(tag)
    # thorough: every length 0..=2*block+9 for blocks/rates up to 72 bytes; for larger blocks every
    # length 0..=block+9 plus the boundary lengths up to 2*block+9 (cost: see NOTES_C17.md)
    full_to = maxlen if B <= 72 else B + 9
    lens = sorted(set(range(full_to + 1)) | set(bl)) if thorough else bl
    G = []
    few = [0, 1, B - 1, B, B + 1] if tag not in H.SHA2 else [0, 1, B - 9, B - 8, B - 1, B, B + 1] \
        if B == 64 else [0, 1, B - 17, B - 16, B - 1, B, B + 1]
    if tag == "blake2s":
        for L in lens:
            G.append(("blake2s.split1[len=%d]" % L, sp_txt + "; unkeyed (out 32) and keyed (key 32, out 32)",
                      [sh_bu3(32, s, L - s, 0, "split1") for s in SP(L)] +
                      [sh_bk3(32, 32, s, L - s, 0, "split1k") for s in SP(L)]))
        mls = [0, 1, 63, 64, 65, 127, 128, 129] if thorough else [0, 64, 65, 128]
        for L in mls:
            G.append(("blake2s.params[len=%d]" % L, "key length 0..=32 x output length 1..=32, one update call",
                      [sh_bk3(kl, ol, L, 0, 0, "params") for kl in range(33) for ol in range(1, 33)]))
            G.append(("blake2s.params_unkeyed[len=%d]" % L, "Blake2s::new: output length 1..=32",
                      [sh_bu3(ol, L, 0, 0, "params_unkeyed") for ol in range(1, 33)]))
        kls = list(range(33)) if thorough else [0, 1, 16, 31, 32]
        seq = [(a, b) for a in (0, 1, 64, 65, 128) for b in (0, 3, 64, 65) if a + b <= 137]
        for kl in kls:
            G.append(("blake2s.keyed_reuse[kl=%d]" % kl,
                      "update, finalize_reset_write, update, update, finalize_write; 20 length pairs; out 32 and 20",
                      [sh_bkreuse(kl, ol, a, b, c) for (a, b) in seq for c in (0, 7) for ol in (32, 20)]))
            G.append(("blake2s.keyed_reset[kl=%d]" % kl, "update, reset, update, finalize_write; 20 length pairs",
                      [sh_bkreset(kl, 32, a, b) for (a, b) in seq]))
        G.append(("blake2s.reuse", "unkeyed: update, finalize_reset_write, update, update, finalize_write",
                  [sh_bureuse(ol, a, b, c) for (a, b) in seq for c in (0, 7) for ol in (32, 7)]))
        G.append(("blake2s.reset", "unkeyed: update, reset, update, finalize_write",
                  [sh_bureset(ol, a, b) for (a, b) in seq for ol in (32, 1)]))
        G.append(("blake2s.alias", "hash_into (keyed/unkeyed), Blake2s256::{hash, finalize_reset, finalize_reset_write, finalize_write}",
                  [sh_balias(kl, ol, a, b) for kl in (0, 5, 32) for ol in (32, 9) for (a, b) in ((0, 0), (3, 64), (64, 1), (65, 7))]))
        if thorough:
            for L in range(B + 10):
                G.append(("blake2s.split2[len=%d]" % L, "every pair of split points, unkeyed",
                          [sh_bu3(32, s1, s2 - s1, L - s2, "split2") for s1 in range(L + 1) for s2 in range(s1, L + 1)]))
        return G
    if tag in BLK and tag.startswith("shake"):
        for L in lens:
            G.append(("%s.split1[len=%d]" % (tag, L), sp_txt + "; 40 output bytes in one extract",
                      [sh_x(tag, s, L - s, 40, 0, 0, "split1") for s in SP(L)]))
        O = B + 9
        for L in ([0, 1, B - 1, B] if not thorough else [0, 1, 7, 8, B - 1, B, B + 1, 2 * B]):
            G.append(("%s.extract[len=%d]" % (tag, L), "%d output bytes, split into two extract calls at every point 0..=%d" % (O, B + 8),
                      [sh_x(tag, L, 0, o1, O - o1, 0, "extract") for o1 in range(B + 9)]))
        ob = [0, 1, B - 1, B, B + 1]
        G.append(("%s.extract3" % tag, "three extract calls around the rate boundary (up to 2*rate+9 bytes)",
                  [sh_x(tag, 5, 0, a, b, c, "extract3") for a in ob for b in ob for c in (1, B, B + 7)
                   if a + b + c <= 2 * B + 9]))
        G.append(("%s.reuse" % tag, "inject, flip_extract_reset, inject, flip_extract",
                  [sh_xreuse(tag, a, b, o1, o2) for a in few for b in few for (o1, o2) in ((32, 32), (B + 1, 1))]))
        G.append(("%s.reset" % tag, "reset in input mode and in output mode",
                  [sh_xreset(tag, a, b, c, 32, B + 1) for a in (0, 1, B) for b in (0, 1, B - 1, B) for c in (0, 9)]))
        G.append(("%s.clone" % tag, "clone while absorbing and while squeezing",
                  [sh_xclone(tag, a, b, c, o1, o2, 33) for a in (0, 1, B - 1, B) for b in (0, 1, B) for c in (0, 2)
                   for (o1, o2) in ((0, 10), (B - 1, 2), (B, B))]))
        if thorough:
            for L in ((B + 1,) if tag == "shake128" else ()):
                G.append(("%s.split2[len=%d]" % (tag, L), "every pair of input split points",
                          [sh_x(tag, s1, s2 - s1, 16, 0, 0, "split2") for s1 in range(L + 1) for s2 in range(s1, L + 1)]))
        return G
    # fixed-output SHA-2 / SHA-3.  The third update of upd3 carries the tail for two split points.
    for L in lens:
        G.append(("%s.split1[len=%d]" % (tag, L), sp_txt,
                  [sh_upd3(tag, s, L - s, 0, "split1") for s in SP(L)]))
    G.append(("%s.reuse" % tag, "update, finalize_reset, update, update, finalize",
              [sh_reuse(tag, a, b, c) for a in few for b in few for c in (0, 7)]))
    G.append(("%s.reset" % tag, "update, reset, update, digest",
              [sh_reset(tag, a, b) for a in few for b in few]))
    G.append(("%s.clone" % tag, "update, clone, updates on both copies interleaved",
              [sh_clone(tag, a, b, c, d) for a in (0, 1, B - 1, B, B + 1) for b in (0, 1, B - 1) for c in (0, 5)
               for d in (0, 1, 9)]))
    G.append(("%s.alias" % tag, "hash, finalize_write, finalize_reset_write, finalize",
              [sh_alias(tag, a) for a in few + [2 * B + 9]]))
    if thorough:
        two = None
        if tag == "sha256":
            two = list(range(B + 10))
        elif tag in ("sha512", "sha3_512"):
            two = [B, B + 9]
        elif tag == "sha3_256":
            two = [B + 1]
        for L in two or []:
            G.append(("%s.split2[len=%d]" % (tag, L), "every pair of split points",
                      [sh_upd3(tag, s1, s2 - s1, L - s2, "split2") for s1 in range(L + 1) for s2 in range(s1, L + 1)]))
    return G


# ------------------------------------------------------------------ deciding one shape

def native_call(built, drv, inputs, guarded):
    """run the native driver; guarded=True runs it in a forked child so that a
    panic (abort) is observed instead of killing the worker.  Returns the
    output dict or None when the process died."""
    if not guarded:
        return built.native(drv, inputs)
    r, w = os.pipe()
    pid = os.fork()
    if pid == 0:
        try:
            os.close(r)
            dn = os.open(os.devnull, os.O_WRONLY)
            os.dup2(dn, 2)
            out = built.native(drv, inputs)
            os.write(w, json.dumps(out).encode())
            os._exit(0)
        except BaseException:
            os._exit(7)
    os.close(w)
    data = b""
    while True:
        c = os.read(r, 65536)
        if not c:
            break
        data += c
    os.close(r)
    _, st = os.waitpid(pid, 0)
    if st != 0 or not data:
        return None
    return json.loads(data.decode())


def ref_outputs(sh, msg, key):
    """expected outputs for concrete bytes: hashlib where it has the function, else hashspec on ints"""
    def D(tag, m, outlen=None, k=()):
        d = H.hashlib_digest(tag, m, outlen, k)
        return d if d is not None else H.reference(tag, m, outlen, k)
    return sh.expect(D, list(msg), list(key))


def concrete_inputs(built, sh, msg, key):
    d = built.drivers[sh.drv]
    inputs = dict(sh.par)
    for name, kind, eb, cnt in d.params:
        if name == "msg":
            inputs["msg"] = _pad(msg, cnt)[:cnt]
        elif name == "key":
            inputs["key"] = _pad(key, cnt)[:cnt]
    return inputs


def violation_detail(sh, msg, key, nat, exp, how):
    det = {"key": "%s.%s" % (sh.tag, sh.aspect), "shape": sh.label(), "driver": sh.drv, "params": dict(sh.par),
           "message_hex": bytes(msg[:sh.nmsg]).hex(), "found_by": how}
    if sh.nkey:
        det["key_hex"] = bytes(key[:sh.nkey]).hex()
    if nat is None:
        det["native"] = "process aborted (panic)"
    else:
        bad = [n for n in exp if list(nat[n]) != list(exp[n])]
        det["native"] = {n: (bytes(nat[n]).hex() if n != "st" else nat[n]) for n in bad}
        det["expected"] = {n: (bytes(exp[n]).hex() if n != "st" else exp[n]) for n in bad}
    return det


def replay_shape(built, sh, msg, key, guarded=False):
    """native run against the reference; (ok, native, expected)"""
    exp = ref_outputs(sh, msg, key)
    nat = native_call(built, sh.drv, concrete_inputs(built, sh, msg, key), guarded)
    if nat is None:
        return False, None, exp
    return all(list(nat[n]) == list(exp[n]) for n in exp), nat, exp


def sample_bytes(r, n, it):
    if it == 0:
        return [r.getrandbits(8) for _ in range(n)]
    if it == 1:
        return [0] * n
    if it == 2:
        return [0xFF] * n
    if it == 3:
        return [0x80] * n
    return [r.getrandbits(8) for _ in range(n)]


def decide_shape(ctx, sh, timeout, validate=True):
    """returns dict(verdict=ok|viol|unknown, how=..., detail=..., secs=...)"""
    t0 = time.time()
    built = ctx.built
    T.reset()
    d = built.drivers[sh.drv]
    nm = [p for p in d.params if p[0] == "msg"][0][3]
    if not sh.fits() or nm != nbuf(sh.tag):
        raise MachineryError("call shape %s does not fit the driver buffers" % sh.label())
    msg = [T.var("m%d" % i, 8) for i in range(nm)]
    key = [T.var("k%d" % i, 8) for i in range(32)]
    conc = dict(sh.par)
    conc["msg"] = msg
    if any(p[0] == "key" for p in d.params):
        conc["key"] = key
    r = rng("c17", sh.label())
    try:
        ex, ins, outs = sym_run(built, sh.drv, executor_setup=lambda e: install_hooks(e, ctx.layout), concrete=conc)
    except PanicReached as e:
        # concrete control flow: this call pattern panics for every message.  Confirm natively.
        for it in range(2):
            m, k = sample_bytes(r, nm, it), sample_bytes(r, 32, it)
            ok, nat, exp = replay_shape(built, sh, m, k, guarded=True)
            if not ok:
                det = violation_detail(sh, m, k, nat, exp, "symbolic run reaches a panic (%s); native replay" % e.callee[:80])
                if nat is None:
                    det["key"] += ":panic:" + _short_callee(e.callee)
                return dict(verdict="viol", how="exec+replay", detail=det, secs=time.time() - t0, hooked=set())
        return dict(verdict="unknown", how="exec", detail="executor reached a panic path (%s) that the native run does not take" % e,
                    secs=time.time() - t0, hooked=set())
    except ExecError as e:
        return dict(verdict="unknown", how="exec", detail="executor: %s" % str(e)[:300], secs=time.time() - t0, hooked=set())

    def D(tag, m, outlen=None, k=()):
        return spec_digest(tag, m, outlen, k, uf=True)
    exp = sh.expect(D, msg, key)
    pairs = []
    for name, es in exp.items():
        got = outs[name]
        assert len(got) == len(es), (name, len(got), len(es))
        w = 64 if name == "st" else 8
        for x, y in zip(got, es):
            if x is y or (not isinstance(x, T.Term) and not isinstance(y, T.Term) and x == y):
                continue
            pairs.append((x, y, w))
    res = dict(hooked=set(ex.c17_hooked), nuf=len(ex.c17_hooked))
    # translator validation on one sampled message: DAG (compression function interpreted by the
    # reference implementation) == native driver.  Always done when a solver is needed.
    sample_ok = None
    if validate or pairs:
        m, k = sample_bytes(r, nm, 0), sample_bytes(r, 32, 0)
        env = {"m%d" % i: m[i] for i in range(nm)}
        env.update({"k%d" % i: k[i] for i in range(32)})
        sample_ok, nat, rexp = replay_shape(built, sh, m, k)
        for name in outs:
            val = T.evaluate(outs[name], env)
            if list(val) != list(nat[name]):
                raise MachineryError("translator validation failed for %s/%s: dag=%r native=%r"
                                     % (sh.label(), name, val[:8], list(nat[name])[:8]))
    okres = dict(res)
    if sample_ok is False:
        # the call-pattern logic is proved correct modulo the compression function, yet the digest
        # of this message is wrong: the defect is in the compression function (layer 2)
        okres["ref_mismatch"] = violation_detail(sh, m, k, nat, rexp, "native digest of a sampled message differs from the reference "
                                                 "while the call pattern is proved correct modulo the compression function")
    if not pairs:
        return dict(okres, verdict="ok", how="syntactic", secs=time.time() - t0)
    em = BVEmitter()
    diffs = ["(distinct %s %s)" % (em.ref(x, w), em.ref(y, w)) for x, y, w in pairs]
    goal = diffs[0] if len(diffs) == 1 else "(or %s)" % " ".join(diffs)
    v, mod, dt = run_solver(em.script([goal], logic="QF_UFBV"), "z3", timeout)
    if v == "unsat":
        return dict(okres, verdict="ok", how="z3-ufbv", secs=time.time() - t0, solver_s=dt)
    tries = []
    if v == "sat":
        model = parse_model(mod)
        tries.append(([model.get("m%d" % i, 0) for i in range(nm)], [model.get("k%d" % i, 0) for i in range(32)],
                      "z3-ufbv model (compression function uninterpreted), replayed natively"))
        after = "abstract model"
    else:
        after = "solver " + v
    tries += [(sample_bytes(r, nm, it), sample_bytes(r, 32, it), "boundary replay after " + after) for it in range(0, 6)]
    for m, k, how in tries:
        ok, nat, rexp = replay_shape(built, sh, m, k)
        if not ok:
            return dict(res, verdict="viol", how="z3-ufbv+replay", secs=time.time() - t0, solver_s=dt,
                        detail=violation_detail(sh, m, k, nat, rexp, how))
    return dict(res, verdict="unknown", how="z3-ufbv", secs=time.time() - t0, solver_s=dt,
                detail=("model under the uninterpreted compression function does not reproduce natively"
                        if v == "sat" else "solver: " + v))


def _short_callee(c):
    m = re.search(r"(len_mismatch_fail|slice_\w+_index\w*|panic_bounds_check|assert_failed|panic_fmt|panic\b|unwrap_failed|expect_failed)", c)
    return m.group(1) if m else "panic"


def decide_group(ctx, name, bounds, shapes, timeout, validate_every):
    tag = name.split(".")[0]
    fam = FAMILY[tag]
    ob = Obligation(name, "L", [], "%d call shapes (%s); all message%s bytes symbolic" %
                    (len(shapes), bounds, "/key" if tag == "blake2s" else ""),
                    "digest bytes == standard digest of the concatenated input with %s uninterpreted" % fam)
    t0 = time.time()
    nsyn = nsol = 0
    solver_s = 0.0
    hooked = set()
    unknown = []
    viol = None
    refmis = None
    for i, sh in enumerate(shapes):
        r = decide_shape(ctx, sh, timeout, validate=(i % validate_every == 0))
        hooked |= r.get("hooked", set())
        solver_s += r.get("solver_s", 0.0)
        if refmis is None and r.get("ref_mismatch"):
            refmis = r["ref_mismatch"]
        if r["verdict"] == "ok":
            if r["how"] == "syntactic":
                nsyn += 1
            else:
                nsol += 1
        elif r["verdict"] == "viol":
            if viol is None:
                viol = r
                viol["count"] = 1
            else:
                viol["count"] += 1
            if viol["count"] >= 3:
                break
        else:
            unknown.append("%s: %s" % (sh.label(), r["detail"]))
    dt = time.time() - t0
    how = "syntactic x%d, z3-ufbv x%d" % (nsyn, nsol)
    if viol is not None:
        det = viol["detail"]
        det["shapes_failing_in_group"] = ">=%d" % viol["count"]
        ob.fail(det, viol["how"], dt, len(shapes))
    elif unknown:
        ob.unknown("%d of %d shapes undecided; first: %s" % (len(unknown), len(shapes), unknown[0][:300]), how, dt, len(shapes))
    else:
        ob.ok(how, dt, len(shapes), syntactic=(nsol == 0))
    ob.c17 = dict(hooked=sorted(hooked), nsyn=nsyn, nsol=nsol, solver_s=solver_s, fam=fam, nshapes=len(shapes),
                  ref_mismatch=refmis)
    return ob


# ---------------------------------------------------------------------------------------------
# layer 2: compression function == the standard's round function (sweeping)

def all_values(roots, envs):
    memos = []
    for env in envs:
        memo = {}
        for rt in roots:
            T._eval(rt, env, memo)
        memos.append(memo)
    return memos


def _same(x, y):
    return x is y or (not isinstance(x, T.Term) and not isinstance(y, T.Term) and x == y)


def sweep(impl_outs, spec_outs, trace, envs, widths, timeout, nthreads, max_iter=5, budget=150):
    """Prove impl_outs == spec_outs by word-level sweeping.

    Candidate equivalences: every IR term whose value on the simulation inputs equals the value
    (or the complement) of a spec trace point.  Trace points labelled "h:" (the state carried
    from one round to the next) are HARD cuts: the spec term and its IR partners are replaced by
    one shared fresh variable.  The other trace points are SOFT: the IR partner is replaced by
    the spec term itself (merging), which only makes the two DAGs share structure.  All
    candidates are first assumed and each is then proved as a lemma under the replacements
    strictly below its IR term; a lemma that is not proved is dropped and the affected queries
    are posed again, so the final set of lemmas is closed.  Every lemma is one QF_BV query.
    Returns dict(status=proved|differs|sat|unknown, ...)."""
    t0 = time.time()
    n = len(envs)
    st_terms = [t for _, t in trace if isinstance(t, T.Term)]
    im = all_values(impl_outs, envs)
    sm = all_values(list(spec_outs) + st_terms, envs)
    val = lambda memo, x: memo[x.id] if isinstance(x, T.Term) else x
    for k in range(n):
        for x, y in zip(impl_outs, spec_outs):
            if val(im[k], x) != val(sm[k], y):
                return dict(status="differs", env=envs[k], seconds=time.time() - t0)
    spec_roots = [x for x in list(spec_outs) + st_terms if isinstance(x, T.Term)]
    spec_ids = set(t.id for t in T.topo(spec_roots))
    sig2impl = {}
    for t in T.topo(impl_outs):
        if t.op != "var" and t.id not in spec_ids:
            sig2impl.setdefault((t.w, tuple(im[k][t.id] for k in range(n))), []).append(t)
    matches = []
    used_impl, used_spec = set(), set()
    nomatch = shared = 0
    for lab, st in trace:
        if not isinstance(st, T.Term) or st.op == "var" or st.id in used_spec:
            continue
        hard = lab.startswith("h:")
        lab = lab[2:] if hard else lab
        w = st.w
        sig = tuple(sm[k][st.id] for k in range(n))
        cands = [(it, False) for it in sig2impl.get((w, sig), [])] + \
                [(it, True) for it in sig2impl.get((w, tuple(v ^ T.mask(w) for v in sig)), [])]
        cands = [(it, neg) for it, neg in cands if it.id not in used_impl][:6]
        used_spec.add(st.id)
        if not cands:
            if st.id in im[0]:
                shared += 1       # the very same term occurs in the IR DAG
            else:
                nomatch += 1
            if hard:
                matches.append((lab, st, None, False, True))
            continue
        for j, (it, neg) in enumerate(cands):
            used_impl.add(it.id)
            matches.append(("%s#%d" % (lab, j), st, it, neg, hard))
    cache = {}
    sat_models = []
    deadline = t0 + budget

    def from_models():
        """a failed lemma whose variables are real inputs gives a candidate input: evaluate both
        DAGs on it (no solver); a difference is a genuine counterexample candidate"""
        for mod in sat_models:
            mv = parse_model(mod)
            upd = {k: v for k, v in mv.items() if k in envs[0]}
            if not upd:
                continue
            env = dict(envs[0])
            env.update(upd)
            a = T.evaluate(list(impl_outs), env)
            b = T.evaluate(list(spec_outs), env)
            if list(a) != list(b):
                return env
        return None
    stats = dict(lemmas=sum(1 for m in matches if m[2] is not None), nomatch=nomatch, shared=shared, queries=0,
                 solver_s=0.0, maxlemma=0.0, dropped=[], syntactic=0)
    order = T.topo(spec_roots + [x for x in impl_outs if isinstance(x, T.Term)])
    live = list(matches)
    neg_of = lambda x, w: (x ^ T.mask(w)) if not isinstance(x, T.Term) else T._mk("xor", (x, T.mask(w)), w)
    for iteration in range(max_iter):
        cutvar, implmap = {}, {}
        for lab, st, it, neg, hard in live:
            # a hard point without a (live) IR partner is cut on the spec side only when the same
            # node is part of the IR DAG (then the cut applies to both sides at once)
            if hard and (it is not None or st.id in im[0]) and st.id not in cutvar:
                cutvar[st.id] = T.var("cut_%s" % lab.split("#")[0], st.w)
            if it is not None:
                implmap[it.id] = (st, neg)
        body, final = {}, {}
        g = lambda x: final[x.id] if isinstance(x, T.Term) else x
        for t in order:
            if not t.args:
                b = t
            else:
                na = tuple(g(a) for a in t.args)
                b = t if all(x is y for x, y in zip(na, t.args)) else T._rebuild(t, na)
            body[t.id] = b
            if t.id in cutvar:
                final[t.id] = cutvar[t.id]
            elif t.id in implmap:
                st, neg = implmap[t.id]
                final[t.id] = neg_of(final[st.id], t.w) if neg else final[st.id]
            else:
                final[t.id] = b
        jobs = []
        for lab, st, it, neg, hard in live:
            if it is None:
                continue
            x, y = body[st.id], body[it.id]
            if neg:
                y = neg_of(y, st.w)
            if _same(x, y):
                jobs.append((lab, None))
                continue
            em = BVEmitter()
            jobs.append((lab, em.script(["(distinct %s %s)" % (em.ref(x, st.w), em.ref(y, st.w))])))
        em = BVEmitter()
        diffs = []
        for x, y, w in zip(spec_outs, impl_outs, widths):
            x, y = g(x), g(y)
            if not _same(x, y):
                diffs.append("(distinct %s %s)" % (em.ref(x, w), em.ref(y, w)))
        fscript = em.script([diffs[0] if len(diffs) == 1 else "(or %s)" % " ".join(diffs)]) if diffs else None
        jobs.append(("final", fscript))

        def solve(job):
            lab, script = job
            if script is None:
                return lab, "unsat", 0.0, ""
            if script in cache:
                return (lab,) + cache[script][:1] + (0.0,) + cache[script][2:]
            left = deadline - time.time()
            if left < 1:
                return lab, "timeout", 0.0, ""       # wall budget of the obligation exhausted
            v, mod, dt = run_solver(script, "z3", max(1, min(timeout, left)))
            cache[script] = (v, dt, mod if (lab == "final" or v == "sat") else "")
            return lab, v, dt, mod
        with ThreadPoolExecutor(max_workers=nthreads) as pool:
            results = list(pool.map(solve, jobs))
        failed = set()
        fin = None
        nsyn = 0
        for (lab, script), (_, v, dt, mod) in zip(jobs, results):
            if script is None:
                nsyn += lab != "final"
            elif dt:
                stats["queries"] += 1
                stats["solver_s"] += dt
                stats["maxlemma"] = max(stats["maxlemma"], dt)
            if v == "sat" and mod and len(sat_models) < 12:
                sat_models.append(mod)
            if lab == "final":
                fin = (v, mod)
            elif v != "unsat":
                failed.add(lab)
        if not failed:
            stats.update(status={"unsat": "proved", "sat": "sat"}.get(fin[0], "unknown"), final=fin[0],
                         cuts=len(cutvar), merged=len(implmap), syntactic=nsyn, iterations=iteration + 1,
                         seconds=time.time() - t0)
            if stats["status"] != "proved":
                env = from_models()
                if env is not None:
                    stats.update(status="differs", env=env, found_by="model of a failed lemma evaluated on both DAGs")
            return stats
        stats["dropped"] += sorted(failed)
        live = [m for m in live if m[0] not in failed]
        if sat_models:
            env = from_models()
            if env is not None:
                stats.update(status="differs", env=env, found_by="model of a failed lemma evaluated on both DAGs",
                             seconds=time.time() - t0)
                return stats
        if time.time() > deadline:
            break
    stats.update(status="unknown", final="lemmas kept failing or wall budget exhausted", seconds=time.time() - t0)
    env = from_models()
    if env is not None:
        stats.update(status="differs", env=env, found_by="model of a failed lemma evaluated on both DAGs")
    return stats


def compress_job(ctx, kind, fname, timeout, nthreads, nsim=3, index=0, budget=150):
    """one obligation: IR function `fname` == standard round function, frame condition included"""
    built = ctx.built
    m = built.module
    names = {"sha2small": "SHA2Small::process == FIPS 180-4 6.2.2 (SHA-256 compression)",
             "sha2big": "SHA2Big::process == FIPS 180-4 6.4.2 (SHA-512 compression)",
             "keccak": "KeccakState::process == Keccak-p[1600,24] (FIPS 202 3.3)",
             "blake2s": "Blake2s::process_block == F (RFC 7693 3.2), SSE2 path of the default build"}
    ob = Obligation("compress:%s#%d" % (kind, index), "L", [fname],
                    "all state/block bit patterns%s" % ("; all 2^64 counters, both flag values" if kind == "blake2s" else ""),
                    names[kind] + "; nothing else in the object changes")
    t0 = time.time()
    T.reset()
    T.ADD_FLATTEN = False
    try:
        r = rng("c17-l2", kind)
        ex = Executor(m)
        trace = []
        if kind in ("sha2small", "sha2big"):
            w = 32 if kind == "sha2small" else 64
            bw = w // 8
            size, hoff, boff = ctx.layout[kind]
            hv = [T.var("h%d" % i, w) for i in range(8)]
            bv = [T.var("b%d" % i, 8) for i in range(2 * w)]
            oid = ex.new_obj(size, "self")
            cells = ex.mem[oid].cells
            for i in range(8):
                cells[hoff + bw * i] = (bw, hv[i])
            for i in range(2 * w):
                cells[boff + i] = (1, bv[i])
            rest = {}
            for i in range(size):
                if not (hoff <= i < hoff + 8 * bw or boff <= i < boff + 2 * w):
                    rest[i] = T.var("x%d" % i, 8)
                    cells[i] = (1, rest[i])
            ex.run(fname, [Ptr(oid, 0)])
            out = ex.read_words(Ptr(oid, hoff), 8, bw)
            frame = all(ex.load(Ptr(oid, i), 1) is v for i, v in rest.items()) and \
                all(x is y for x, y in zip(ex.read_bytes(Ptr(oid, boff), 2 * w), bv))
            spec = H.sha2_compress(w, hv, bv, trace)
            widths = [w] * 8

            def mkenv(it):
                e = {"h%d" % i: r.getrandbits(w) for i in range(8)}
                e.update({"b%d" % i: (r.getrandbits(8) if it != 1 else 0) for i in range(2 * w)})
                return e

            def native(env):
                return built.native("drv_c17_" + kind, {"h": [env["h%d" % i] for i in range(8)],
                                                        "blk": [env["b%d" % i] for i in range(2 * w)]})["out"]

            def refc(env):
                return H.sha2_compress(w, [env["h%d" % i] for i in range(8)], [env["b%d" % i] for i in range(2 * w)])
        elif kind == "keccak":
            lanes = [T.var("a%d" % i, 64) for i in range(25)]
            p = ex.alloc_words(lanes, 8, "state")
            ex.run(fname, [p])
            out = ex.read_words(p, 25, 8)
            frame = True
            spec = H.keccak_f(lanes, trace)
            widths = [64] * 25
            mkenv = lambda it: {"a%d" % i: (r.getrandbits(64) if it != 1 else 0) for i in range(25)}
            native = lambda env: built.native("drv_c17_keccak", {"a": [env["a%d" % i] for i in range(25)]})["out"]
            refc = lambda env: H.keccak_f([env["a%d" % i] for i in range(25)])
        else:
            hv = [T.var("h%d" % i, 32) for i in range(8)]
            bv = [T.var("b%d" % i, 8) for i in range(64)]
            ctr, last = T.var("ctr", 64), T.var("last", 1)
            hp, bp = ex.alloc_words(hv, 4, "h"), ex.alloc_bytes(bv, "block")
            ex.run(fname, [hp, bp, ctr, last])
            out = ex.read_words(hp, 8, 4)
            frame = all(x is y for x, y in zip(ex.read_bytes(bp, 64), bv))
            spec = H.blake2s_F(hv, bv, ctr, last, trace)
            widths = [32] * 8

            def mkenv(it):
                e = {"h%d" % i: r.getrandbits(32) for i in range(8)}
                e.update({"b%d" % i: r.getrandbits(8) for i in range(64)})
                e["ctr"] = [r.getrandbits(64), 64, 0xFFFFFFFFFFFFFFFF, 0x100000000][it % 4]
                e["last"] = it & 1
                return e

            def native(env):
                return built.native("drv_c17_blake2s", {"h": [env["h%d" % i] for i in range(8)],
                                                        "blk": [env["b%d" % i] for i in range(64)],
                                                        "ctr": env["ctr"], "last": env["last"]})["out"]

            def refc(env):
                return H.blake2s_F([env["h%d" % i] for i in range(8)], [env["b%d" % i] for i in range(64)],
                                   env["ctr"], env["last"])
        # translator validation and native-vs-standard on concrete inputs
        envs = [mkenv(it) for it in range(12)]
        for env in envs:
            nat = list(native(env))
            if list(T.evaluate(out, env)) != nat:
                raise MachineryError("translator validation failed for %s" % fname)
            if nat != list(refc(env)):
                return ob.fail({"key": "%s.compress" % kind, "function": fname, "inputs": {k: hex(v) for k, v in env.items()},
                                "native": [hex(x) for x in nat], "expected": [hex(x) for x in refc(env)],
                                "found_by": "simulation input replayed natively"}, "replay", time.time() - t0)
        if not frame:
            return ob.unknown("the function writes outside the chaining value (frame condition not syntactic)", "", time.time() - t0)
        res = sweep(out, spec, trace, envs[:nsim], widths, timeout, nthreads, budget=budget)
        ob.c17 = dict(kind=kind, fname=fname, sweep={k: v for k, v in res.items() if k not in ("env",)},
                      ir_terms=len(T.topo(out)), spec_terms=len(T.topo(spec)))
        how = "z3-bv sweeping: %d cut lemmas (%d syntactic), %d queries, %.1fs solver, max %.2fs" % (
            res.get("lemmas", 0), res.get("syntactic", 0), res.get("queries", 0), res.get("solver_s", 0), res.get("maxlemma", 0))
        if res["status"] == "proved":
            return ob.ok(how, time.time() - t0, res["queries"] + 1)
        if res["status"] == "differs":
            env = res["env"]
            nat, ref = list(native(env)), list(refc(env))
            if nat != ref:
                return ob.fail({"key": "%s.compress" % kind, "function": fname, "inputs": {k: hex(v) for k, v in env.items()},
                                "native": [hex(x) for x in nat], "expected": [hex(x) for x in ref],
                                "found_by": res.get("found_by", "simulation") + "; replayed natively"}, "z3-bv+replay",
                               time.time() - t0, res.get("queries", 0))
            return ob.unknown("DAG difference does not reproduce natively (translator?)", how, time.time() - t0)
        # sat on the abstracted final goal, or unknown: hunt natively before giving up
        for it in range(200):
            env = mkenv(it + 20)
            nat = list(native(env))
            if nat != list(refc(env)):
                return ob.fail({"key": "%s.compress" % kind, "function": fname, "inputs": {k: hex(v) for k, v in env.items()},
                                "native": [hex(x) for x in nat], "expected": [hex(x) for x in refc(env)],
                                "found_by": "boundary replay after %s" % res["status"]}, "replay", time.time() - t0)
        return ob.unknown("sweeping did not close: %s (dropped lemmas: %s)" % (res.get("final"), res.get("dropped", [])[:6]),
                          how, time.time() - t0, res.get("queries", 0))
    except ExecError as e:
        return ob.unknown("executor: %s" % str(e)[:300], "", time.time() - t0)
    finally:
        T.ADD_FLATTEN = True


# ---------------------------------------------------------------------------------------------
# repository test vectors (translator validation against the tree's own known answers)

def _strings(text, name):
    m = re.search(r"(?:static|const)\s+%s\s*:[^=]*=\s*\[" % name, text)
    if not m:
        return []
    end = text.find("];", m.end())
    return re.findall(r'"([0-9a-fA-F]*)"', text[m.end():end])


def repo_vectors():
    """[(tag, msg bytes, key bytes, expected digest bytes)] parsed from the test modules of the tree"""
    out = []

    def rd(p):
        try:
            with open(os.path.join(REPO, p)) as fh:
                return fh.read()
        except OSError:
            return ""
    s2 = rd("src/sha2.rs")
    for m in re.finditer(r'inner_(sha\w+)\(\s*&\[([^\]]*)\]\s*,\s*"([0-9a-f]+)"', s2):
        tag, body, hx = m.group(1), m.group(2), m.group(3)
        try:
            if ";" in body:
                v, c = body.split(";")
                msg = [int(v.strip().replace("u8", ""), 0)] * int(c.strip())
            else:
                msg = [int(x.strip().replace("u8", ""), 0) for x in body.split(",") if x.strip()]
        except ValueError:
            continue
        out.append((tag, msg, [], list(bytes.fromhex(hx))))
    s3 = rd("src/sha3.rs")
    ks = _strings(s3, "KAT_SHA3")
    by = {28: "sha3_224", 32: "sha3_256", 48: "sha3_384", 64: "sha3_512"}
    for i in range(0, len(ks) - 1, 2):
        d = bytes.fromhex(ks[i + 1])
        if len(d) in by and len(ks[i]) % 2 == 0:
            out.append((by[len(d)], list(bytes.fromhex(ks[i])), [], list(d)))
    for tag, nm in (("shake128", "KAT_SHAKE128"), ("shake256", "KAT_SHAKE256")):
        ks = _strings(s3, nm)
        for i in range(0, len(ks) - 1, 2):
            out.append((tag, list(bytes.fromhex(ks[i])), [], list(bytes.fromhex(ks[i + 1]))))
    kb = _strings(rd("src/blake2s.rs"), "KAT_BLAKE2S")
    for i in range(0, len(kb) - 2, 3):
        out.append(("blake2s", list(bytes.fromhex(kb[i])), list(bytes.fromhex(kb[i + 1])), list(bytes.fromhex(kb[i + 2]))))
    return out


def vector_job(ctx, tags, per_tag=12):
    """the tree's own known-answer vectors through symbolic run -> concrete evaluation, the native
    driver, and the reference: all three must agree with the recorded answer.  A disagreement
    between DAG and native is a machinery error; native != recorded answer is reported as a
    violation only if the reference agrees with the recorded answer."""
    ob = Obligation("vectors:repository-known-answers", "L", [], "known-answer vectors of the test modules that fit the driver buffers",
                    "ground facts: DAG evaluation == native driver == recorded digest (no solver)")
    t0 = time.time()
    built = ctx.built
    n = 0
    cnt = {}
    for tag, msg, key, dig in repo_vectors():
        if tag not in tags or len(msg) > 2 * BLK[tag] + 9 or cnt.get(tag, 0) >= per_tag:
            continue
        if tag == "blake2s":
            sh = sh_bk3(len(key), len(dig), len(msg), 0, 0)
        elif tag.startswith("shake"):
            if len(dig) > 2 * BLK[tag] + 9:
                continue
            sh = sh_x(tag, len(msg), 0, len(dig), 0, 0)
        else:
            sh = sh_upd3(tag, len(msg), 0, 0)
        cnt[tag] = cnt.get(tag, 0) + 1
        T.reset()
        d = built.drivers[sh.drv]
        nm = [p for p in d.params if p[0] == "msg"][0][3]
        conc = dict(sh.par)
        conc["msg"] = [T.var("m%d" % i, 8) for i in range(nm)]
        if tag == "blake2s":
            conc["key"] = [T.var("k%d" % i, 8) for i in range(32)]
        ex, ins, outs = sym_run(built, sh.drv, executor_setup=lambda e: install_hooks(e, ctx.layout), concrete=conc)
        m, k = _pad(msg, nm), _pad(key, 32)
        env = {"m%d" % i: m[i] for i in range(nm)}
        env.update({"k%d" % i: k[i] for i in range(32)})
        val = T.evaluate(outs["out"], env)
        nat = built.native(sh.drv, concrete_inputs(built, sh, m, k))["out"]
        if list(val) != list(nat):
            raise MachineryError("translator validation failed on repository vector %s len=%d" % (tag, len(msg)))
        ref = H.reference(tag, msg, len(dig), key)
        if list(ref) != dig:
            raise MachineryError("hashspec disagrees with the repository's known answer for %s len=%d" % (tag, len(msg)))
        if list(nat)[:len(dig)] != dig:
            return ob.fail(violation_detail(sh, m, k, {"out": nat}, {"out": _pad(dig, len(nat))}, "repository known-answer vector"),
                           "replay", time.time() - t0)
        n += 1
    ob.ok("ground facts x%d" % n, time.time() - t0, n, syntactic=True)
    ob.c17 = dict(vectors=n)
    return ob


# ---------------------------------------------------------------------------------------------

def chunk(shapes, size):
    return [shapes[i:i + size] for i in range(0, len(shapes), size)]


def run(tier, only=None):
    t0 = time.time()
    thorough = tier == "thorough"
    tags = ALL_TAGS if thorough else QUICK_TAGS
    do_l1 = do_l2 = do_step = True
    aspects = None
    if only:
        # --only accepts hash tags, "layer1"/"layer2"/"step", and substrings of group names (e.g. keyed_reset)
        sel = [o for o in only if o in ALL_TAGS]
        if sel:
            tags = sel
        layers = [o for o in only if o in ("layer1", "layer2", "step")]
        if layers:
            do_l1, do_l2, do_step = "layer1" in layers, "layer2" in layers, "step" in layers
        aspects = [o for o in only if o not in ALL_TAGS and o not in ("layer1", "layer2", "step")] or None
        if aspects and not layers:
            do_step = False       # a bare substring selects call-pattern groups, as before
    merr = None
    try:
        nref = H.selftest()
        nref_step = H.selftest_step()
    except AssertionError as e:
        return finish("C17", tier, [], t0, machinery_error="hashspec self-test failed: %r" % (e,))
    try:
        built = build(all_drivers(), tag="C17-default")
    except Exception as e:
        return finish("C17", tier, [], t0, machinery_error="build failed: %s" % str(e)[-800:])
    obs = []
    try:
        lay = built.native("drv_c17_layout_sha2", {})["out"]
        small = {tuple(lay[0:3]), tuple(lay[3:6])}
        big = {tuple(lay[3 * i:3 * i + 3]) for i in range(2, 6)}
        if len(small) != 1 or len(big) != 1:
            raise MachineryError("SHA2Small/SHA2Big layouts differ between instances: %r" % (lay,))
        layout = {"sha2small": small.pop(), "sha2big": big.pop()}
        ctx = Ctx(built, layout)
        native_uf(built)
        m = built.module
        # pre-parse the module so that forked workers inherit the parsed IR
        for fn_name in list(m.fpos):
            fn = m.function(fn_name)
            for lab in fn.order:
                m.block(fn, lab)
        fams = sorted(set(FAMILY[t] for t in tags))
        l2_timeout = 20 if not thorough else 60
        l2_budget = 150 if not thorough else 600
        l1_timeout = 30 if not thorough else 120
        items = []
        l2_funcs = {}
        if do_l2:
            for kind in fams:
                fns = m.find_functions(COMPRESS_PAT[kind])
                l2_funcs[kind] = fns
                for k, fn in enumerate(sorted(fns)):
                    items.append(("l2", kind, fn, k))
        groups = []
        for tag in (tags if do_l1 else []):
            for name, bounds, shapes in groups_for(tag, tier):
                if aspects and not any(a in name for a in aspects):
                    continue
                shapes = [sh for sh in shapes if sh.fits()]
                if len(shapes) > 700:
                    parts = chunk(shapes, 500)
                    for k, part in enumerate(parts):
                        groups.append(("%s/part%d" % (name, k + 1), bounds, part))
                else:
                    groups.append((name, bounds, shapes))
        # big groups first (better packing); each group is one obligation
        groups.sort(key=lambda g: -len(g[2]))
        if do_l1 and not aspects:
            items.append(("vec", tuple(tags)))
        for g in groups:
            items.append(("l1", g))
        nshapes = sum(len(g[2]) for g in groups)
        sgroups = []
        for tag in (tags if do_step else []):
            for g in STEP.groups_for(tag, tier):
                if aspects and not any(a in g[0] for a in aspects):
                    continue
                sgroups.append(g)
        for g in sgroups:
            items.append(("step", g))
        log("[C17] %d compression functions, %d call-pattern groups, %d shapes, %d step groups, %d step cases" %
            (sum(1 for i in items if i[0] == "l2"), len(groups), nshapes, len(sgroups), sum(len(g[3]) for g in sgroups)))

        def work(it):
            if it[0] == "l2":
                return compress_job(ctx, it[1], it[2], l2_timeout, 8 if it[1] == "keccak" else 3, index=it[3], budget=l2_budget)
            if it[0] == "vec":
                return vector_job(ctx, it[1])
            if it[0] == "step":
                return STEP.decide_group(ctx, it[1][0], it[1][1], it[1][2], it[1][3], l1_timeout, 1 if not thorough else 4)
            name, bounds, shapes = it[1]
            return decide_group(ctx, name, bounds, shapes, l1_timeout, 1 if not thorough else 4)
        res = pmap(work, items, nproc=NCPU, timeout=1500 if not thorough else 2300)
        hooked = {}
        l2_status = {}
        refmis = {}
        l2_viol = set()
        stats = dict(shapes=0, syntactic=0, solver=0, l1_solver_s=0.0)
        sstats = dict(groups=len(sgroups), cases=0, syntactic=0, solver=0, solver_s=0.0)
        l2_info = []
        for it, (st, val) in zip(items, res):
            if st == "ok":
                ob = val
                obs.append(ob)
                info = getattr(ob, "c17", {})
                if it[0] == "step":
                    for fn in info.get("hooked", []):
                        hooked.setdefault(fn, set()).add(info["fam"])
                    sstats["cases"] += info.get("nshapes", 0)
                    sstats["syntactic"] += info.get("nsyn", 0)
                    sstats["solver"] += info.get("nsol", 0)
                    sstats["solver_s"] += info.get("solver_s", 0.0)
                elif it[0] == "l1":
                    for fn in info.get("hooked", []):
                        hooked.setdefault(fn, set()).add(info["fam"])
                    stats["shapes"] += info.get("nshapes", 0)
                    stats["syntactic"] += info.get("nsyn", 0)
                    stats["solver"] += info.get("nsol", 0)
                    stats["l1_solver_s"] += info.get("solver_s", 0.0)
                    if info.get("ref_mismatch") and info["fam"] not in refmis:
                        refmis[info["fam"]] = info["ref_mismatch"]
                elif it[0] == "l2":
                    l2_status[m.resolve(it[2])] = ob.verdict
                    if ob.verdict == "violated":
                        l2_viol.add(it[1])
                    l2_info.append(dict(function=it[2], kind=it[1], verdict=ob.verdict, seconds=round(ob.seconds, 1),
                                        ir_terms=info.get("ir_terms"), spec_terms=info.get("spec_terms"),
                                        **{k: v for k, v in info.get("sweep", {}).items()
                                           if k in ("lemmas", "syntactic", "queries", "solver_s", "maxlemma", "nomatch", "dropped", "cuts", "iterations")}))
            else:
                nm = it[1][0] if it[0] in ("l1", "step") else "%s:%s" % (it[0], it[1] if it[0] != "vec" else "vectors")
                o = Obligation(str(nm), "L")
                o.unknown("%s: %s" % (st, str(val).split("\n")[0][:400]))
                obs.append(o)
                if "MachineryError" in str(val):
                    merr = str(val).split("\n")[0][:600]
        # a wrong digest under a call pattern that is correct modulo the compression function: the
        # compression function is wrong.  Layer 2 normally reports it; if it did not, report here.
        for fam, det in sorted(refmis.items()):
            if fam not in l2_viol:
                o = Obligation("e2e:%s" % fam, "L", [], "one sampled message per call shape",
                               "native digest == reference digest (hashlib / hashspec)")
                det = dict(det)
                det["key"] = "%s.compress.e2e" % fam
                o.fail(det, "replay", 0.0)
                obs.append(o)
        # the seam: every function that layer 1 replaced must be one that layer 2 proved
        if do_l2:
            for fn, fs in sorted(hooked.items()):
                if l2_status.get(fn) not in ("discharged", "violated", "known"):
                    o = Obligation("seam:%s" % fn[-40:], "L", [fn], "", "layer-1 hook target has a discharged layer-2 obligation")
                    o.unknown("compression function %s was abstracted in layer 1 but its layer-2 obligation is %s"
                              % (fn, l2_status.get(fn, "not posed")))
                    obs.append(o)
    except MachineryError as e:
        merr = str(e)[-600:]
        stats, sstats, l2_info, nshapes = {}, {}, [], 0
    except Exception as e:   # build/driver problems are machinery problems, never violations
        merr = "%s: %s" % (type(e).__name__, str(e)[-500:])
        log(traceback.format_exc())
        stats, sstats, l2_info, nshapes = {}, {}, [], 0
    finally:
        built.close()
    funcs = sorted(set(fn for o in obs for fn in o.functions))
    # what the inductive-step obligations (props/C17_step.py) change in the claim
    step_bounds = {}
    step_assume = ["longer messages iterate the same full-block path (lengths beyond 2*block+9 not enumerated)"]
    long_out = ["message lengths > 2*block+9; more than two input split points; more than three extract calls",
                "SHA-2 total length >= 2^61 bytes (counter wrap), BLAKE2s counter beyond 2^32 in layer 1 (layer 2 covers all counters)"]
    if do_step:
        step_bounds = {"step": "update / finalisation from an arbitrary context: chaining value (or Keccak state), every buffer byte, "
                       "every input byte symbolic; byte counter = block*q + fill with q symbolic and EVERY fill level enumerated "
                       "(SHA-2 finalisation: counter < 2^61 resp. 2^125 bytes, the standard's domain; SHA-2 update and BLAKE2s: every "
                       "counter value, BLAKE2s invalid marker !0 excluded); input lengths per fill level: 0, 1, room-1, room, room+1, "
                       "room+block, room+block+1" + ("" if not thorough else " and six more up to 2*block+1") +
                       "; BLAKE2s output lengths " + ("1..32" if thorough else "1, 20, 32") +
                       "; SHAKE squeezing from every block position incl. rate"}
        step_assume = ["induction over the stream: layer 1 establishes the abstract state (props/hashspec.py, one-step forms) for a fresh "
                       "context, the step obligations preserve it for every context and every enumerated input length class; the "
                       "composition law of the one-step forms (step(step(s,a),b) = step(s,a||b), final(step(init,m)) = digest(m)) is "
                       "checked against hashlib on random splits each run (%d comparisons), not proved" % nref_step,
                       "step obligations enumerate input lengths up to 2*block+8 per call; a longer single update call repeats the "
                       "same whole-block loop iteration (loop not unrolled symbolically in its trip count)"]
        long_out = ["a single update call longer than 2*block+8 bytes from a mid-stream context (the same loop body iterates); "
                    "more than three extract calls from a FRESH context are covered by the extract step, input splits by the update step",
                    "SHA-2 finalisation with a byte counter >= 2^61 (SHA-384/512 family: 2^125): outside the standards' domain; "
                    "BLAKE2s streams of 2^64-1 bytes or more",
                    "finalize / finalize_reset / finalize_write / hash aliases from a mid-stream context (layer 1 shows them equal "
                    "from fresh contexts; the step obligations use digest(), Blake2s::finalize_write, finalize_reset_write)"]
    return finish(
        "C17", tier, obs, t0,
        functions_encoded=funcs + ["drivers: new/update/digest/finalize*/reset/clone/hash of " + ", ".join(tags)],
        bounds={
            "message": "all byte values; lengths 0..=2*block+9 (%s)" % ("every length for block/rate <= 72 bytes, else every length 0..=block+9 and the boundary lengths above" if thorough else "boundary lengths: " + "; ".join("%s %s" % (t, boundary_lens(t)) for t in tags)),
            "splits": ("every single split point for each listed length" if thorough else "single split points: all for len <= block+1, otherwise those near block boundaries/ends and every 16th") + ("; every pair of split points for all lengths <= block+9 on sha256 and blake2s, for lengths block and block+9 on sha512 and sha3_512, for length rate+1 on sha3_256 and shake128" if thorough else ""),
            "sequences": "finalize_reset/reset/clone sequences over boundary length tuples (see group bounds)",
            "shake": "output split at every point 0..=rate+8 of rate+9 bytes; three-way splits around the rate; up to 2*rate+9 output bytes",
            "blake2s": "key length 0..=32 x output length 1..=32 on message lengths %s; keyed reuse/reset for key lengths %s" % (
                "0,1,63,64,65,127,128,129" if thorough else "0,64,65,128", "0..=32" if thorough else "0,1,16,31,32"),
            "compression": "all state/block/counter/flag values (layer 2, unbounded in data)",
            "configuration": "default features, x86_64 without avx2 (BLAKE2s SSE2 path), opt-level 3",
            **step_bounds,
        },
        stubs={"uf sha2c32 / sha2c64 / keccakf / blake2sF (layer 1)": "layer-2 obligations compress:* of this check (same run, same IR functions; seam checked by name)"},
        assumptions=["LLVM IR semantics as implemented in engines/llsym (validated natively each run: every call shape on one sampled message, compression functions on 12 inputs, repository known-answer vectors)",
                     "hashspec.py transcriptions of FIPS 180-4 / FIPS 202 / RFC 7693 (validated against hashlib: %d comparisons this run)" % nref]
        + step_assume,
        outside=["BLAKE2s AVX2 path (needs -C target-feature=+avx2) and the portable non-x86 path: not compiled in the default build"]
        + long_out +
                ["use of a BLAKE2s context after finalize without reset (documented as invalid)"] +
                (["quick tier: sha224, sha384, sha512/224, sha512/256, sha3-224/384/512, shake256 (thorough only)"] if not thorough else []),
        extra={"layer1": {k: (round(v, 1) if isinstance(v, float) else v) for k, v in stats.items()},
               "step": {k: (round(v, 1) if isinstance(v, float) else v) for k, v in sstats.items()},
               "layer2": l2_info, "build_seconds": round(built.secs, 1)},
        machinery_error=merr)


def replay(path):
    """re-run a recorded counterexample natively against the reference digest"""
    with open(path) as fh:
        rec = json.load(fh)
    model = rec["obligation"]["model"]
    built = build(all_drivers(), tag="C17-replay")
    try:
        if "driver" not in model:
            # compression-function counterexample: native compression driver against the transcription
            kind = model["key"].split(".")[0]
            env = {k: int(v, 16) for k, v in model["inputs"].items()}
            if kind in ("sha2small", "sha2big"):
                w = 32 if kind == "sha2small" else 64
                h, blk = [env["h%d" % i] for i in range(8)], [env["b%d" % i] for i in range(2 * w)]
                nat = built.native("drv_c17_" + kind, {"h": h, "blk": blk})["out"]
                ref = H.sha2_compress(w, h, blk)
            elif kind == "keccak":
                a = [env["a%d" % i] for i in range(25)]
                nat = built.native("drv_c17_keccak", {"a": a})["out"]
                ref = H.keccak_f(a)
            else:
                h, blk = [env["h%d" % i] for i in range(8)], [env["b%d" % i] for i in range(64)]
                nat = built.native("drv_c17_blake2s", {"h": h, "blk": blk, "ctr": env["ctr"], "last": env["last"]})["out"]
                ref = H.blake2s_F(h, blk, env["ctr"], env["last"])
            still = list(nat) != list(ref)
            print("replay %s: native = %s\nstandard = %s" % (model["key"], [hex(x) for x in nat], [hex(x) for x in ref]))
            print("VIOLATION property=C17 replay=%s" % path if still else "replay: does not reproduce on the current tree")
            return 1 if still else 0
        if ".step." in str(model.get("key", "")):
            still = STEP.replay(built, model)
            print("VIOLATION property=C17 replay=%s" % path if still else "replay: does not reproduce on the current tree")
            return 1 if still else 0
        drv = model["driver"]
        d = built.drivers[drv]
        msg = list(bytes.fromhex(model.get("message_hex", "")))
        key = list(bytes.fromhex(model.get("key_hex", "")))
        inputs = dict(model["params"])
        for name, kind, eb, cnt in d.params:
            if name == "msg":
                inputs["msg"] = _pad(msg, cnt)
            elif name == "key":
                inputs["key"] = _pad(key, cnt)
        nat = native_call(built, drv, inputs, guarded=True)
        print("replay %s: native = %s" % (model.get("shape"), "process aborted (panic)" if nat is None else
                                         {k: (bytes(v).hex() if k != "st" else v) for k, v in nat.items()}))
        print("expected (recorded): %s" % json.dumps(model.get("expected", "a digest (no panic)")))
        still = nat is None or any(k in nat and (bytes(nat[k]).hex() if k != "st" else nat[k]) != v
                                   for k, v in (model.get("expected") or {}).items())
        print("VIOLATION property=C17 replay=%s" % path if still else "replay: does not reproduce on the current tree")
        return 1 if still else 0
    finally:
        built.close()
