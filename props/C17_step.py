"""C17, inductive-step obligations (engine L): update / finalisation from an ARBITRARY mid-stream context.

props/C17.py enumerates call shapes that start from a fresh context; a message longer than
2*block+9 bytes, or a byte counter beyond what those lengths reach, is never seen there.  The
obligations of this file close that gap by induction over the stream:

  base      a fresh context represents the initial abstract state (part of every layer-1 shape of C17.py)
  update    for EVERY context (chaining value / sponge state, buffer bytes, byte counter all symbolic;
            only the buffer fill level = counter mod block is enumerated, every value of it) and every
            n-byte input (n from a list that stays inside the buffer / exactly fills it / crosses one
            block / exactly fills two / crosses two), `update` leaves the context in exactly the
            abstract state that the standard's buffering rule prescribes for "bytes so far || new
            bytes": compression function (uninterpreted, the very functions layer 2 of C17.py proves)
            applied to the right bytes in the right order, counter = counter + n modulo its width,
            BLAKE2s offset counter of every compression = number of bytes up to and including that
            block (all 64 bits, so the carry into t[1] is part of the claim)
  final     for EVERY context of each fill level, finalisation produces the standard's padding: 0x80,
            zeros, the bit length 8*counter as a 64-bit (SHA-224/256) / 128-bit (SHA-384/512 family)
            big-endian integer for ALL counter values of the standard's domain, one or two compressions
            depending on the fill level, truncation; BLAKE2s: zero padding, final flag, final counter,
            output length 1..32; SHA-3/SHAKE: domain suffix, pad10*1, squeezing across the rate
  post      the context after finalisation is the initial state again (digest / finalize_reset*), or
            carries the invalid marker (BLAKE2s finalize_write)

The abstract state (what of the context is compared) is defined in props/hashspec.py next to the
one-step forms of the mode rules (`sha2_step_*`, `blake2s_step_*`, `sponge_step_*`); bytes of the
buffer beyond the fill level are NOT part of it: they are symbolic on the way in (the code may not
depend on them, or the comparison fails) and ignored on the way out.

The contexts are private structs: the drivers are hosted in src/sha2.rs, src/blake2s.rs, src/sha3.rs
and build them field by field.  The counter enters as concat(q, fill) with q a fresh variable, so
control flow is concrete while the counter value is not (`known_low_bits` lets the term layer see the
concrete low bits; it is installed only while these drivers run)."""
import hashlib, time
from engines.llsym.build import Driver
from engines.llsym import terms as T
from engines.llsym.llexec import ExecError, PanicReached
from engines.llsym.smt import BVEmitter, run_solver, parse_model
from vlib.common import Obligation
from . import hashspec as H
from .lhelp import sym_run, rng, MachineryError

M64 = (1 << 64) - 1

SHA2_TY = {"sha224": ("Sha224", "SHA2Small::<224>"), "sha256": ("Sha256", "SHA2Small::<256>"),
           "sha384": ("Sha384", "SHA2Big::<384>"), "sha512": ("Sha512", "SHA2Big::<512>"),
           "sha512_224": ("Sha512_224", "SHA2Big::<224>"), "sha512_256": ("Sha512_256", "SHA2Big::<256>")}
SHA3_TY = {"sha3_224": ("SHA3_224", 224), "sha3_256": ("SHA3_256", 256), "sha3_384": ("SHA3_384", 384),
           "sha3_512": ("SHA3_512", 512)}
SHAKE_TY = {"shake128": 128, "shake256": 256}


def nmsg(tag):
    return 2 * blk_of(tag) + 8


def blk_of(tag):
    if tag in H.SHA2:
        return 2 * H.SHA2[tag][0]
    if tag in H.SHA3:
        return H.SHA3[tag][0]
    return 64


# ---------------------------------------------------------------------------------------------
# drivers (hosted in the hash modules: they build the private context structs directly)

def V(*names):
    return [(n, "val", 8, 1) for n in names]


def sha2_step_drivers(tag):
    w, _, dl = H.SHA2[tag]
    blk, wb, small = 2 * w, w // 8, w == 32
    ty, core = SHA2_TY[tag]
    ST = [("h", "in", wb, 8), ("buf", "in", 1, blk)] + (V("ctr") if small else V("clo", "chi"))
    MSG = [("msg", "in", 1, nmsg(tag))] + V("n")
    cexpr = "ctr" if small else "((chi as u128) << 64) | (clo as u128)"
    mk = "        let mut s = %s(%s { h: *h, buf: *buf, ctr: %s });\n" % (ty, core, cexpr)
    rdc = "octr[0] = s.0.ctr;" if small else "octr[0] = s.0.ctr as u64; octr[1] = (s.0.ctr >> 64) as u64;"
    OC = ("octr", "out", 8, 1 if small else 2)
    return [
        Driver("drv_%s_st_upd" % tag, ST + MSG + [("oh", "out", wb, 8), ("obuf", "out", 1, blk), OC],
               mk + "        s.update(&msg[..(n as usize)]);\n        *oh = s.0.h; *obuf = s.0.buf; " + rdc, "src/sha2.rs"),
        Driver("drv_%s_st_fin" % tag, ST + [("out", "out", 1, dl), ("oh", "out", wb, 8), OC],
               mk + "        *out = s.digest();\n        *oh = s.0.h; " + rdc, "src/sha2.rs"),
        # native only: `total` zero bytes streamed into a fresh context, then msg[..n]
        Driver("drv_%s_st_stream" % tag, V("total") + MSG + [("out", "out", 1, dl)],
               "        let mut s = %s::new();\n        let z = [0u8; 65536];\n        let mut left = total;\n"
               "        while left > 0 { let c = core::cmp::min(left, 65536); s.update(&z[..(c as usize)]); left -= c; }\n"
               "        s.update(&msg[..(n as usize)]);\n        *out = s.digest();" % ty, "src/sha2.rs"),
    ]


def blake2s_step_drivers():
    ST = [("h", "in", 4, 8), ("buf", "in", 1, 64)] + V("ctr", "ol")
    MSG = [("msg", "in", 1, nmsg("blake2s"))] + V("n")
    POST = [("oh", "out", 4, 8), ("obuf", "out", 1, 64), ("ost", "out", 8, 2)]
    FIN = [("out", "out", 1, 32), ("ret", "out", 8, 1)]
    mk = "        let mut s = Blake2s { h: *h, buf: *buf, ctr: ctr, out_len: ol as usize };\n"
    rd = "        *oh = s.h; *obuf = s.buf; ost[0] = s.ctr; ost[1] = s.out_len as u64;"
    host = "src/blake2s.rs"
    return [
        Driver("drv_blake2s_st_upd", ST + MSG + POST, mk + "        s.update(&msg[..(n as usize)]);\n" + rd, host),
        Driver("drv_blake2s_st_fin", ST + FIN + POST,
               mk + "        *out = [0u8; 32];\n        ret[0] = s.finalize_write(&mut out[..]) as u64;\n" + rd, host),
        Driver("drv_blake2s_st_finr", ST + FIN + POST,
               mk + "        *out = [0u8; 32];\n        ret[0] = s.finalize_reset_write(&mut out[..]) as u64;\n" + rd, host),
        Driver("drv_blake2s_st_kfinr", ST + [("key", "in", 1, 32)] + V("kl") + FIN + POST,
               "        let mut k = KeyedBlake2s { ctx: Blake2s { h: *h, buf: *buf, ctr: ctr, out_len: ol as usize }, "
               "saved_key: *key, saved_key_len: kl as usize };\n"
               "        *out = [0u8; 32];\n        ret[0] = k.finalize_reset_write(&mut out[..]) as u64;\n"
               "        let s = &k.ctx;\n" + rd, host),
        Driver("drv_blake2s_st_stream", V("total", "ol") + MSG + [("out", "out", 1, 32)],
               "        let mut s = Blake2s::new(ol as usize);\n        let z = [0u8; 65536];\n        let mut left = total;\n"
               "        while left > 0 { let c = core::cmp::min(left, 65536); s.update(&z[..(c as usize)]); left -= c; }\n"
               "        s.update(&msg[..(n as usize)]);\n        *out = [0u8; 32];\n        s.finalize_write(&mut out[..]);", host),
    ]


def sha3_step_drivers(tag):
    rate, _, dl = H.SHA3[tag]
    host = "src/sha3.rs"
    MSG = [("msg", "in", 1, nmsg(tag))] + V("n")
    if tag in SHA3_TY:
        ty, sz = SHA3_TY[tag]
        ST = [("a", "in", 8, 25)] + V("ptr")
        POST = [("oa", "out", 8, 25), ("optr", "out", 8, 1)]
        mk = "        let mut s = %s(SHA3Core::<%d> { state: KeccakState(*a), ptr: ptr as usize });\n" % (ty, sz)
        rd = "        *oa = s.0.state.0; optr[0] = s.0.ptr as u64;"
        return [
            Driver("drv_%s_st_upd" % tag, ST + MSG + POST, mk + "        s.update(&msg[..(n as usize)]);\n" + rd, host),
            Driver("drv_%s_st_fin" % tag, ST + [("out", "out", 1, dl)] + POST, mk + "        *out = s.digest();\n" + rd, host),
        ]
    sz = SHAKE_TY[tag]
    ST = [("a", "in", 8, 25)] + V("ptr", "fl")
    POST = [("oa", "out", 8, 25), ("ost", "out", 8, 2)]
    mk = "        let mut s = SHAKE::<%d> { state: KeccakState(*a), ptr: ptr as usize, flipped: fl != 0 };\n" % sz
    rd = "        *oa = s.state.0; ost[0] = s.ptr as u64; ost[1] = s.flipped as u64;"
    return [
        Driver("drv_%s_st_inj" % tag, ST + MSG + POST, mk + "        s.inject(&msg[..(n as usize)]);\n" + rd, host),
        Driver("drv_%s_st_flip" % tag, ST + POST, mk + "        s.flip();\n" + rd, host),
        Driver("drv_%s_st_ext" % tag, ST + V("n") + [("out", "out", 1, nmsg(tag))] + POST,
               mk + "        *out = [0u8; %d];\n        s.extract(&mut out[..(n as usize)]);\n" % nmsg(tag) + rd, host),
    ]


def step_drivers(tags):
    ds = []
    for t in tags:
        if t in H.SHA2:
            ds += sha2_step_drivers(t)
        elif t in H.SHA3:
            ds += sha3_step_drivers(t)
        elif t == "blake2s":
            ds += blake2s_step_drivers()
    return ds


# ---------------------------------------------------------------------------------------------
# concrete low bits of a partly symbolic counter

class known_low_bits:
    """While active, `and` with a constant / bit extraction / right shift fold to a constant when
    every result bit is determined by constants below (concat(q, 5) & 63 -> 5, whatever form the
    optimizer gave the computation).  terms.py tracks intervals and known-zero bits only; this adds
    known-one bits for exactly the operators a counter passes through before it becomes a buffer
    index.  The rewrite is an identity on values (it only replaces a term by the constant it always
    evaluates to) and every run is validated against the native build like all others."""
    NAMES = ("t_and", "t_extract", "t_lshr")

    def __init__(self):
        self.memo = {}

    def bits(self, x, w):
        """(mask of known bits, their values)"""
        if not isinstance(x, T.Term):
            return T.mask(w), x & T.mask(w)
        r = self.memo.get(x.id)
        if r is not None:
            return r
        op, a, M = x.op, x.args, T.mask(x.w)
        k, v = 0, 0
        if op == "concat":
            wl = a[1].w if isinstance(a[1], T.Term) else x.aux
            kh, vh = self.bits(a[0], x.w - wl)
            kl, vl = self.bits(a[1], wl)
            k, v = (kh << wl) | kl, (vh << wl) | vl
        elif op == "zext":
            k0, v0 = self.bits(a[0], a[0].w)
            k, v = k0 | (M & ~T.mask(a[0].w)), v0
        elif op == "extract":
            k0, v0 = self.bits(a[0], a[0].w)
            k, v = (k0 >> a[1]) & M, (v0 >> a[1]) & M
        elif op == "shl" and not isinstance(a[1], T.Term):
            k0, v0 = self.bits(a[0], x.w)
            k, v = ((k0 << a[1]) | T.mask(a[1])) & M, (v0 << a[1]) & M
        elif op == "lshr" and not isinstance(a[1], T.Term):
            k0, v0 = self.bits(a[0], x.w)
            k, v = (k0 >> a[1]) | (M & ~(M >> a[1])), v0 >> a[1]
        elif op in ("and", "or", "xor"):
            k, v = self.bits(a[0], x.w)
            for y in a[1:]:
                k1, v1 = self.bits(y, x.w)
                if op == "and":
                    k, v = (k & k1) | (k & ~v) | (k1 & ~v1), v & v1
                elif op == "or":
                    k, v = (k & k1) | (k & v) | (k1 & v1), v | v1
                else:
                    k, v = k & k1, v ^ v1
        elif op == "add":
            # the low bits of a sum are known as far as they are known in every operand
            n, s = x.w, 0
            for y in a:
                k1, v1 = self.bits(y, x.w)
                t = 0
                while t < x.w and (k1 >> t) & 1:
                    t += 1
                n = min(n, t)
                s += v1
            k, v = T.mask(n), s & T.mask(n)
        k |= x.zmask & M
        v &= k & ~(x.zmask & M)
        r = self.memo[x.id] = (k & M, v & M)
        return r

    def __enter__(self):
        self.orig = {n: getattr(T, n) for n in self.NAMES}
        me = self

        def wrap(f):
            def g(*args):
                r = f(*args)
                if isinstance(r, T.Term) and r.op != "var":
                    k, v = me.bits(r, r.w)
                    if k == T.mask(r.w):
                        return v
                return r
            return g
        for n in self.NAMES:
            setattr(T, n, wrap(self.orig[n]))
        return self

    def __exit__(self, *exc):
        for n, f in self.orig.items():
            setattr(T, n, f)
        return False


# ---------------------------------------------------------------------------------------------
# cases

class Case:
    """one symbolic run: driver, concrete shape parameters (fill level, n, output/key length)"""
    __slots__ = ("tag", "kind", "drv", "par")

    def __init__(self, tag, kind, drv, **par):
        self.tag, self.kind, self.drv, self.par = tag, kind, drv, par

    def label(self):
        return "%s.%s(%s)" % (self.tag, self.kind, ",".join("%s=%s" % kv for kv in sorted(self.par.items())))


class Vars:
    """the variables of one case: name -> (width, lo, hi)"""
    def __init__(self):
        self.d = {}

    def var(self, name, w, lo=None, hi=None):
        self.d[name] = (w, 0 if lo is None else lo, T.mask(w) if hi is None else hi)
        return T.var(name, w) if lo is None and hi is None else T.var(name, w, self.d[name][1], self.d[name][2])

    def vec(self, prefix, n, w):
        return [self.var("%s%d" % (prefix, i), w) for i in range(n)]


def counter_term(vs, name, width, fillbits, fill, lo=None, hi=None):
    """concat(q, fill): a `width`-bit counter whose low `fillbits` bits are the constant `fill` and
    whose upper bits are the fresh variable `name` (optionally bounded)"""
    q = vs.var(name, width - fillbits, lo, hi)
    return T.t_concat(q, fill, width - fillbits, fillbits)


def sym_inputs(c):
    """symbolic driver arguments of a case: (dict param -> terms/ints, Vars)"""
    vs = Vars()
    tag, par = c.tag, c.par
    a = {}
    if tag in H.SHA2:
        w = H.SHA2[tag][0]
        blk = 2 * w
        fb = blk.bit_length() - 1
        a["h"] = vs.vec("h", 8, w)
        a["buf"] = vs.vec("b", blk, 8)
        # the standard's domain: fewer than 2^64 (2^128) message BITS
        # (finalisation only; `update` is posed for every counter value)
        dom = c.kind == "final"
        if w == 32:
            a["ctr"] = counter_term(vs, "q", 64, fb, par["fill"], 0, (1 << (61 - fb)) - 1) if dom else \
                counter_term(vs, "q", 64, fb, par["fill"])
        else:
            a["clo"] = counter_term(vs, "q", 64, fb, par["fill"])
            a["chi"] = vs.var("chi", 64, 0, (1 << 61) - 1) if dom else vs.var("chi", 64)
        if c.kind == "update":
            a["msg"] = vs.vec("m", nmsg(tag), 8)
            a["n"] = par["n"]
    elif tag == "blake2s":
        a["h"] = vs.vec("h", 8, 32)
        a["buf"] = vs.vec("b", 64, 8)
        cls = par["fill"]
        if cls == "zero":                  # fresh counter: nothing pending
            a["ctr"] = 0
        elif cls == 64:                    # a complete block is pending: counter = 64*q, q >= 1
            a["ctr"] = counter_term(vs, "q", 64, 6, 0, 1, None)
        else:                              # counter = 64*q + fill; !0 is the documented invalid marker
            a["ctr"] = counter_term(vs, "q", 64, 6, cls, 0, (1 << 58) - 2 if cls == 63 else None)
        a["ol"] = par["ol"] if "ol" in par else vs.var("ol", 64)
        if c.kind == "update":
            a["msg"] = vs.vec("m", nmsg(tag), 8)
            a["n"] = par["n"]
        if c.kind == "keyed_final_reset":
            a["key"] = vs.vec("k", 32, 8)
            a["kl"] = par["kl"]
    else:
        a["a"] = vs.vec("a", 25, 64)
        a["ptr"] = par["fill"]
        if tag in SHAKE_TY:
            a["fl"] = 1 if c.kind == "extract" else 0
        if c.kind in ("update", "inject"):
            a["msg"] = vs.vec("m", nmsg(tag), 8)
            a["n"] = par["n"]
        if c.kind == "extract":
            a["n"] = par["n"]
    return a, vs


def blake_fill(cls):
    return 0 if cls == "zero" else cls


def expected(c, a, uf):
    """the specification's outputs for driver arguments `a` (terms or ints): dict output name ->
    list; None entries are not part of the abstract state"""
    tag, par, kind = c.tag, c.par, c.kind
    if tag in H.SHA2:
        w, _, dl = H.SHA2[tag]
        blk, fill = 2 * w, par["fill"]
        comp = H.uf_sha2 if uf else None
        cnt = a["ctr"] if w == 32 else T.t_concat(a["chi"], a["clo"], 64, 64)
        split = (lambda x: [x]) if w == 32 else (lambda x: [T.t_extract(x, 0, 64), T.t_extract(x, 64, 64)])
        pend = list(a["buf"][:fill])
        if kind == "update":
            h2, p2, c2 = H.sha2_step_update(w, a["h"], pend, cnt, a["msg"][:par["n"]], comp)
            return {"oh": h2, "obuf": p2 + [None] * (blk - len(p2)), "octr": split(c2)}
        return {"out": H.sha2_step_final(tag, a["h"], pend, cnt, comp), "oh": list(H.sha2_iv(tag)), "octr": split(0)}
    if tag == "blake2s":
        F = H.uf_blake2s if uf else None
        fill = blake_fill(par["fill"])
        pend = list(a["buf"][:fill])
        if kind == "update":
            h2, p2, t2 = H.blake2s_step_update(a["h"], pend, a["ctr"], a["msg"][:par["n"]], F)
            return {"oh": h2, "obuf": p2 + [None] * (64 - len(p2)), "ost": [t2, a["ol"]]}
        ol = par["ol"]
        d = H.blake2s_step_final(a["h"], pend, a["ctr"], ol, F)
        e = {"out": d + [0] * (32 - ol), "ret": [ol]}
        if kind == "final":
            e.update({"oh": [None] * 8, "obuf": [None] * 64, "ost": [M64, ol]})
        else:
            key = a["key"][:par["kl"]] if kind == "keyed_final_reset" else []
            h0, p0, t0 = H.blake2s_init(ol, key)
            e.update({"oh": h0, "obuf": p0 + [None] * (64 - len(p0)), "ost": [t0, ol]})
        return e
    rate, suffix, dl = H.SHA3[tag]
    f = H.uf_keccak if uf else None
    S, p = a["a"], par["fill"]
    if kind in ("update", "inject"):
        S2, p2 = H.sponge_step_absorb(rate, S, p, a["msg"][:par["n"]], f)
        return {"oa": S2, "optr": [p2]} if kind == "update" else {"oa": S2, "ost": [p2, 0]}
    if kind == "final":
        out, _, _ = H.sponge_step_squeeze(rate, H.sponge_step_pad(rate, suffix, S, p), rate, dl, f)
        return {"out": out, "oa": [0] * 25, "optr": [0]}
    if kind == "flip":
        return {"oa": H.sponge_step_pad(rate, suffix, S, p), "ost": [rate, 1]}
    out, S2, p2 = H.sponge_step_squeeze(rate, S, p, par["n"], f)
    return {"out": out + [0] * (nmsg(tag) - par["n"]), "oa": S2, "ost": [p2, 1]}


def out_width(built, drv, name):
    for n, kind, eb, cnt in built.drivers[drv].params:
        if n == name:
            return 8 * eb
    raise KeyError(name)


# ------------------------------------------------------------------ case enumeration

def n_list(room, blk, cap, thorough):
    """input lengths for a buffer with `room` free bytes (room = bytes that exactly fill it)"""
    s = {0, 1, room - 1, room, room + 1, room + blk, room + blk + 1}
    if thorough:
        s |= {2, room + 2, blk, room + blk - 1, 2 * blk + 1, room + 2 * blk - blk // 2}
    return sorted(x for x in s if 0 <= x <= cap)


def fills_for(blk):
    """buffer fill levels / block positions: every one (a run costs milliseconds)"""
    return list(range(blk))


def chunks(xs, k):
    return [xs[i:i + k] for i in range(0, len(xs), k)]


def rng_txt(fs):
    fs = list(fs)
    return "%s..%s" % (fs[0], fs[-1]) if len(fs) > 1 else "%s" % fs[0]


def groups_for(tag, tier):
    """[(obligation name, bounds, claim, [cases])]"""
    thorough = tier == "thorough"
    G = []
    blk = blk_of(tag)
    cap = nmsg(tag)
    every_txt = "every value of every other context byte / word"
    if tag in H.SHA2:
        w = H.SHA2[tag][0]
        lenb = w // 4
        dom = "counter = %d*q + fill for every q with counter < 2^%d (the standard's domain: < 2^%d message bits)" % (
            blk, 61 if w == 32 else 125, 64 if w == 32 else 128)
        fu = fills_for(blk)
        dom_u = "counter = %d*q + fill for EVERY q (all 2^%d counter values with that fill)" % (blk, 2 * w)
        for part in chunks(fu, 16):
            G.append(("step:%s.update[fill=%s]" % (tag, rng_txt(part)),
                      "%s; fill levels %s; input lengths relative to the free room r: 0,1,r-1,r,r+1,r+block,r+block+1%s; %s and input byte"
                      % (dom_u, ",".join(map(str, part)), " (+6 more)" if thorough else "", every_txt),
                      "update from an arbitrary context == FIPS 180-4 chaining over pending||input: chaining value, pending bytes, "
                      "counter + n (mod 2^%d); compression uninterpreted" % (2 * w),
                      [Case(tag, "update", "drv_%s_st_upd" % tag, fill=f, n=n) for f in part
                       for n in n_list(blk - f, blk, cap, thorough)]))
        for part in chunks(list(range(blk)), 32):
            G.append(("step:%s.final[fill=%s]" % (tag, rng_txt(part)),
                      "%s; every fill level %s; %s" % (dom, rng_txt(part), every_txt),
                      "digest() from an arbitrary context == FIPS 180-4 5.1 padding (0x80, zeros, 8*counter as a %d-bit big-endian "
                      "integer), one or two compressions, truncation; the context is the initial one afterwards" % (8 * lenb),
                      [Case(tag, "final", "drv_%s_st_fin" % tag, fill=f) for f in part]))
        return G
    if tag == "blake2s":
        dom = "counter = 0, or 64*q + fill (fill 1..63, every q; !0 excluded: invalid marker), or 64*q with q >= 1 (complete block pending)"
        classes = ["zero"] + list(range(1, 65))
        room = lambda cl: 64 - blake_fill(cl)
        for part in chunks(classes, 16):
            G.append(("step:blake2s.update[pending=%s]" % rng_txt([blake_fill(x) for x in part]),
                      "%s; input lengths relative to the free room r: 0,1,r-1,r,r+1,r+64,r+65%s; output length field symbolic; %s and input byte"
                      % (dom, " (+6 more)" if thorough else "", every_txt),
                      "update from an arbitrary context == RFC 7693 3.3 over pending||input: every block but the last one compressed "
                      "with offset counter = bytes up to and including that block (64-bit value passed to F: t[0], t[1] with carry), "
                      "flag clear; last (possibly complete) block stays pending; counter + n (mod 2^64)",
                      [Case(tag, "update", "drv_blake2s_st_upd", fill=cl, n=n) for cl in part
                       for n in n_list(room(cl), 64, cap, thorough)]))
        ols = list(range(1, 33)) if thorough else [1, 20, 32]
        for part in chunks(classes, 33):
            G.append(("step:blake2s.final[pending=%s]" % rng_txt([blake_fill(x) for x in part]),
                      "%s; output lengths %s; %s" % (dom, ",".join(map(str, ols)), every_txt),
                      "finalize_write from an arbitrary context == F(h, pending||0.., counter, last=1) truncated to the output length; "
                      "bytes beyond it untouched; returned length; invalid marker set",
                      [Case(tag, "final", "drv_blake2s_st_fin", fill=cl, ol=ol) for cl in part for ol in ols]))
        some = ["zero", 1, 31, 32, 63, 64] if not thorough else classes
        G.append(("step:blake2s.final_reset", "%s; pending levels %s; output lengths 7, 32" % (dom, ",".join(str(blake_fill(x)) for x in some)),
                  "finalize_reset_write: same digest, and the context is Blake2s::new(out_len) again",
                  [Case(tag, "final_reset", "drv_blake2s_st_finr", fill=cl, ol=ol) for cl in some for ol in (7, 32)]))
        kls = [0, 1, 16, 31, 32] if not thorough else list(range(33))
        G.append(("step:blake2s.keyed_final_reset", "%s; pending levels %s; key lengths %s (all key bytes symbolic); output length 32"
                  % (dom, ",".join(str(blake_fill(x)) for x in some), ",".join(map(str, kls))),
                  "KeyedBlake2s::finalize_reset_write: same digest, and the context is KeyedBlake2s::new(out_len, key) again "
                  "(parameter word, key block pending, counter 64)",
                  [Case(tag, "keyed_final_reset", "drv_blake2s_st_kfinr", fill=cl, ol=32, kl=kl) for cl in some for kl in kls]))
        return G
    rate, suffix, dl = H.SHA3[tag]
    ptrs = fills_for(rate)
    dom = "every Keccak state (25 lanes symbolic)"
    if tag in SHA3_TY:
        for part in chunks(ptrs, 24):
            G.append(("step:%s.update[ptr=%s]" % (tag, rng_txt(part)),
                      "%s; block positions %s; input lengths relative to the free room r: 0,1,r-1,r,r+1,r+rate,r+rate+1%s; every input byte"
                      % (dom, ",".join(map(str, part)), " (+6 more)" if thorough else ""),
                      "update from an arbitrary context == FIPS 202 absorbing (XOR at the block position, Keccak-p at the rate boundary; uninterpreted)",
                      [Case(tag, "update", "drv_%s_st_upd" % tag, fill=f, n=n) for f in part for n in n_list(rate - f, rate, cap, thorough)]))
        for part in chunks(list(range(rate)), 48):
            G.append(("step:%s.final[ptr=%s]" % (tag, rng_txt(part)), "%s; every block position %s" % (dom, rng_txt(part)),
                      "digest() from an arbitrary context == domain suffix 01 + pad10*1 at the block position, Keccak-p, first %d bytes; "
                      "the context is the initial one afterwards" % dl,
                      [Case(tag, "final", "drv_%s_st_fin" % tag, fill=f) for f in part]))
        return G
    for part in chunks(ptrs, 24):
        G.append(("step:%s.inject[ptr=%s]" % (tag, rng_txt(part)),
                  "%s; block positions %s; input lengths relative to the free room r: 0,1,r-1,r,r+1,r+rate,r+rate+1%s; every input byte"
                  % (dom, ",".join(map(str, part)), " (+6 more)" if thorough else ""),
                  "inject from an arbitrary absorbing context == FIPS 202 absorbing",
                  [Case(tag, "inject", "drv_%s_st_inj" % tag, fill=f, n=n) for f in part for n in n_list(rate - f, rate, cap, thorough)]))
    G.append(("step:%s.flip" % tag, "%s; every block position 0..%d" % (dom, rate - 1),
              "flip from an arbitrary absorbing context == suffix 1111 + pad10*1 XORed in, squeezing position = rate, flipped",
              [Case(tag, "flip", "drv_%s_st_flip" % tag, fill=f) for f in range(rate)]))
    eptrs = sorted(set(ptrs) | {rate})
    for part in chunks(eptrs, 24):
        G.append(("step:%s.extract[ptr=%s]" % (tag, rng_txt(part)),
                  "%s; squeezing positions %s (rate = nothing delivered yet / block exhausted); output lengths relative to the rest r of the block: 0,1,r-1,r,r+1,r+rate,r+rate+1%s"
                  % (dom, ",".join(map(str, part)), " (+6 more)" if thorough else ""),
                  "extract from an arbitrary squeezing context == FIPS 202 squeezing (Keccak-p exactly when the block is exhausted)",
                  [Case(tag, "extract", "drv_%s_st_ext" % tag, fill=f, n=n) for f in part for n in n_list(rate - f, rate, cap, thorough)]))
    return G


# ------------------------------------------------------------------ native side

def sample_env(c, vs, r, it):
    """an assignment of the case's variables: random, with the counter near the boundaries that
    matter (2^29 / 2^32 / 2^61 bytes, all-ones) on the first iterations"""
    env = {}
    for name, (w, lo, hi) in vs.d.items():
        v = r.randrange(lo, hi + 1)
        if name == "q":
            fb = 64 - w
            pick = [None, (1 << 29) >> fb, (1 << 32) >> fb, hi, ((1 << 32) >> fb) - 1, (1 << 61) >> fb, lo, ((1 << 29) >> fb) - 1]
            p = pick[it % len(pick)]
            if p is not None and lo <= p <= hi:
                v = p
        elif name == "chi":
            v = [v, 0, 1, hi, 0, v, v, 0][it % 8]
        elif it % 8 == 1 and name[0] in "bm":
            v = 0
        env[name] = v
    return env


def concrete_args(a, env):
    out = {}
    for k, v in a.items():
        if isinstance(v, list):
            out[k] = [int(x) for x in T.evaluate(v, env)]
        else:
            out[k] = int(T.evaluate([v], env)[0])
    return out


def mismatch(exp, nat):
    """names of outputs whose specified entries differ"""
    bad = []
    for name, es in exp.items():
        got = nat[name]
        if any(e is not None and int(e) != int(g) for e, g in zip(es, got)):
            bad.append(name)
    return bad


def fmt(name, xs):
    xs = list(xs)
    if all(x is None or 0 <= x < 256 for x in xs) and name in ("out", "obuf", "buf", "msg", "key"):
        return "".join("--" if x is None else "%02x" % x for x in xs)
    return ["-" if x is None else hex(x) for x in xs]


def native_check(built, c, a, env):
    """native driver from the concrete context of `env` against the one-step rule with the real
    compression function: (ok, detail)"""
    args = concrete_args(a, env)
    nat = built.native(c.drv, args)
    exp = expected(c, args, uf=False)
    bad = mismatch(exp, nat)
    if not bad:
        return True, None
    det = {"key": "%s.step.%s" % (c.tag, c.kind), "case": c.label(), "driver": c.drv,
           "inputs": {k: (fmt(k, v) if isinstance(v, list) else hex(v)) for k, v in args.items() if k != "msg"},
           "native": {n: fmt(n, nat[n]) for n in bad}, "expected": {n: fmt(n, exp[n]) for n in bad}}
    if "msg" in args:
        det["inputs"]["msg"] = fmt("msg", args["msg"][:args["n"]])
    return False, det


def counter_of(c, args):
    if c.tag in H.SHA2 and H.SHA2[c.tag][0] == 64:
        return (args["chi"] << 64) | args["clo"]
    return args.get("ctr")


def reachable_witness(built, c, args, budget=45):
    """Independent second confirmation where feasible: a REAL message (zero bytes streamed natively
    into a fresh context in 64 KiB pieces, then the case's n input bytes) that brings a fresh context
    to a counter with the same low 30 / 32 / 33 bits as the failing one (or to 2^29 / 2^32 + fill when
    the failing counter is above), against hashlib fed the same stream.  Only SHA-2 / BLAKE2s, totals up to 2^32+2^20 bytes, within a time budget; dict or None."""
    tag = c.tag
    if (tag not in H.SHA2 and tag != "blake2s") or c.kind not in ("final", "update"):
        return None
    ctr = counter_of(c, args)
    cap = (1 << 32) + (1 << 20)
    fill = ctr % blk_of(tag)
    cands = [ctr] + [ctr & T.mask(k) for k in (30, 32, 33)] + [b + fill for b in (1 << 29, 1 << 32) if ctr >= b]
    totals = sorted(set(t for t in cands if (1 << 20) <= t <= cap))
    n = args.get("n", 0) if c.kind == "update" else 0
    tail = [(7 * i + 1) & 255 for i in range(n)]
    msg = tail + [0] * (nmsg(tag) - n)
    t0 = time.time()
    for total in totals:
        if time.time() - t0 > (budget if total <= (1 << 30) else budget / 3):
            break
        if tag == "blake2s":
            ol = args["ol"] if 1 <= args["ol"] <= 32 else 32
            nat = built.native("drv_blake2s_st_stream", {"total": total, "ol": ol, "msg": msg, "n": n})["out"][:ol]
            hl = hashlib.blake2s(digest_size=ol)
        else:
            try:
                hl = hashlib.new(H.HASHLIB[tag])
            except ValueError:
                return None
            nat = built.native("drv_%s_st_stream" % tag, {"total": total, "msg": msg, "n": n})["out"]
        z = bytes(1 << 20)
        left = total
        while left:
            k = min(left, len(z))
            hl.update(z[:k])
            left -= k
        hl.update(bytes(tail))
        ref = list(hl.digest())
        if list(nat) != ref:
            return {"message": "%d zero bytes followed by %s" % (total, bytes(tail).hex() or "nothing"),
                    "native": bytes(nat).hex(), "hashlib": bytes(ref).hex(), "seconds": round(time.time() - t0, 1)}
    return None


# ------------------------------------------------------------------ deciding one case

def add_witness(built, c, a, env, det, wanted):
    if not wanted:
        return
    try:
        rw = reachable_witness(built, c, concrete_args(a, env))
    except Exception as e:      # the second confirmation is optional
        rw = {"error": str(e)[:200]}
    if rw:
        det["reachable_witness"] = rw


def decide_case(ctx, c, timeout, validate=True, witness=True):
    """dict(verdict=ok|viol|unknown, how, detail, secs, hooked)"""
    from . import C17
    t0 = time.time()
    built = ctx.built
    T.reset()
    a, vs = sym_inputs(c)
    r = rng("c17-step", c.label())
    kb = known_low_bits()
    try:
        with kb:
            ex, ins, outs = sym_run(built, c.drv, executor_setup=lambda e: C17.install_hooks(e, ctx.layout), concrete=a)
    except PanicReached as e:
        # concrete control flow: every context of this case panics.  Confirm natively (forked child).
        env = sample_env(c, vs, r, 0)
        args = concrete_args(a, env)
        nat = C17.native_call(built, c.drv, args, guarded=True)
        if nat is None:
            det = {"key": "%s.step.%s:panic:%s" % (c.tag, c.kind, C17._short_callee(e.callee)), "case": c.label(), "driver": c.drv,
                   "inputs": {k: (fmt(k, v) if isinstance(v, list) else hex(v)) for k, v in args.items()},
                   "native": "process aborted (panic)", "found_by": "symbolic run reaches a panic (%s); native replay" % e.callee[:80]}
            return dict(verdict="viol", how="exec+replay", detail=det, secs=time.time() - t0, hooked=set())
        return dict(verdict="unknown", how="exec", detail="executor reached a panic path (%s) that the native run does not take" % e,
                    secs=time.time() - t0, hooked=set())
    except ExecError as e:
        # e.g. control flow that depends on the symbolic part of the counter (never on the unchanged
        # tree): not decidable by this executor; hunt natively over boundary contexts before giving up
        for it in range(24):
            env = sample_env(c, vs, r, it)
            ok, det = native_check(built, c, a, env)
            if not ok:
                det["found_by"] = "boundary replay after executor stop (%s)" % str(e)[:120]
                add_witness(built, c, a, env, det, witness)
                return dict(verdict="viol", how="replay", detail=det, secs=time.time() - t0, hooked=set())
        return dict(verdict="unknown", how="exec", detail="executor: %s" % str(e)[:300], secs=time.time() - t0, hooked=set())
    exp = expected(c, a, uf=True)
    pairs = []
    for name, es in exp.items():
        got = outs[name]
        if got is None or len(got) != len(es):
            return dict(verdict="unknown", how="exec", detail="output %s not (fully) written" % name, secs=time.time() - t0, hooked=set())
        w = out_width(built, c.drv, name)
        for x, y in zip(got, es):
            if y is None:
                continue
            if x is y or (not isinstance(x, T.Term) and not isinstance(y, T.Term) and x == y):
                continue
            pairs.append((x, y, w))
    res = dict(hooked=set(ex.c17_hooked))
    if validate or pairs:
        # translator validation: DAG (compression interpreted by the native compression drivers) == native driver
        for it in (0, 1):
            env = sample_env(c, vs, r, it)
            args = concrete_args(a, env)
            nat = built.native(c.drv, args)
            for name in exp:
                val = T.evaluate(outs[name], env)
                if list(val) != list(nat[name]):
                    raise MachineryError("translator validation failed for %s/%s: dag=%r native=%r"
                                         % (c.label(), name, list(val)[:8], list(nat[name])[:8]))
    if not pairs:
        return dict(res, verdict="ok", how="syntactic", secs=time.time() - t0)
    em = BVEmitter()
    diffs = ["(distinct %s %s)" % (em.ref(x, w), em.ref(y, w)) for x, y, w in pairs]
    goal = diffs[0] if len(diffs) == 1 else "(or %s)" % " ".join(diffs)
    v, mod, dt = run_solver(em.script([goal], logic="QF_UFBV"), "z3", timeout)
    if v == "unsat":
        return dict(res, verdict="ok", how="z3-ufbv", secs=time.time() - t0, solver_s=dt)
    tries = []
    if v == "sat":
        model = parse_model(mod)
        env = {name: min(max(model.get(name, lo), lo), hi) for name, (w, lo, hi) in vs.d.items()}
        tries.append((env, "z3-ufbv model (compression function uninterpreted), replayed natively"))
    after = "abstract model" if v == "sat" else "solver " + v
    tries += [(sample_env(c, vs, r, it), "boundary replay after " + after) for it in range(16)]
    for env, how in tries:
        ok, det = native_check(built, c, a, env)
        if not ok:
            det["found_by"] = how
            add_witness(built, c, a, env, det, witness)
            return dict(res, verdict="viol", how="z3-ufbv+replay", secs=time.time() - t0, solver_s=dt, detail=det)
    return dict(res, verdict="unknown", how="z3-ufbv", secs=time.time() - t0, solver_s=dt,
                detail=("model under the uninterpreted compression function does not reproduce natively" if v == "sat" else "solver: " + v))


def decide_group(ctx, name, bounds, claim, cases, timeout, validate_every=1):
    from . import C17
    tag = cases[0].tag
    fam = C17.FAMILY[tag]
    ob = Obligation(name, "L", [], "%d symbolic runs; %s" % (len(cases), bounds), claim)
    t0 = time.time()
    nsyn = nsol = 0
    solver_s = 0.0
    hooked = set()
    unknown, viol = [], None
    for i, c in enumerate(cases):
        r = decide_case(ctx, c, timeout, validate=(i % validate_every == 0), witness=(viol is None))
        hooked |= r.get("hooked", set())
        solver_s += r.get("solver_s", 0.0)
        if r["verdict"] == "ok":
            if r["how"] == "syntactic":
                nsyn += 1
            else:
                nsol += 1
        elif r["verdict"] == "viol":
            if viol is None:
                viol = r
                viol["count"] = 1
            else:
                viol["count"] += 1
            if viol["count"] >= 3:
                break
        else:
            unknown.append("%s: %s" % (c.label(), r["detail"]))
    dt = time.time() - t0
    how = "syntactic x%d, z3-ufbv x%d" % (nsyn, nsol)
    if viol is not None:
        det = viol["detail"]
        det["cases_failing_in_group"] = ">=%d" % viol["count"]
        ob.fail(det, viol["how"], dt, len(cases))
    elif unknown:
        ob.unknown("%d of %d cases undecided; first: %s" % (len(unknown), len(cases), unknown[0][:300]), how, dt, len(cases))
    else:
        ob.ok(how, dt, len(cases), syntactic=(nsol == 0))
    ob.c17 = dict(hooked=sorted(hooked), nsyn=nsyn, nsol=nsol, solver_s=solver_s, fam=fam, nshapes=len(cases), ref_mismatch=None,
                  step=True)
    return ob


def replay(built, model):
    """re-run a recorded step counterexample natively (used by C17.replay)"""
    tag, kind = model["key"].split(":")[0].split(".step.")
    txt = model["case"]
    par = {}
    for kv in txt[txt.index("(") + 1:-1].split(","):
        k, v = kv.split("=")
        par[k] = v if v == "zero" else int(v)
    c = Case(tag, kind, model["driver"], **par)
    args = {}
    for n, pk, eb, cnt in built.drivers[c.drv].params:
        if pk == "out":
            continue
        v = model["inputs"].get(n)
        if pk == "val":
            args[n] = int(v, 16)
        elif isinstance(v, str):
            args[n] = list(bytes.fromhex(v)) + [0] * (cnt - len(v) // 2)
        else:
            args[n] = [int(x, 16) for x in v]
    from . import C17
    nat = C17.native_call(built, c.drv, args, guarded=True)
    if nat is None:
        print("replay %s: native = process aborted (panic)" % c.label())
        return True
    exp = expected(c, args, uf=False)
    bad = mismatch(exp, nat)
    print("replay %s: native = %s\nexpected = %s" % (c.label(), {n: fmt(n, nat[n]) for n in (bad or exp)},
                                                     {n: fmt(n, exp[n]) for n in (bad or exp)}))
    return bool(bad)
