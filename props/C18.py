"""C18 All selectable backends are observationally identical (engine L).

Every C01/C05/C20 obligation is stated against a backend-independent
big-integer / bit-exact specification, so "backend X meets the spec for all
inputs" for each X gives pairwise equality of encodings and status words.
C18 re-runs those obligation sets on the non-default configurations that
compile on the host; the default configuration is C01/C05/C20 themselves."""
import copy, time
from vlib.common import Obligation, finish, log
from . import fields as F
from . import C01, C05, C20

# obligations that do not close under a configuration (measured) -- not posed
OPEN = {
    "w32": ["decode_ct[len=32]", ".sub:", ".mul:", ".square:", ".xsquare2:", ".mul_small:", ".lookup"],
    "avx2": ["lookup16_x4"],
}


def _posed(cfg, name):
    return not any(p in name for p in OPEN.get(cfg, []))


def run(tier, only=None):
    t0 = time.time()
    obs = []
    merr = None
    notes = {}
    cfgs = only or ["w32", "avx2"]
    if "w32" in cfgs:
        feats = ["w32_backend"]
        flds = []
        for t in (["gf25519", "gf255e"] if tier == "quick" else ["gf25519", "gf255e", "gf255s"]):
            f = copy.copy(F.BYTAG[t])
            f.ops = [o for o in F.LIN_OPS if o != "sub"]
            flds.append(f)
        o1, m1 = C01.run_config(tier, flds, "w32", features=feats, defer=set(), only=True, timeout=60)
        o2, m2, _ = C05.run_config(tier, cfg="w32", features=feats, only=[f.tag for f in flds])
        o3, m3, _ = C20.run_config(tier, cfg="w32", features=feats,
                                   only=["gf25519", "gfp256", "sc25519", "ed25519"])
        merr = m1 or m2 or m3
        allw = o1 + o2 + o3
        obs += [o for o in allw if _posed("w32", o.name)]
        notes["w32"] = "32-bit limb backend on x86-64: %d obligations posed, %d not posed" % (
            len([o for o in allw if _posed("w32", o.name)]), len([o for o in allw if not _posed("w32", o.name)]))
    if "avx2" in cfgs:
        o4, m4, _ = C20.run_config(tier, cfg="avx2", rustflags="-C target-feature=+avx2",
                                   only=["lookup", "ed25519", "gf25519", "p256"])
        merr = merr or m4
        obs += [o for o in o4 if _posed("avx2", o.name)]
        notes["avx2"] = "AVX2 code paths of the lookups / selects: %d obligations" % len(o4)
    return finish("C18", tier, obs, t0,
                  functions_encoded=sorted(set(fn for o in obs for fn in o.functions)),
                  bounds={"configurations": notes,
                          "default configuration": "covered by C01, C05, C20 (same specifications)"},
                  assumptions=["equality across backends is obtained through the common specification: each backend's "
                               "operation equals the same mathematical function of the encoded inputs"],
                  outside=["gf255_m51 (51-bit limbs) and gfb254_x86clmul / binary fields, zz32: no obligations yet",
                           "w32: subtraction, multiplication, squaring, strict decode at the exact length (the optimized "
                           "code has a data-dependent branch there: see C02 findings) and Montgomery reducing decodes do not close",
                           "whole API traces over curves/signatures (they factor through these per-operation equalities)",
                           "aarch64-only code"],
                  machinery_error=merr)
