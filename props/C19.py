"""C19 Decoding and verification are total: no panic, hang or out-of-bounds.

Engine L part: every decoder / byte-to-group map / ECDH / X-function is
executed symbolically from the optimized IR with ALL input bytes symbolic at
each length in the bound; branches on symbolic data fork (infeasible sides
pruned by z3).  The obligation holds when every feasible path returns
normally (no call to a panic routine, no out-of-bounds access in the
executor's memory model) and every status word is exactly 0 or 0xFFFFFFFF.
Engine K parts (FROST, LMS, split_vartime ...) are merged from the other
property scripts when present."""
import importlib, time
from engines.llsym.build import build, Driver
from engines.llsym import terms as T
from engines.llsym.smt import BVEmitter, run_solver, parse_model, bvc
from vlib.common import Obligation, finish, log, NCPU
from vlib.par import pmap
from . import fields as F
from .lhelp import explore, native_crashes, rng, hexl, model_inputs, _feasible, MachineryError

ALL1 = 0xFFFFFFFF

# curve tag -> (module, point encoding lengths to try, has PublicKey, has ECDH, has hash_to_curve, has one_way_map)
CURVES = {
    "ed25519": ("crate::ed25519", [0, 31, 32, 33], True, False, False, False),
    "ed448": ("crate::ed448", [0, 56, 57, 58], True, False, False, False),
    "p256": ("crate::p256", [0, 1, 32, 33, 64, 65, 66], True, False, False, False),
    "secp256k1": ("crate::secp256k1", [0, 1, 32, 33, 64, 65, 66], True, False, False, False),
    "jq255e": ("crate::jq255e", [0, 31, 32, 33], True, True, True, False),
    "jq255s": ("crate::jq255s", [0, 31, 32, 33], True, True, True, False),
    "gls254": ("crate::gls254", [0, 31, 32, 33], True, True, True, False),
    "ristretto255": ("crate::ristretto255", [0, 31, 32, 33], False, False, False, True),
    "decaf448": ("crate::decaf448", [0, 55, 56, 57], False, False, False, True),
}
QUICK_CURVES = ["ed25519", "p256", "jq255e", "ristretto255"]
QUICK_FIELDS = ["gf25519", "gfp256", "sc25519", "gf448"]


def drivers(tier, only):
    ds = []   # (Driver, what, status_outs)
    fields = [f for f in F.FIELDS if (tier == "thorough" or f.tag in QUICK_FIELDS or (only and f.tag in only)) and (not only or f.tag in only)]
    for f in fields:
        L = f.enc_len
        for n in (0, L - 1, L, L + 1):
            ds.append((Driver("drv_t_%s_decode_%d" % (f.tag, n), [("buf", "in", 1, n), ("st", "out", 4, 1)],
                              "        st[0] = match <%s>::decode(&buf[..]) { Some(_) => 1, None => 0 };" % f.rust),
                       "%s::decode (Option), %d bytes" % (f.rust, n), []))
    curves = [c for c in CURVES if (tier == "thorough" or c in QUICK_CURVES or (only and c in only)) and (not only or c in only)]
    # quick tier: the remaining curves are posed at the wrong lengths only (the length checks of the
    # slice-taking decoders, where a panic is one misplaced slice expression away)
    wrong_only = {}
    if tier == "quick" and not only:
        for c in CURVES:
            if c not in curves:
                L = {"ed448": 57, "decaf448": 56, "secp256k1": None}.get(c, 32)
                wrong_only[c] = [n for n in CURVES[c][1] if n != L and n not in (33, 65)] if L else [0, 1, 32, 64, 66]
        curves = curves + list(wrong_only)
    for c in curves:
        mod, lens, haspk, hasecdh, hash2c, owm = CURVES[c]
        if c in wrong_only:
            lens = wrong_only[c]
        for n in lens:
            ds.append((Driver("drv_t_%s_pdecode_%d" % (c, n), [("buf", "in", 1, n), ("st", "out", 4, 1)],
                              "        let mut p = %s::Point::NEUTRAL;\n        let r = p.set_decode(&buf[..]);\n"
                              "        st[0] = r;" % mod),
                       "%s::Point::set_decode, %d bytes" % (mod, n), ["st"]))
            ds.append((Driver("drv_t_%s_podecode_%d" % (c, n), [("buf", "in", 1, n), ("st", "out", 4, 1)],
                              "        st[0] = match %s::Point::decode(&buf[..]) { Some(_) => 1, None => 0 };" % mod),
                       "%s::Point::decode (Option), %d bytes" % (mod, n), []))
            if haspk:
                ds.append((Driver("drv_t_%s_pkdecode_%d" % (c, n), [("buf", "in", 1, n), ("st", "out", 4, 1)],
                                  "        st[0] = match %s::PublicKey::decode(&buf[..]) { Some(_) => 1, None => 0 };" % mod),
                           "%s::PublicKey::decode, %d bytes" % (mod, n), []))
        if c in wrong_only:
            continue
        if hasecdh:
            for n in (0, 31, 32, 33):
                ds.append((Driver("drv_t_%s_ecdh_%d" % (c, n),
                                  [("sk", "in", 1, 32), ("pk", "in", 1, n), ("key", "out", 1, 32), ("st", "out", 4, 1)],
                                  "        let k = match %s::PrivateKey::decode(&sk[..]) { Some(k) => k, None => { st[0] = 0; return; } };\n"
                                  "        let (kk, ok) = k.ECDH(&pk[..]);\n        *key = kk; st[0] = ok;" % mod),
                           "%s::PrivateKey::decode + ECDH, peer key %d bytes" % (mod, n), ["st"]))
        if hash2c:
            for n in (0, 5, 32):
                ds.append((Driver("drv_t_%s_h2c_%d" % (c, n), [("data", "in", 1, n), ("out", "out", 1, 32)],
                                  "        let p = %s::Point::hash_to_curve(\"\", &data[..]);\n        *out = p.encode();" % mod),
                           "%s::Point::hash_to_curve (raw data), %d bytes" % (mod, n), []))
        if owm:
            L2 = {"ristretto255": 64, "decaf448": 112}[c]
            for n in (L2,):
                ds.append((Driver("drv_t_%s_owm_%d" % (c, n), [("data", "in", 1, n), ("out", "out", 1, 1)],
                                  "        let p = %s::Point::one_way_map(&data[..]);\n        let e = p.encode(); out[0] = e[0];" % mod),
                           "%s::Point::one_way_map, %d bytes" % (mod, n), []))
    if not only or "x" in only:
        ds.append((Driver("drv_t_x25519", [("u", "in", 1, 32), ("k", "in", 1, 32), ("out", "out", 1, 32)],
                          "        *out = crate::x25519::x25519(u, k);"), "x25519::x25519", []))
        if tier == "thorough":
            ds.append((Driver("drv_t_x448", [("u", "in", 1, 56), ("k", "in", 1, 56), ("out", "out", 1, 56)],
                              "        *out = crate::x448::x448(u, k);"), "x448::x448", []))
    return ds


def check_total(built, d, what, status_outs, timeout):
    name = CFGN + ":" + d.name[6:]
    ob = Obligation(name, "L", [what], "all byte strings of the stated length(s)",
                    "every feasible path returns normally; status words are exactly 0 or 0xFFFFFFFF")
    t0 = time.time()
    try:
        paths, nq, truncated = explore(built, d.name, max_paths=64, feas_timeout=min(timeout, 30))
    except Exception as e:
        return [ob.unknown("executor: %s" % str(e)[:300])]
    if truncated:
        return [ob.unknown("path budget exhausted (%d paths)" % len(paths))]
    errs = [p for p in paths if p.outcome == "error"]
    if errs:
        return [ob.unknown("executor: %s" % errs[0].info["msg"][:300])]
    panics = [p for p in paths if p.outcome == "panic"]
    for p in panics:
        st, model = _feasible(p.conds, timeout)
        nq += 1
        if st == "unsat":
            continue
        if st == "sat":
            inputs = model_inputs(model, built, d.name)
            crashed, err = native_crashes(built, d.name, inputs)
            if crashed:
                return [ob.fail({"key": d.name[6:].rsplit("_", 1)[0] + "|" + p.info["callee"][:60],
                                 "inputs": {k: hexl(v) for k, v in inputs.items()}, "panic": p.info, "native_stderr": err,
                                 "found_by": "z3-bv path model, replayed natively (process aborts)"},
                                "z3-bv", time.time() - t0, nq)]
            return [ob.unknown("panic path has a solver model that does not crash natively")]
        return [ob.unknown("panic path reached in the executor; feasibility undecided (%s)" % p.info["callee"][:80])]
    # status words
    rets = [p for p in paths if p.outcome == "ret"]
    for p in rets:
        for so in status_outs:
            s = p.outs[so][0]
            if not isinstance(s, T.Term):
                if s not in (0, ALL1):
                    return [ob.unknown("concrete status word %x on a path" % s)]
                continue
            # first on over-approximations of the status term (deep sub-terms cut to fresh
            # variables, path condition dropped): unsat there is unsat for the real term
            v = None
            for depth in (8, 16, 32):
                em0 = BVEmitter()
                sr0 = em0.ref(T.cut(s, depth), 32)
                v0, _, _ = run_solver(em0.script(["(and (distinct %s %s) (distinct %s %s))"
                                                  % (sr0, bvc(0, 32), sr0, bvc(ALL1, 32))], get_model=False),
                                      "z3", min(timeout, 20))
                nq += 1
                if v0 == "unsat":
                    v = "unsat"
                    break
            if v == "unsat":
                continue
            em = BVEmitter()
            sr = em.ref(s, 32)
            asr = ["(= %s %s)" % (em.ref(c, 1), "#b1" if v else "#b0") for c, v in p.conds]
            asr.append("(and (distinct %s %s) (distinct %s %s))" % (sr, bvc(0, 32), sr, bvc(ALL1, 32)))
            v, mod, dt = run_solver(em.script(asr), "z3", timeout)
            nq += 1
            if v == "sat":
                inputs = model_inputs(parse_model(mod), built, d.name)
                nat = built.native(d.name, inputs)
                if nat[so][0] not in (0, ALL1):
                    return [ob.fail({"key": d.name[6:].rsplit("_", 1)[0] + "|status",
                                     "inputs": {k: hexl(v_) for k, v_ in inputs.items()}, "status": hex(nat[so][0]),
                                     "found_by": "z3-bv model, replayed natively"}, "z3-bv", time.time() - t0, nq)]
                return [ob.unknown("status model does not reproduce natively")]
            if v != "unsat":
                return [ob.unknown("status word: solver %s" % v)]
    ob.ok("symbolic execution of %d path(s), %d IR instructions; z3-bv x%d" % (len(paths), sum(p.steps for p in rets), nq),
          time.time() - t0, nq, syntactic=False)
    return [ob]


CFGN = "default"


def run(tier, only=None):
    t0 = time.time()
    obs = []
    merr = None
    if not only or not all(o.startswith("k:") for o in only):
        trip = drivers(tier, [o for o in (only or []) if not o.startswith("k:")] or None)
        built = build([d for d, _, _ in trip], tag="C19-default")
        timeout = 120 if tier == "quick" else 900

        def work(t):
            T.reset()
            return check_total(built, t[0], t[1], t[2], timeout)
        res = pmap(work, trip, nproc=NCPU, timeout=timeout * 10)
        for t, (st, val) in zip(trip, res):
            if st == "ok":
                obs.extend(val)
            else:
                o = Obligation(CFGN + ":" + t[0].name[6:], "L", [t[1]])
                o.unknown("%s: %s" % (st, str(val)[-300:]))
                obs.append(o)
        built.close()
    # engine K totality obligations contributed by other property scripts
    knotes = {}
    for modname in ("C15", "C16", "C11_kani"):
        if only and ("k:" + modname) not in only and any(o.startswith("k:") for o in only):
            continue
        if only and not any(o.startswith("k:") for o in only):
            continue
        try:
            m = importlib.import_module("props." + modname)
            if hasattr(m, "totality_obligations"):
                ko = m.totality_obligations(tier)
                obs.extend(ko)
                knotes[modname] = len(ko)
        except ImportError:
            knotes[modname] = "absent"
        except Exception as e:
            knotes[modname] = "error: %s" % str(e)[:200]
    return finish("C19", tier, obs, t0,
                  functions_encoded=sorted(set(fn for o in obs for fn in o.functions)),
                  rule=("one evaluation = one entry point at one input length with all bytes symbolic, all feasible "
                        "paths explored; non-trivial = at least one path executed on symbolic data with solver-pruned "
                        "branches; distinct by entry point and length"),
                  bounds={"lengths": "per entry point: 0, L-1, L, L+1 (SEC1 points: 0,1,32,33,64,65,66)",
                          "paths": "<= 64 per entry point (exhausted => inconclusive)",
                          "engine K contributions": knotes},
                  assumptions=["LLVM IR semantics / memory model of engines/llsym (bounds-checked objects)",
                               "Rust panics are calls to core::panicking::* / slice-index failure routines in the IR"],
                  outside=["signature verification functions and split_vartime (variable-time loops: engine K, C07-C11)",
                           "truncated verification (C13)", "lengths beyond the listed ones"],
                  machinery_error=merr)
