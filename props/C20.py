"""C20 Masked selection primitives select exactly as their control word says (engine L, BV)."""
import time
from engines.llsym.build import build, Driver
from engines.llsym import terms as T
from engines.llsym.smt import BVEmitter, run_solver, parse_model, bvc
from engines.llsym.llexec import ExecError
from vlib.common import Obligation, finish, log, NCPU
from vlib.par import pmap
from . import fields as F
from .fields import limbs_int, int_limbs
from .lhelp import sym_run, validate, rng, hexl, MachineryError, model_inputs

ALL1 = 0xFFFFFFFF

# (tag, rust type, number of u64 words, host file, has neg)
POINTS = [
    ("ed25519", "crate::ed25519::Point", 16, "src/ed25519.rs"),
    ("p256", "crate::p256::Point", 12, "src/p256.rs"),
    ("jq255e", "crate::jq255e::Point", 16, "src/jq255e.rs"),
    ("ed448", "crate::ed448::Point", 21, "src/ed448.rs"),
    ("secp256k1", "crate::secp256k1::Point", 12, "src/secp256k1.rs"),
    ("jq255s", "crate::jq255s::Point", 16, "src/jq255s.rs"),
    ("gls254", "crate::gls254::Point", 16, "src/gls254.rs"),
    ("ristretto255", "crate::ristretto255::Point", 16, "src/ristretto255.rs"),
    ("decaf448", "crate::decaf448::Point", 21, "src/decaf448.rs"),
]
QUICK_POINTS = ["ed25519", "p256", "jq255e", "gls254"]
BIN = [("gfb127", "crate::backend::GFb127", 2), ("gfb254", "crate::backend::GFb254", 4)]
QUICK_FIELDS = ["gf25519", "gfsecp256k1", "gf448", "gfp256", "sc25519", "sc448"]


def tm(ty, n, v):
    return "unsafe { transmute::<[u64; %d], %s>(*%s) }" % (n, ty, v)


def back(ty, n, e):
    return "unsafe { transmute::<%s, [u64; %d]>(%s) }" % (ty, n, e)


def sel_drivers(tag, ty, n, host="src/lib.rs", point=False):
    ds = []
    P = [("a", "in", 8, n), ("b", "in", 8, n), ("ctl", "val", 4, 1)]
    ds.append(Driver("drv_%s_setcond" % tag, P + [("out", "out", 8, n)],
                     "        let mut x: %s = %s; let y: %s = %s;\n        x.set_cond(&y, ctl);\n        *out = %s;"
                     % (ty, tm(ty, n, "a"), ty, tm(ty, n, "b"), back(ty, n, "x")), host))
    ds.append(Driver("drv_%s_select" % tag, P + [("out", "out", 8, n)],
                     "        let x: %s = %s; let y: %s = %s;\n        let r = <%s>::select(&x, &y, ctl);\n        *out = %s;"
                     % (ty, tm(ty, n, "a"), ty, tm(ty, n, "b"), ty, back(ty, n, "r")), host))
    if not point:
        ds.append(Driver("drv_%s_cswap" % tag, P + [("out", "out", 8, n), ("out2", "out", 8, n)],
                         "        let mut x: %s = %s; let mut y: %s = %s;\n        <%s>::cswap(&mut x, &mut y, ctl);\n        *out = %s; *out2 = %s;"
                         % (ty, tm(ty, n, "a"), ty, tm(ty, n, "b"), ty, back(ty, n, "x"), back(ty, n, "y")), host))
    else:
        ds.append(Driver("drv_%s_condneg" % tag, [("a", "in", 8, n), ("ctl", "val", 4, 1), ("out", "out", 8, n)],
                         "        let mut x: %s = %s;\n        x.set_condneg(ctl);\n        *out = %s;"
                         % (ty, tm(ty, n, "a"), back(ty, n, "x")), host))
        ds.append(Driver("drv_%s_neg" % tag, [("a", "in", 8, n), ("out", "out", 8, n)],
                         "        let x: %s = %s;\n        *out = %s;" % (ty, tm(ty, n, "a"), back(ty, n, "-x")), host))
        # value-level comparison used only to replay a bitwise difference
        # replay oracle on a VALID point (seed*B): the conditionally negated point must behave as -P
        # in equality, addition and doubling (a representation defect such as a stale T shows in the sum)
        sty = ty.rsplit("::", 1)[0] + "::Scalar"
        ds.append(Driver("drv_%s_condneg_eq" % tag, [("seed", "in", 8, 1), ("st", "out", 4, 1)],
                         "        let s = <%s>::from_u64(seed[0] | 1); let x = <%s>::mulgen(&s);\n"
                         "        let mut y = x; y.set_condneg(0xFFFFFFFFu32);\n"
                         "        let mut z = x; z.set_condneg(0u32);\n"
                         "        st[0] = y.equals(-x) & (y + x).isneutral() & (y + x + x).equals(x) & (y.double() + x.double()).isneutral()"
                         " & z.equals(x) & (z + x).equals(x.double());"
                         % (sty, ty), host))
    return ds


def zero_drivers(f):
    ty, n = f.rust, f.n
    return [
        Driver("drv_%s_iszero" % f.tag, [("a", "in", 8, n), ("st", "out", 4, 1)],
               "        let x: %s = %s;\n        st[0] = x.iszero();" % (ty, tm(ty, n, "a"))),
        Driver("drv_%s_equals" % f.tag, [("a", "in", 8, n), ("b", "in", 8, n), ("st", "out", 4, 1)],
               "        let x: %s = %s; let y: %s = %s;\n        st[0] = x.equals(y);"
               % (ty, tm(ty, n, "a"), ty, tm(ty, n, "b"))),
        Driver("drv_%s_subzero" % f.tag, [("a", "in", 8, n), ("b", "in", 8, n), ("st", "out", 4, 1)],
               "        let x: %s = %s; let y: %s = %s;\n        st[0] = (x - y).iszero();"
               % (ty, tm(ty, n, "a"), ty, tm(ty, n, "b"))),
    ]


def lookup_gf255_drivers():
    ds = []
    ty = "crate::backend::GF255::<19>"
    for k, cnt in ((3, 48), (4, 64)):
        ds.append(Driver("drv_gf25519_lookup16_x%d" % k,
                         [("tab", "in", 8, 4 * cnt), ("j", "val", 4, 1), ("out", "out", 8, 4 * k)],
                         "        let t: [%s; %d] = unsafe { transmute::<[u64; %d], [%s; %d]>(*tab) };\n"
                         "        let r = <%s>::lookup16_x%d(&t, j);\n"
                         "        *out = unsafe { transmute::<[%s; %d], [u64; %d]>(r) };"
                         % (ty, cnt, 4 * cnt, ty, cnt, ty, k, ty, k, 4 * k)))
    return ds


def point_lookup_drivers(tag, ty, n, host):
    """Point::lookup(win,k) for k symbolic, and a reference computed with branches for concrete k"""
    W = 16 * n
    ds = [
        Driver("drv_%s_lookup" % tag, [("win", "in", 8, W), ("k", "val", 1, 1), ("out", "out", 8, n)],
               "        let w: [%s; 16] = unsafe { transmute::<[u64; %d], [%s; 16]>(*win) };\n"
               "        let r = <%s>::lookup(&w, k as i8);\n        *out = %s;"
               % (ty, W, ty, ty, back(ty, n, "r")), host),
        Driver("drv_%s_lookup_ref" % tag, [("win", "in", 8, W), ("k", "val", 1, 1), ("out", "out", 8, n)],
               "        let w: [%s; 16] = unsafe { transmute::<[u64; %d], [%s; 16]>(*win) };\n"
               "        let kk = k as i8;\n"
               "        let r = if kk == 0 { <%s>::NEUTRAL } else if kk > 0 { w[(kk - 1) as usize] } else { -w[(-kk - 1) as usize] };\n"
               "        *out = %s;" % (ty, W, ty, ty, back(ty, n, "r")), host),
        Driver("drv_%s_lookup_eq" % tag, [("win", "in", 8, W), ("k", "val", 1, 1), ("st", "out", 4, 1)],
               "        let w: [%s; 16] = unsafe { transmute::<[u64; %d], [%s; 16]>(*win) };\n"
               "        let kk = k as i8;\n"
               "        let r = if kk == 0 { <%s>::NEUTRAL } else if kk > 0 { w[(kk - 1) as usize] } else { -w[(-kk - 1) as usize] };\n"
               "        st[0] = <%s>::lookup(&w, kk).equals(r);" % (ty, W, ty, ty, ty), host),
    ]
    return ds


def _bv_decide(ob, em, assumptions, diffs, built, drv, native_ok, timeout, key):
    t0 = time.time()
    if not diffs:
        return ob.ok("syntactic (terms identical after folding)", 0.0, 0, syntactic=True)
    goal = diffs[0] if len(diffs) == 1 else "(or %s)" % " ".join(diffs)
    v, mod, dt = run_solver(em.script(list(assumptions) + [goal]), "z3", timeout)
    if v == "unsat":
        return ob.ok("z3-bv", dt, 1)
    if v == "sat":
        inputs = model_inputs(parse_model(mod), built, drv)
        ok, detail = native_ok(inputs)
        if not ok:
            detail["key"] = key
            detail["found_by"] = "z3-bv model"
            return ob.fail(detail, "z3-bv", dt)
        return ob.unknown("bit-level difference does not show at the value level natively", "z3-bv", dt)
    return ob.unknown("solver: " + v, "z3-bv", dt)


def check_select(built, tag, ty, n, what, timeout):
    """set_cond / select / cswap / condneg with ctl in {0, all-ones}"""
    drv = "drv_%s_%s" % (tag, what)
    name = CFG[0] + ":%s.%s" % (tag, what)
    ob = Obligation(name, "L", ["%s::%s" % (ty, {"setcond": "set_cond", "condneg": "set_condneg"}.get(what, what))],
                    "all operand bit patterns; ctl in {0x00000000, 0xFFFFFFFF}",
                    "ctl=0 leaves operands bit-identical; ctl=all-ones performs the full copy/swap/negation")
    try:
        ex, ins, outs = sym_run(built, drv)
    except ExecError as e:
        return [ob.unknown("executor: %s" % e)]
    r = rng("sel", tag, what)

    def smp(it):
        d = {"a": [r.getrandbits(64) for _ in range(n)], "ctl": r.choice([0, ALL1])}
        if "b" in ins:
            d["b"] = [r.getrandbits(64) for _ in range(n)]
        return d
    validate(built, drv, outs, smp, 8)
    em = BVEmitter()
    ctl = em.ref(ins["ctl"], 32)
    assume = ["(or (= %s %s) (= %s %s))" % (ctl, bvc(0, 32), ctl, bvc(ALL1, 32))]
    diffs = []
    a = ins["a"]
    if what in ("setcond", "select"):
        b = ins["b"]
        for i in range(n):
            exp = "(ite (= %s %s) %s %s)" % (ctl, bvc(0, 32), em.ref(a[i], 64), em.ref(b[i], 64))
            diffs.append("(distinct %s %s)" % (em.ref(outs["out"][i], 64), exp))
    elif what == "cswap":
        b = ins["b"]
        for i in range(n):
            e1 = "(ite (= %s %s) %s %s)" % (ctl, bvc(0, 32), em.ref(a[i], 64), em.ref(b[i], 64))
            e2 = "(ite (= %s %s) %s %s)" % (ctl, bvc(0, 32), em.ref(b[i], 64), em.ref(a[i], 64))
            diffs.append("(distinct %s %s)" % (em.ref(outs["out"][i], 64), e1))
            diffs.append("(distinct %s %s)" % (em.ref(outs["out2"][i], 64), e2))
    else:  # condneg: compare with the library's own negation (real code, same run)
        ex2, ins2, outs2 = sym_run(built, "drv_%s_neg" % tag)
        for i in range(n):
            exp = "(ite (= %s %s) %s %s)" % (ctl, bvc(0, 32), em.ref(a[i], 64), em.ref(outs2["out"][i], 64))
            diffs.append("(distinct %s %s)" % (em.ref(outs["out"][i], 64), exp))

    def native_ok(inputs):
        nat = built.native(drv, inputs)
        c = inputs["ctl"]
        det = {"inputs": {k: hexl(v) for k, v in inputs.items()}, "native": {k: hexl(v) for k, v in nat.items()}}
        if c not in (0, ALL1):
            return True, det
        if what in ("setcond", "select"):
            return nat["out"] == (inputs["a"] if c == 0 else inputs["b"]), det
        if what == "cswap":
            return (nat["out"], nat["out2"]) == ((inputs["a"], inputs["b"]) if c == 0 else (inputs["b"], inputs["a"])), det
        if c == 0:
            return nat["out"] == inputs["a"], det
        for seed in (1, 2, 3, 0x1234567, 0xFFFFFFFFFFFFFFFF, 0x8000000000000001):
            st = built.native("drv_%s_condneg_eq" % tag, {"seed": [seed]})["st"][0]
            if st != ALL1:
                det["replay"] = "set_condneg(0xFFFFFFFF) on P=%d*B does not behave as -P (equals/add/double oracle)" % (seed | 1)
                return False, det
        return True, det
    return [_bv_decide(ob, em, assume, diffs, built, drv, native_ok, timeout, "%s.%s" % (tag, what))]


def multiples_below(f):
    lim = 1 << (64 * f.n)
    return [k * f.q for k in range(0, 8) if k * f.q < lim]


def check_zero(built, f, timeout):
    obs = []
    n = f.n
    r = rng("zero", f.tag)
    from .fieldops import boundary_values
    vals = boundary_values(f, r)
    # iszero
    drv = "drv_%s_iszero" % f.tag
    ob = Obligation(CFG[0] + ":%s.iszero" % f.tag, "L", [f.rust + "::iszero"],
                    "all %d-bit limb patterns%s" % (64 * n, "" if f.kind == "raw" else " below the modulus"),
                    "returns 0xFFFFFFFF iff the value is 0 mod q (every representation), else exactly 0")
    obs.append(ob)
    try:
        ex, ins, outs = sym_run(built, drv)
        validate(built, drv, outs, lambda it: {"a": int_limbs(vals[it % len(vals)], n)}, 24)
        em = BVEmitter()
        W = 64 * n
        A = em.ref(ins["a"][0], 64)
        for i in range(1, n):
            A = "(concat %s %s)" % (em.ref(ins["a"][i], 64), A)
        S = em.ref(outs["st"][0], 32)
        zs = multiples_below(f) if f.kind == "raw" else [0]
        isz = "(or %s)" % " ".join("(= %s %s)" % (A, bvc(z, W)) for z in zs)
        assume = [] if f.kind == "raw" else ["(bvult %s %s)" % (A, bvc(f.q, W))]
        goal = "(distinct %s (ite %s %s %s))" % (S, isz, bvc(ALL1, 32), bvc(0, 32))

        def native_ok(inputs):
            st = built.native(drv, inputs)["st"][0]
            Av = limbs_int(inputs["a"])
            if not f.valid(Av):
                return True, {}
            exp = ALL1 if f.val(Av) == 0 else 0
            return st == exp, {"inputs": {"a": hexl(inputs["a"])}, "status": hex(st), "expected": hex(exp)}
        _bv_decide(ob, em, assume, [goal], built, drv, native_ok, timeout, "%s.iszero" % f.tag)
    except ExecError as e:
        ob.unknown("executor: %s" % e)
    # equals == iszero(a - b) on the real code (value of a-b: C01)
    ob2 = Obligation(CFG[0] + ":%s.equals" % f.tag, "L", [f.rust + "::equals"],
                     ob.bounds, "equals(a,b) is bit-identical to iszero(a-b) (subtraction value: C01; zero test: above)")
    obs.append(ob2)
    try:
        ex1, ins1, o1 = sym_run(built, "drv_%s_equals" % f.tag)
        ex2, ins2, o2 = sym_run(built, "drv_%s_subzero" % f.tag)
        validate(built, "drv_%s_equals" % f.tag, o1,
                 lambda it: {"a": int_limbs(vals[it % len(vals)], n), "b": int_limbs(vals[(it * 7 + 3) % len(vals)], n)}, 24)
        em = BVEmitter()
        x, y = o1["st"][0], o2["st"][0]
        diffs = [] if x is y else ["(distinct %s %s)" % (em.ref(x, 32), em.ref(y, 32))]
        W = 64 * n
        assume = []
        if f.kind != "raw":
            for nm in ("a", "b"):
                A = em.ref(ins1[nm][0], 64)
                for i in range(1, n):
                    A = "(concat %s %s)" % (em.ref(ins1[nm][i], 64), A)
                assume.append("(bvult %s %s)" % (A, bvc(f.q, W)))

        def native_ok2(inputs):
            st = built.native("drv_%s_equals" % f.tag, inputs)["st"][0]
            Av, Bv = limbs_int(inputs["a"]), limbs_int(inputs["b"])
            if not (f.valid(Av) and f.valid(Bv)):
                return True, {}
            exp = ALL1 if f.val(Av) == f.val(Bv) else 0
            return st == exp, {"inputs": {k: hexl(v) for k, v in inputs.items()}, "status": hex(st),
                               "expected": hex(exp)}
        _bv_decide(ob2, em, assume, diffs, built, "drv_%s_equals" % f.tag, native_ok2, timeout,
                   "%s.equals" % f.tag)
    except ExecError as e:
        ob2.unknown("executor: %s" % e)
    return obs


def check_lookup_x(built, k, timeout):
    """GF255::lookup16_x3/x4: symbolic table and index (all 2^32 values)"""
    drv = "drv_gf25519_lookup16_x%d" % k
    ob = Obligation("default:gf25519.lookup16_x%d" % k, "L", ["GF255::lookup16_x%d" % k],
                    "arbitrary table, all 2^32 index values",
                    "in-range index returns exactly those entries; out-of-range returns all-zero entries")
    try:
        ex, ins, outs = sym_run(built, drv)
    except ExecError as e:
        return [ob.unknown("executor: %s" % e)]
    r = rng("lk", k)
    cnt = 16 * k

    def smp(it):
        return {"tab": [r.getrandbits(64) for _ in range(4 * cnt)],
                "j": r.choice([0, 1, 15, 16, 17, 255, 0x7FFFFFFF, 0x80000000, ALL1, r.getrandbits(32), r.randrange(16)])}
    validate(built, drv, outs, smp, 24)
    em = BVEmitter()
    j = em.ref(ins["j"], 32)
    diffs = []
    for o in range(4 * k):
        exp = bvc(0, 64)
        for idx in range(15, -1, -1):
            exp = "(ite (= %s %s) %s %s)" % (j, bvc(idx, 32), em.ref(ins["tab"][idx * 4 * k + o], 64), exp)
        diffs.append("(distinct %s %s)" % (em.ref(outs["out"][o], 64), exp))

    def native_ok(inputs):
        nat = built.native(drv, inputs)["out"]
        jv = inputs["j"]
        exp = inputs["tab"][jv * 4 * k:(jv + 1) * 4 * k] if jv < 16 else [0] * (4 * k)
        return nat == exp, {"j": hex(jv), "native": hexl(nat), "expected": hexl(exp)}
    return [_bv_decide(ob, em, [], diffs, built, drv, native_ok, timeout, "gf25519.lookup16_x%d" % k)]


def lookup_gfb254_drivers():
    ds = []
    ty = "crate::backend::GFb254"
    for m in (4, 8, 16):
        ds.append(Driver("drv_gfb254_lookup%d_x2" % m, [("tab", "in", 8, 8 * m), ("j", "val", 4, 1), ("out", "out", 8, 8)],
                         "        let t: [%s; %d] = unsafe { transmute::<[u64; %d], [%s; %d]>(*tab) };\n"
                         "        let r = <%s>::lookup%d_x2(&t, j);\n"
                         "        *out = unsafe { transmute::<[%s; 2], [u64; 8]>(r) };" % (ty, 2 * m, 8 * m, ty, 2 * m, ty, m, ty)))
    return ds


def check_lookup_b(built, m, timeout):
    """GFb254::lookup{4,8,16}_x2: symbolic table and index (all 2^32 values)"""
    drv = "drv_gfb254_lookup%d_x2" % m
    ob = Obligation(CFG[0] + ":gfb254.lookup%d_x2" % m, "L", ["GFb254::lookup%d_x2" % m],
                    "arbitrary table, all 2^32 index values",
                    "index j < %d returns entries 2j and 2j+1; any other index returns two zero elements" % m)
    try:
        ex, ins, outs = sym_run(built, drv)
    except ExecError as e:
        return [ob.unknown("executor: %s" % e)]
    r = rng("lkb", m)

    def smp(it):
        return {"tab": [r.getrandbits(64) for _ in range(8 * m)],
                "j": r.choice([0, 1, m - 1, m, m + 1, 16, 255, 0x10007, 0x7FFFFFFF, 0x80000000, 0xFFFFFFF0, ALL1, r.getrandbits(32), r.randrange(m)])}
    validate(built, drv, outs, smp, 24)
    em = BVEmitter()
    j = em.ref(ins["j"], 32)
    diffs = []
    for o in range(8):
        exp = bvc(0, 64)
        for idx in range(m - 1, -1, -1):
            exp = "(ite (= %s %s) %s %s)" % (j, bvc(idx, 32), em.ref(ins["tab"][idx * 8 + o], 64), exp)
        diffs.append("(distinct %s %s)" % (em.ref(outs["out"][o], 64) if isinstance(outs["out"][o], T.Term) else bvc(outs["out"][o], 64), exp))

    def native_ok(inputs):
        nat = built.native(drv, inputs)["out"]
        jv = inputs["j"]
        exp = inputs["tab"][jv * 8:(jv + 1) * 8] if jv < m else [0] * 8
        return nat == exp, {"j": hex(jv), "native": hexl(nat), "expected": hexl(exp)}
    return [_bv_decide(ob, em, [], diffs, built, drv, native_ok, timeout, "gfb254.lookup%d_x2" % m)]


def check_point_lookup(built, tag, ty, n, timeout):
    """Point::lookup(win,k): for each k in -16..=16 the result is bit-identical to
    the entry / the library's negation of the entry / the neutral"""
    obs = []
    drv = "drv_%s_lookup" % tag
    try:
        ex, ins, outs = sym_run(built, drv)
    except ExecError as e:
        return [Obligation(CFG[0] + ":%s.lookup" % tag, "L").unknown("executor: %s" % e)]
    r = rng("plk", tag)
    W = 16 * n
    win_terms = ins["win"]
    for kk in range(-16, 17):
        ob = Obligation(CFG[0] + ":%s.lookup[k=%d]" % (tag, kk), "L", ["%s::lookup" % ty],
                        "arbitrary window (all bit patterns); index fixed by assumption",
                        "returns win[k-1], -win[-k-1] or the neutral")
        obs.append(ob)
        kb = kk & 0xFF
        try:
            ex2, ins2, outs2 = sym_run(built, "drv_%s_lookup_ref" % tag, concrete={"win": win_terms, "k": kb})
        except ExecError as e:
            ob.unknown("executor(ref): %s" % e)
            continue
        em = BVEmitter()
        kref = em.ref(ins["k"], 8)
        assume = ["(= %s %s)" % (kref, bvc(kb, 8))]
        diffs = []
        for i in range(n):
            x, y = outs["out"][i], outs2["out"][i]
            diffs.append("(distinct %s %s)" % (em.ref(x, 64), em.ref(y, 64)))

        def native_ok(inputs, kb=kb):
            inputs = dict(inputs)
            inputs["k"] = kb
            st = built.native("drv_%s_lookup_eq" % tag, {"win": inputs["win"], "k": kb})["st"][0]
            return st == ALL1, {"k": kk, "win": hexl(inputs["win"])[:8], "equals_status": hex(st)}
        _bv_decide(ob, em, assume, diffs, built, drv, native_ok, timeout, "%s.lookup" % tag)
    return obs


CFG = ["default"]


def run_config(tier, cfg="default", features=None, rustflags="", only=None, fields_override=None):
    CFG[0] = cfg
    t0 = time.time()
    fields = [f for f in F.FIELDS if tier == "thorough" or f.tag in QUICK_FIELDS]
    points = [p for p in POINTS if tier == "thorough" or p[0] in QUICK_POINTS]
    if only:
        fields = [f for f in F.FIELDS if f.tag in only]
        points = [p for p in POINTS if p[0] in only]
    ds, items = [], []
    for f in fields:
        ds += sel_drivers(f.tag, f.rust, f.n) + zero_drivers(f)
        for w in ("setcond", "select", "cswap"):
            items.append(("sel", f.tag, f.rust, f.n, w))
        items.append(("zero", f))
    for tag, ty, n in BIN:
        if only and tag not in only:
            continue
        ds += sel_drivers(tag, ty, n)
        for w in ("setcond", "select", "cswap"):
            items.append(("sel", tag, ty, n, w))
    for tag, ty, n, host in points:
        ds += sel_drivers(tag, ty, n, host, point=True)
        for w in ("setcond", "select", "condneg"):
            items.append(("sel", tag, ty, n, w))
    if not only or "lookup" in only:
        ds += lookup_gf255_drivers()
        items += [("lkx", 3), ("lkx", 4)]
        if cfg == "default":
            ds += lookup_gfb254_drivers()
            items += [("lkb", 4), ("lkb", 8), ("lkb", 16)]
        lk_points = [p for p in POINTS if p[0] in (("ed25519", "p256") if tier == "quick" else
                                                   ("ed25519", "p256", "ed448", "secp256k1", "jq255s"))]
        for tag, ty, n, host in lk_points:
            ds += point_lookup_drivers(tag, ty, n, host)
            items.append(("plk", tag, ty, n))
    built = build(ds, tag="C20-" + cfg, features=features, rustflags=rustflags)
    timeout = 120 if tier == "quick" else 900

    def work(it):
        if it[0] == "sel":
            return check_select(built, it[1], it[2], it[3], it[4], timeout)
        if it[0] == "zero":
            return check_zero(built, it[1], timeout)
        if it[0] == "lkx":
            return check_lookup_x(built, it[1], timeout)
        if it[0] == "lkb":
            return check_lookup_b(built, it[1], timeout)
        return check_point_lookup(built, it[1], it[2], it[3], timeout)
    res = pmap(work, items, nproc=NCPU, timeout=timeout * 8)
    obs, merr = [], None
    for it, (st, val) in zip(items, res):
        if st == "ok":
            obs.extend(val)
        else:
            o = Obligation(CFG[0] + ":%s" % "/".join(str(x) for x in it[:2] if isinstance(x, (str, int))), "L")
            o.unknown("%s: %s" % (st, str(val)[-400:]))
            obs.append(o)
            if "MachineryError" in str(val):
                merr = str(val)[-600:]
    built.close()
    return obs, merr, locals()


def run(tier, only=None):
    t0 = time.time()
    obs, merr, L = run_config(tier, only=only)
    reds = L.get('reds'); skipped = L.get('skipped', [])
    return finish("C20", tier, obs, t0,
                  functions_encoded=sorted(set(fn for o in obs for fn in o.functions)),
                  bounds={"control words": "exactly 0x00000000 and 0xFFFFFFFF (documented domain)",
                          "operands": "all bit patterns", "lookup indices": "lookup16_x3/x4: all 2^32; Point::lookup: k in -16..=16",
                          "configuration": "default features, x86_64 without avx2, opt-level 3"},
                  assumptions=["LLVM IR semantics as implemented in engines/llsym (validated natively each run)",
                               "conditional negation is compared bit-for-bit with the library's own unary minus (C03 decides that minus is the group negation); a bitwise difference is replayed at the value level before it is reported",
                               "equals(a,b) is reduced to iszero(a-b) on the real code"],
                  outside=["AVX2 lookup paths (need -C target-feature=+avx2: C18)", "GFb254 lookup4_x2_nocheck (documented as unchecked)", "point equals/isneutral (C06)",
                           "control words other than 0 / 0xFFFFFFFF (undocumented)"],
                  machinery_error=merr)
