"""Independent Python reference of ECDSA verification over P-256 / secp256k1
exactly as property C08 states it.  Used only to confirm counterexample
candidates natively."""
CURVES = {
    "p256": dict(p=2**256 - 2**224 + 2**192 + 2**96 - 1, a=-3,
                 b=0x5AC635D8AA3A93E7B3EBBD55769886BC651D06B0CC53B0F63BCE3C3E27D2604B,
                 n=0xFFFFFFFF00000000FFFFFFFFFFFFFFFFBCE6FAADA7179E84F3B9CAC2FC632551,
                 gx=0x6B17D1F2E12C4247F8BCE6E563A440F277037D812DEB33A0F4A13945D898C296,
                 gy=0x4FE342E2FE1A7F9B8EE7EB4A7C0F9E162BCE33576B315ECECBB6406837BF51F5),
    "secp256k1": dict(p=2**256 - 2**32 - 977, a=0, b=7,
                      n=0xFFFFFFFFFFFFFFFFFFFFFFFFFFFFFFFEBAAEDCE6AF48A03BBFD25E8CD0364141,
                      gx=0x79BE667EF9DCBBAC55A06295CE870B07029BFCDB2DCE28D959F2815B16F81798,
                      gy=0x483ADA7726A3C4655DA4FBFC0E1108A8FD17B448A68554199C47D08FFB10D4B8),
}


def add(c, P, Q):
    p = c["p"]
    if P is None:
        return Q
    if Q is None:
        return P
    if P[0] == Q[0]:
        if (P[1] + Q[1]) % p == 0:
            return None
        l = (3 * P[0] * P[0] + c["a"]) * pow(2 * P[1], -1, p) % p
    else:
        l = (Q[1] - P[1]) * pow(Q[0] - P[0], -1, p) % p
    x = (l * l - P[0] - Q[0]) % p
    return (x, (l * (P[0] - x) - P[1]) % p)


def mul(c, k, P):
    R = None
    while k:
        if k & 1:
            R = add(c, R, P)
        P = add(c, P, P)
        k >>= 1
    return R


def decode_point(c, b):
    p = c["p"]
    b = bytes(b)
    if len(b) == 1 and b[0] == 0:
        return "inf"
    if len(b) == 65 and b[0] == 4:
        x, y = int.from_bytes(b[1:33], "big"), int.from_bytes(b[33:], "big")
        if x >= p or y >= p or (y * y - (x * x * x + c["a"] * x + c["b"])) % p:
            return None
        return (x, y)
    if len(b) == 33 and b[0] in (2, 3):
        x = int.from_bytes(b[1:], "big")
        if x >= p:
            return None
        rhs = (x * x * x + c["a"] * x + c["b"]) % p
        y = pow(rhs, (p + 1) // 4, p)
        if y * y % p != rhs:
            return None
        if (y & 1) != (b[0] & 1):
            y = p - y
        return (x, y)
    return None


def verify(curve, pk, sig, hv):
    c = CURVES[curve]
    n = c["n"]
    Q = decode_point(c, pk)
    if Q is None:
        return 2
    sig = bytes(sig)
    if len(sig) & 1:
        return 0
    rl = len(sig) // 2
    r, s = int.from_bytes(sig[:rl], "big"), int.from_bytes(sig[rl:], "big")
    if not (1 <= r < n and 1 <= s < n):
        return 0
    hv = bytes(hv)
    h = int.from_bytes(hv[:32], "big") % n
    w = pow(s, -1, n)
    G = (c["gx"], c["gy"])
    Qp = None if Q == "inf" else Q
    R = add(c, mul(c, h * w % n, G), mul(c, r * w % n, Qp) if Qp else None)
    if R is None:
        return 0
    return 1 if R[0] % n == r else 0


def sign(curve, d, hv, k):
    c = CURVES[curve]
    n = c["n"]
    G = (c["gx"], c["gy"])
    R = mul(c, k, G)
    r = R[0] % n
    h = int.from_bytes(bytes(hv)[:32], "big") % n
    s = pow(k, -1, n) * (h + d * r) % n
    return r, s


def adversarial_case(r_, curve, pklen, siglen, hvlen, it):
    c = CURVES[curve]
    n = c["n"]
    G = (c["gx"], c["gy"])
    d = r_.randrange(1, n)
    Q = mul(c, d, G)
    hv = bytes(r_.getrandbits(8) for _ in range(hvlen))
    k = r_.randrange(1, n)
    r, s = sign(curve, d, hv, k)
    kind = it % 10
    if kind == 9 and hvlen >= 32:
        # valid signature whose R has x >= n (x mod n != x): Q := u^-1 (R - vG) for chosen u, v
        p_ = c["p"]
        t = r_.randrange(1, 1 << 20)
        while True:
            x = n + t
            rhs = (x * x * x + c["a"] * x + c["b"]) % p_
            y = pow(rhs, (p_ + 1) // 4, p_)
            if x < p_ and y * y % p_ == rhs:
                break
            t += 1
        Rp = (x, y)
        u = r_.randrange(1, n)
        v = r_.randrange(1, n)
        vG = mul(c, v, G)
        Q = mul(c, pow(u, -1, n), add(c, Rp, (vG[0], (-vG[1]) % p_)))
        r = x % n
        s = r * pow(u, -1, n) % n
        hh = v * s % n
        hv = hh.to_bytes(32, "big") + bytes(r_.getrandbits(8) for _ in range(hvlen - 32))
    if kind == 1:
        s = n - s            # still valid (malleability) -- stays accepted
    elif kind == 2:
        r = (r + 1) % n
    elif kind == 3:
        s = 0
    elif kind == 4:
        r = r + n if r + n < 2**256 else r
    elif kind == 5:
        hv = bytes((hv[0] ^ 1,)) + hv[1:] if hvlen else hv
    elif kind == 6:
        r = 0
    rl = siglen // 2
    if siglen & 1:
        sig = bytes(r_.getrandbits(8) for _ in range(siglen))
    else:
        if kind == 7 and rl > 32:
            rb = (b"\x01" + bytes(rl - 33)) + r.to_bytes(32, "big")   # nonzero surplus byte in r
        else:
            rb = (r % (1 << (8 * rl))).to_bytes(rl, "big") if rl else b""
        if kind == 8 and rl > 32:
            sb = (b"\x80" + bytes(rl - 33)) + s.to_bytes(32, "big")   # nonzero surplus byte in s
        else:
            sb = (s % (1 << (8 * rl))).to_bytes(rl, "big") if rl else b""
        sig = rb[-rl:] + sb if rl else b""
    if pklen == 65:
        pk = b"\x04" + Q[0].to_bytes(32, "big") + Q[1].to_bytes(32, "big")
    elif pklen == 33:
        pk = bytes([2 + (Q[1] & 1)]) + Q[0].to_bytes(32, "big")
    else:
        pk = bytes(pklen)
    return {"pk": list(pk), "sig": list(sig), "hv": list(hv)}


def expected(inp, curve):
    return verify(curve, inp["pk"], inp["sig"], inp["hv"])


# ---------------------------------------------------------------------------
# signing side (C08_sign): deterministic nonces exactly as the library documents them

def _bits2int_mod(curve, hv):
    """h = big-endian first 32 bytes of hv (shorter values are left-padded, i.e. taken as they are) mod n"""
    return int.from_bytes(bytes(hv)[:32], "big") % CURVES[curve]["n"]


def rfc6979_nonces(n, x, h, extra=b""):
    """RFC 6979 section 3.2 with HMAC-SHA-256 for a 256-bit order n; x = private key, h = bits2int(hash) mod n
    (so that bits2octets = int2octets(h)); `extra` is the additional input k' of section 3.6 (appended in
    steps d and f).  Yields the successive candidates T (as integers, *not* range-checked)."""
    import hmac, hashlib

    def mac(k, m):
        return hmac.new(k, m, hashlib.sha256).digest()
    xb, hb = x.to_bytes(32, "big"), h.to_bytes(32, "big")
    V, K = b"\x01" * 32, b"\x00" * 32
    K = mac(K, V + b"\x00" + xb + hb + bytes(extra))
    V = mac(K, V)
    K = mac(K, V + b"\x01" + xb + hb + bytes(extra))
    V = mac(K, V)
    while True:
        V = mac(K, V)
        yield int.from_bytes(V, "big")
        K = mac(K, V + b"\x00")
        V = mac(K, V)


def secp256k1_nonce(x, h, extra=b""):
    """crrl's documented secp256k1 rule: SHA-512(LE32(x) || LE32(h) || extra) as a little-endian integer mod n, 0 -> 1"""
    import hashlib
    n = CURVES["secp256k1"]["n"]
    k = int.from_bytes(hashlib.sha512(x.to_bytes(32, "little") + h.to_bytes(32, "little") + bytes(extra)).digest(), "little") % n
    return k or 1


def _try_sign(curve, x, h, k):
    c = CURVES[curve]
    n = c["n"]
    R = mul(c, k, (c["gx"], c["gy"]))
    r = R[0] % n
    s = pow(k, -1, n) * (h + x * r) % n
    return r, s


def sign_hash(curve, x, hv, extra=b""):
    """the 64-byte signature be(r) || be(s) that `PrivateKey::sign_hash(hv, extra)` must return for the key x (1 <= x < n)"""
    n = CURVES[curve]["n"]
    h = _bits2int_mod(curve, hv)
    if curve == "p256":
        for k in rfc6979_nonces(n, x, h, extra):
            if not 1 <= k < n:
                continue
            r, s = _try_sign(curve, x, h, k)
            if r and s:
                break
    else:
        k = secp256k1_nonce(x, h, extra)
        while True:
            r, s = _try_sign(curve, x, h, k)
            if r and s:
                break
            k = (k + 1) % n or 1
    return r.to_bytes(32, "big") + s.to_bytes(32, "big")


def sign_cases(r_, curve, hvlen, erlen, count=14):
    """(x, hv, extra) triples stressing bits2octets: hashes whose first 32 bytes are >= n (FF..FF, n, n+1), n-1, 0, random"""
    n = CURVES[curve]["n"]
    heads = [b"\xff" * 32, n.to_bytes(32, "big"), (n + 1).to_bytes(32, "big"), (n - 1).to_bytes(32, "big"), bytes(32),
             (2**256 - 2).to_bytes(32, "big")]
    out = []
    for it in range(count):
        x = r_.randrange(1, n) if it % 5 else (1 if it == 0 else n - 1)
        hv = bytes(r_.getrandbits(8) for _ in range(hvlen))
        if it < len(heads):
            hv = (heads[it] + hv[32:]) if hvlen >= 32 else heads[it][:hvlen]
        out.append((x, hv, bytes(r_.getrandbits(8) for _ in range(erlen))))
    return out


def mont_limbs(curve, x):
    """the library's in-memory scalar (Montgomery representation, four 64-bit limbs)"""
    v = (x << 256) % CURVES[curve]["n"]
    return [(v >> (64 * i)) & 0xFFFFFFFFFFFFFFFF for i in range(4)]
