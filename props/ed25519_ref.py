"""Independent Python reference of strict, cofactored RFC 8032 Ed25519
verification (and signing, to build test cases).  Used only to confirm or
refute counterexample candidates natively; never the deciding step."""
import hashlib

p = 2**255 - 19
L = 2**252 + 27742317777372353535851937790883648493
d = (-121665 * pow(121666, -1, p)) % p
I = pow(2, (p - 1) // 4, p)
DOM2 = b"SigEd25519 no Ed25519 collisions"


def inv(x):
    return pow(x, p - 2, p)


def recover_x(y, sign):
    if y >= p:
        return None
    x2 = (y * y - 1) * inv(d * y * y + 1) % p
    if x2 == 0:
        return None if sign else 0
    x = pow(x2, (p + 3) // 8, p)
    if (x * x - x2) % p != 0:
        x = x * I % p
    if (x * x - x2) % p != 0:
        return None
    if (x & 1) != sign:
        x = p - x
    return x


By = 4 * inv(5) % p
Bx = recover_x(By, 0)
B = (Bx, By, 1, Bx * By % p)
O = (0, 1, 1, 0)


def add(P, Q):
    A = (P[1] - P[0]) * (Q[1] - Q[0]) % p
    Bb = (P[1] + P[0]) * (Q[1] + Q[0]) % p
    C = 2 * P[3] * Q[3] * d % p
    D = 2 * P[2] * Q[2] % p
    E, Fv, G, H = Bb - A, D - C, D + C, Bb + A
    return (E * Fv % p, G * H % p, Fv * G % p, E * H % p)


def mul(s, P):
    Q = O
    while s > 0:
        if s & 1:
            Q = add(Q, P)
        P = add(P, P)
        s >>= 1
    return Q


def neg(P):
    return ((-P[0]) % p, P[1], P[2], (-P[3]) % p)


def is_neutral(P):
    return P[0] % p == 0 and (P[1] - P[2]) % p == 0


def enc(P):
    zi = inv(P[2])
    x, y = P[0] * zi % p, P[1] * zi % p
    return int.to_bytes(y | ((x & 1) << 255), 32, "little")


def dec(b):
    if len(b) != 32:
        return None
    y = int.from_bytes(b, "little")
    sign = y >> 255
    y &= (1 << 255) - 1
    x = recover_x(y, sign)
    if x is None:
        return None
    return (x, y, 1, x * y % p)


def dom(variant, ctx):
    if variant == "raw":
        return b""
    return DOM2 + bytes([1 if variant == "ph" else 0, len(ctx)]) + bytes(ctx)


def verify(pk, sig, msg, variant="raw", ctx=b""):
    A = dec(bytes(pk))
    if A is None:
        return 2
    sig = bytes(sig)
    if len(sig) != 64:
        return 0
    R = dec(sig[:32])
    if R is None:
        return 0
    S = int.from_bytes(sig[32:], "little")
    if S >= L:
        return 0
    k = int.from_bytes(hashlib.sha512(dom(variant, ctx) + sig[:32] + bytes(pk) + bytes(msg)).digest(), "little") % L
    T = add(add(mul(S, B), neg(R)), neg(mul(k, A)))
    return 1 if is_neutral(mul(8, T)) else 0


def sign(seed, msg, variant="raw", ctx=b""):
    h = hashlib.sha512(seed).digest()
    a = int.from_bytes(h[:32], "little")
    a &= (1 << 254) - 8
    a |= 1 << 254
    A = enc(mul(a, B))
    r = int.from_bytes(hashlib.sha512(dom(variant, ctx) + h[32:] + bytes(msg)).digest(), "little") % L
    R = enc(mul(r, B))
    k = int.from_bytes(hashlib.sha512(dom(variant, ctx) + R + A + bytes(msg)).digest(), "little") % L
    S = (r + k * a) % L
    return A, R + int.to_bytes(S, 32, "little")


LOW_ORDER = [bytes(31 * [0] + [0]), bytes([1] + 31 * [0]), bytes([0xEC] + 30 * [0xFF] + [0x7F]),
             bytes.fromhex("26e8958fc2b227b045c3f489f2ef98f0d5dfac05d3c63339b13802886d53fc05"),
             bytes.fromhex("c7176a703d4dd84fba3c0b760d10670f2a2053fa2c39ccc64ec7fd7792ac037a")]


def adversarial_case(r, variant, siglen, ctxlen, msglen, it):
    msg = bytes(r.getrandbits(8) for _ in range(msglen))
    ctx = bytes(r.getrandbits(8) for _ in range(ctxlen))
    seed = bytes(r.getrandbits(8) for _ in range(32))
    A, sig = sign(seed, msg, variant, ctx)
    kind = it % 10
    sig = bytearray(sig)
    if kind == 1:      # S + L (non-canonical scalar)
        S = int.from_bytes(sig[32:], "little") + L
        if S < 2**256:
            sig[32:] = S.to_bytes(32, "little")
    elif kind == 2:    # flip a bit of S
        sig[32 + r.randrange(32)] ^= 1 << r.randrange(8)
    elif kind == 3:    # flip a bit of R
        sig[r.randrange(32)] ^= 1 << r.randrange(8)
    elif kind == 4:    # non-canonical R (y + p) when it fits
        y = int.from_bytes(sig[:32], "little")
        yy = (y & ((1 << 255) - 1))
        if yy + p < 2**255:
            sig[:32] = ((yy + p) | (y >> 255 << 255)).to_bytes(32, "little")
    elif kind == 5:    # wrong message
        msg = bytes((msg[0] ^ 1,)) + msg[1:] if msglen else msg
    elif kind == 6:    # low-order public key
        A = LOW_ORDER[r.randrange(len(LOW_ORDER))]
    elif kind == 7:    # low-order R with S = 0
        sig[:32] = LOW_ORDER[r.randrange(len(LOW_ORDER))]
        sig[32:] = bytes(32)
    elif kind == 8:    # random garbage
        sig = bytearray(r.getrandbits(8) for _ in range(64))
    elif kind == 9:    # torsion-shifted R: add an order-8 point to R and keep S (cofactored verifier accepts)
        Rp = dec(bytes(sig[:32]))
        Tt = dec(LOW_ORDER[4])
        if Rp and Tt:
            sig[:32] = enc(add(Rp, Tt))
    sig = bytes(sig)
    if siglen < 64:
        sig = sig[:siglen]
    elif siglen > 64:
        sig = sig + bytes(siglen - 64)
    return {"pk": list(A), "sig": list(sig), "ctx": list(ctx), "msg": list(msg)}


def expected(inp, variant):
    return verify(bytes(inp["pk"]), bytes(inp["sig"]), bytes(inp["msg"]), variant, bytes(inp.get("ctx", [])))
