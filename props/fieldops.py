"""Obligations for one field operation on the real optimized IR (engine L):
   val(op(a,b)) == spec(val(a), val(b))   for all admissible raw limbs,
   and the result is again an admissible representation.
Shared by C01 (default backend) and C18 (other backends)."""
import random, time, zlib
from engines.llsym import terms as T
from engines.llsym.llexec import Executor, ExecError
from engines.llsym.intenc import IntEnc, Lin
from engines.llsym import prove as PR
from engines.llsym.smt import run_solver, parse_model
from vlib.common import Obligation, SEED, log
from .fields import OPSPEC, limbs_int, int_limbs


class MachineryError(Exception):
    pass


def boundary_values(f, rnd):
    q, n = f.q, f.n
    W = 1 << (64 * n)
    vals = [0, 1, 2, q - 1, q - 2, q, q + 1, 2 * q - 1, 2 * q, 2 * q + 1, W - 1, W - 2, W // 2,
            W // 2 - 1, (1 << 64) - 1, 1 << 64, W - (1 << 64), 3 * q, 4 * q - 1,
            (1 << 255) - 1, 1 << 255]
    vals = [v % W for v in vals if v >= 0]
    for _ in range(8):
        vals.append(rnd.getrandbits(64 * n))
    for _ in range(6):
        # limbs drawn from {0, all-ones, random}
        ws = [rnd.choice([0, (1 << 64) - 1, rnd.getrandbits(64)]) for _ in range(n)]
        vals.append(limbs_int(ws))
    if f.kind != "raw":
        vals = [v % q for v in vals]
    return vals


def sym_exec_driver(built, drv, f, arity):
    ex = Executor(built.module)
    ins = {}
    args = []
    d = built.drivers[drv]
    outp = None
    for name, kind, eb, cnt in d.params:
        if kind == "in":
            vs = [T.var("%s%d" % (name, i), 8 * eb) for i in range(cnt)]
            ins[name] = vs
            args.append(ex.alloc_words(vs, eb, name))
        elif kind == "out":
            outp = ex.alloc_uninit(eb * cnt, name)
            args.append(outp)
            outinfo = (eb, cnt)
        else:
            v = T.var(name, 8 * eb)
            ins[name] = v
            args.append(v)
    ex.run(drv, args)
    out = ex.read_words(outp, outinfo[1], outinfo[0])
    return ex, ins, out


def validate_translation(built, drv, f, ins, out, rnd, count=24):
    """term DAG evaluated concretely must equal the native driver (exit 3 otherwise)"""
    vals = boundary_values(f, rnd)
    d = built.drivers[drv]
    for it in range(count):
        env = {}
        native_in = {}
        for name, kind, eb, cnt in d.params:
            if kind == "in":
                X = rnd.choice(vals)
                ws = int_limbs(X, cnt, 8 * eb)
                native_in[name] = ws
                for i, w in enumerate(ws):
                    env["%s%d" % (name, i)] = w
            elif kind == "val":
                k = rnd.choice([0, 1, 2, (1 << (8 * eb)) - 1, rnd.getrandbits(8 * eb)])
                native_in[name] = k
                env[name] = k
        got = T.evaluate(out, env)
        nat = built.native(drv, native_in)["out"]
        if list(got) != list(nat):
            raise MachineryError("translator validation failed for %s on %r: dag=%r native=%r"
                                 % (drv, native_in, got, nat))
    return count


def spec_forms(enc, f, op, ins):
    """integer forms: A, B (raw limb integers), K (small multiplier)"""
    A = Lin(0)
    for i, v in enumerate(ins["a"]):
        A = A + enc.form(v)[0].scale(1 << (64 * i))
    B = None
    if "b" in ins:
        B = Lin(0)
        for i, v in enumerate(ins["b"]):
            B = B + enc.form(v)[0].scale(1 << (64 * i))
    K = enc.form(ins["k"])[0] if "k" in ins else None
    return A, B, K


def native_check(built, drv, f, op, inputs):
    """run natively, compare against the big-integer spec; returns (ok, detail)"""
    nat = built.native(drv, inputs)["out"]
    Rv = limbs_int(nat)
    Av = limbs_int(inputs["a"])
    args = [f.val(Av)]
    if "b" in inputs:
        args.append(f.val(limbs_int(inputs["b"])))
    if "k" in inputs:
        args.append(inputs["k"])
    exp = OPSPEC[op][1](*args, f.q)
    ok = f.valid(Rv) and f.val(Rv) == exp
    return ok, {"inputs": {k: ([hex(x) for x in v] if isinstance(v, list) else v)
                           for k, v in inputs.items()},
                "native_out": [hex(x) for x in nat], "expected_value": hex(exp),
                "got_value": hex(f.val(Rv)), "valid_repr": f.valid(Rv)}


def check_op(built, f, op, tier, timeout=120, cfg="default"):
    """returns list of Obligations"""
    rnd = random.Random(SEED * 7919 + zlib.crc32((f.tag + op + cfg).encode()))
    drv = "drv_%s_%s" % (f.tag, op)
    name = "%s:%s.%s" % (cfg, f.tag, op)
    fnames = ["%s (via driver %s)" % (f.rust + "::" + op, drv)]
    t0 = time.time()
    obs = []
    ob = Obligation(name + ":value", "L", fnames,
                    bounds="all %d-bit limb patterns%s" % (64 * f.n, "" if f.kind == "raw" else " below the modulus"),
                    desc="val(result) == spec(val(a),val(b)) mod q")
    obs.append(ob)
    try:
        ex, ins, out = sym_exec_driver(built, drv, f, OPSPEC[op][0])
    except ExecError as e:
        ob.unknown("executor: %s" % e)
        return obs
    nval = validate_translation(built, drv, f, ins, out, rnd)
    if op == "xsquare0":
        # zero squarings: the operand itself, bit for bit
        same = all((x is y) for x, y in zip(out, ins["a"]))
        if same:
            return [ob.ok("syntactic (result limbs are the operand limbs)", time.time() - t0, 0, syntactic=True)]
        from engines.llsym.smt import BVEmitter
        em = BVEmitter()
        diffs = ["(distinct %s %s)" % (em.ref(x, 64) if isinstance(x, T.Term) else "(_ bv%d 64)" % x, em.ref(y, 64)) for x, y in zip(out, ins["a"])]
        v, mod, dt = run_solver(em.script(["(or %s)" % " ".join(diffs)]), "z3", timeout)
        if v == "unsat":
            return [ob.ok("z3-bv", time.time() - t0)]
        if v == "sat":
            return [_confirm(ob, built, drv, f, op, _model_inputs(parse_model(mod), built, drv), "z3-bv", time.time() - t0)]
        # undecided: value-level replay (xsquare(0) must return the same field value)
        for it in range(2000):
            inputs = {"a": int_limbs(rnd.choice(boundary_values(f, rnd)), f.n, 64)}
            ok_, detail = native_check(built, drv, f, op, inputs)
            if not ok_:
                detail.update({"key": "%s.%s" % (f.tag, op), "found_by": "solver %s; native replay" % v, "driver": drv})
                return [ob.fail(detail, "replay", time.time() - t0)]
        return [ob.unknown("xsquare(0) vs operand: " + v, "z3-bv", time.time() - t0)]
    if op.startswith("xsquare"):
        # same DAG as repeated square on the real code
        drv2 = "drv_%s_%s" % (f.tag, "sqsq")
        ex2, ins2, out2 = sym_exec_driver(built, drv2, f, 1)
        same = all((x is y) or (not isinstance(x, T.Term) and x == y) for x, y in zip(out, out2))
        if same:
            return [ob.ok("syntactic (hash-consed DAG identical to square(square(x)))",
                          time.time() - t0, 0, syntactic=True)]
        from engines.llsym.smt import BVEmitter
        em = BVEmitter()
        diffs = []
        for x, y in zip(out, out2):
            diffs.append("(distinct %s %s)" % (em.ref(x, 64), em.ref(y, 64)))
        v, mod, dt = run_solver(em.script(["(or %s)" % " ".join(diffs)]), "z3", timeout)
        if v == "unsat":
            return [ob.ok("z3-bv", time.time() - t0)]
        if v == "sat":
            return [_confirm(ob, built, drv, f, op, _model_inputs(parse_model(mod), built, drv), "z3-bv", time.time() - t0)]
        return [ob.unknown("xsquare vs square.square: " + v, "z3-bv", time.time() - t0)]
    enc = IntEnc()
    R = Lin(0)
    for i, o in enumerate(out):
        R = R + enc.form(o)[0].scale(1 << (64 * i))
    A, B, K = spec_forms(enc, f, op, ins)
    q = f.q
    extra = []
    if f.kind != "raw":
        extra.append("(< %s %d)" % (A.smt(), q))
        if B is not None:
            extra.append("(< %s %d)" % (B.smt(), q))
    # encoder self-check on concrete inputs (also the simulation samples for lemma discovery)
    samples = []
    for it in range(64):
        env = {}
        vals = boundary_values(f, rnd)
        for nm in ("a", "b"):
            if nm in ins:
                for i, w in enumerate(int_limbs(rnd.choice(vals), f.n)):
                    env["%s%d" % (nm, i)] = w
        if "k" in ins:
            env["k"] = rnd.getrandbits(ins["k"].w)
        try:
            ae = enc.eval_atoms(env)
        except AssertionError as e:
            raise MachineryError("integer encoder self-check failed for %s: %s" % (drv, e))
        if R.eval(ae) != limbs_int(T.evaluate(out, env)):
            raise MachineryError("integer encoder value mismatch for %s" % drv)
        samples.append(ae)
    try:
        enc.validate_on(samples[0], extra)
        enc.validate_on(samples[-1], extra)
    except AssertionError as e:
        raise MachineryError("encoder validation failed for %s: %s" % (drv, e))
    # the congruence to prove, as (lhs, rhs): lhs == rhs mod q
    RR = f.R
    mont = f.kind != "raw"
    if op == "add":
        lhs, rhs = R, A + B
    elif op == "sub":
        lhs, rhs = R, A - B
    elif op == "neg":
        lhs, rhs = R, -A
    elif op == "half":
        lhs, rhs = R.scale(2), A
    elif op.startswith("mul") and op[3:].isdigit():
        lhs, rhs = R, A.scale(int(op[3:]))
    elif op in ("mul_small", "mul_u16"):
        lhs, rhs = R, enc.product(A, K)
    elif op == "mul":
        lhs, rhs = (R.scale(RR) if mont else R), enc.product(A, B)
    elif op == "square":
        lhs, rhs = (R.scale(RR) if mont else R), enc.product(A, A)
    else:
        ob.unknown("no spec for op " + op)
        return obs
    if mont and enc.prod_ops:
        extra += product_axioms(enc, f, ins)
    res = PR.prove_congruence(enc, lhs, rhs, q, extra=extra, timeout=timeout, samples=samples)
    if res.status == "proved":
        ob.ok("z3-int (QF_LIA, %d lemmas)" % len(res.info.get("lemmas", [])), res.seconds, res.queries)
    else:
        cex = hunt(built, drv, f, op, enc, ins, lhs, rhs, extra, rnd, timeout)
        if cex is not None:
            _confirm(ob, built, drv, f, op, cex[0], cex[1], time.time() - t0)
        else:
            ob.unknown("no congruence certificate and no counterexample (%s)" % res.info.get("reason"),
                       "z3-int", time.time() - t0, res.queries)
    if mont:
        ob2 = Obligation(name + ":range", "L", fnames, bounds=ob.bounds,
                         desc="result limbs < modulus (representation invariant preserved)")
        obs.append(ob2)
        r2 = PR.prove_range(enc, R, 0, q - 1, extra=extra, timeout=timeout)
        if r2.status == "proved":
            ob2.ok("z3-int", r2.seconds, r2.queries)
        elif r2.status == "refuted":
            cex = hunt(built, drv, f, op, enc, ins, lhs, rhs, extra, rnd, timeout, range_goal=(R, q))
            if cex is not None:
                _confirm(ob2, built, drv, f, op, cex[0], cex[1], time.time() - t0)
            else:
                ob2.unknown("range refuted only under the product abstraction", "z3-int", r2.seconds)
        else:
            ob2.unknown("range: " + str(r2.info.get("reason")), "z3-int", r2.seconds)
    for o in obs:
        o.desc += " [translator validated on %d native runs]" % nval
    return obs


def product_axioms(enc, f, ins):
    """linear consequences of a<q, b<q on the abstract partial products:
    every row  sum_j P(a_i,b_j) 2^(64j) = a_i * B <= a_i*(q-1)  etc."""
    ax = []
    q = f.q
    names_a = [enc.varatom.get("a%d" % i) for i in range(f.n)]
    names_b = [enc.varatom.get("b%d" % i) for i in range(f.n)] if "b" in ins else names_a
    if None in names_a or None in names_b:
        return ax
    for i, x in enumerate(names_a):
        row = Lin(0)
        ok = True
        for j, y in enumerate(names_b):
            p = enc.prods.get((min(x, y), max(x, y)))
            if p is None:
                ok = False
                break
            row = row + Lin(0, {p: 1 << (64 * j)})
        if ok:
            ax.append("(<= %s (* %d %s))" % (row.smt(), q - 1, x))
    for j, y in enumerate(names_b):
        col = Lin(0)
        ok = True
        for i, x in enumerate(names_a):
            p = enc.prods.get((min(x, y), max(x, y)))
            if p is None:
                ok = False
                break
            col = col + Lin(0, {p: 1 << (64 * i)})
        if ok:
            ax.append("(<= %s (* %d %s))" % (col.smt(), q - 1, y))
    return ax


def _model_inputs(model, built, drv):
    d = built.drivers[drv]
    inputs = {}
    for name, kind, eb, cnt in d.params:
        if kind == "in":
            inputs[name] = [model.get("x_%s%d" % (name, i), model.get("%s%d" % (name, i), 0)) for i in range(cnt)]
        elif kind == "val":
            inputs[name] = model.get("x_" + name, model.get(name, 0))
    return inputs


def _confirm(ob, built, drv, f, op, inputs, how, secs):
    ok, detail = native_check(built, drv, f, op, inputs)
    if ok:
        return ob.unknown("solver model does not reproduce natively (abstraction artefact)", how, secs)
    detail["key"] = "%s.%s" % (f.tag, op)
    detail["found_by"] = how
    detail["driver"] = drv
    return ob.fail(detail, how, secs)


def hunt(built, drv, f, op, enc, ins, lhs, rhs, extra, rnd, timeout, range_goal=None):
    """search for a real counterexample: (1) solver with one operand fixed to
    concrete values so that products are exact and the query stays linear,
    (2) concrete boundary/random evaluation.  Anything found is replayed
    natively by the caller."""
    q = f.q
    d = built.drivers[drv]
    if range_goal is not None:
        neg = "(not (<= 0 %s %d))" % (range_goal[0].smt(), range_goal[1] - 1)
    else:
        neg = "(not (= (mod (- %s %s) %d) 0))" % (lhs.smt(), rhs.smt(), q)
    vals = boundary_values(f, rnd)
    fixes = []
    has_b = "b" in ins
    pool = [vals[i] for i in (3, 10, 14)] + [rnd.choice(vals) for _ in range(3)]
    if enc.prod_ops:
        for X in pool:
            fx = {}
            which = "b" if has_b else "a"
            for i, w in enumerate(int_limbs(X, f.n)):
                a = enc.varatom.get("%s%d" % (which, i))
                if a:
                    fx[a] = w
            if "k" in ins and not has_b:
                fx = {enc.varatom["k"]: rnd.choice([1, 2, 0xFFFFFFFF & ((1 << ins["k"].w) - 1), rnd.getrandbits(ins["k"].w)])}
            fixes.append(fx)
    else:
        fixes = [{}]
    model, secs, nq = PR.falsify(enc, neg, fixes, timeout=min(timeout, 40), extra=extra)
    if model is not None:
        inputs = _model_inputs(model, built, drv)
        ok, _ = native_check(built, drv, f, op, inputs)
        if not ok:
            return inputs, "z3-int model (operand fixed, exact products)"
    # concrete evaluation on boundary values, then on limb patterns that make rare carries likely
    # (limbs drawn from {0, 1, all-ones, all-ones minus a little, 2^63, 2^32 - 1, random})
    def limb():
        c = rnd.randrange(8)
        return [0, 1, (1 << 64) - 1, (1 << 64) - 1 - rnd.getrandbits(8), 1 << 63, (1 << 32) - 1, (1 << 64) - (1 << 32), rnd.getrandbits(64)][c]
    for it in range(30000):
        inputs = {}
        for name, kind, eb, cnt in d.params:
            if kind == "in":
                if it < 400 or eb != 8:
                    inputs[name] = int_limbs(rnd.choice(vals), cnt, 8 * eb)
                else:
                    X = limbs_int([limb() for _ in range(cnt)])
                    if f.kind != "raw":
                        X %= q
                    inputs[name] = int_limbs(X, cnt, 64)
            elif kind == "val":
                inputs[name] = rnd.choice([0, 1, (1 << (8 * eb)) - 1, rnd.getrandbits(8 * eb)])
        ok, _ = native_check(built, drv, f, op, inputs)
        if not ok:
            return inputs, "boundary-value / limb-pattern replay after failed certificate"
    return None


def corpus_op(built, f, op, cfg="default", count=30000):
    """closed cases for an operation whose symbolic claim has no certificate within budget: limb patterns that make rare
    carries likely, replayed natively against the big-integer specification (ground facts, not solver coverage)"""
    rnd = random.Random(SEED * 104729 + zlib.crc32((f.tag + op + cfg + "corpus").encode()))
    drv = "drv_%s_%s" % (f.tag, op)
    ob = Obligation("%s:%s.%s:corpus" % (cfg, f.tag, op), "ground", ["%s (via driver %s)" % (f.rust + "::" + op, drv)],
                    "closed cases: %d operand tuples with limbs from {0, 1, all-ones, near all-ones, 2^63, 2^32 - 1, 2^64 - 2^32, random} and boundary values" % count,
                    "val(result) == spec(val(a), val(b)) mod q (native run against the big-integer specification)")
    t0 = time.time()
    d = built.drivers[drv]
    q = f.q
    vals = boundary_values(f, rnd)

    def limb():
        c = rnd.randrange(8)
        return [0, 1, (1 << 64) - 1, (1 << 64) - 1 - rnd.getrandbits(8), 1 << 63, (1 << 32) - 1, (1 << 64) - (1 << 32), rnd.getrandbits(64)][c]
    for it in range(count):
        inputs = {}
        for name, kind, eb, cnt in d.params:
            if kind == "in":
                if it < 400 or eb != 8:
                    inputs[name] = int_limbs(rnd.choice(vals), cnt, 8 * eb)
                else:
                    X = limbs_int([limb() for _ in range(cnt)])
                    if f.kind != "raw":
                        X %= q
                    inputs[name] = int_limbs(X, cnt, 64)
            elif kind == "val":
                inputs[name] = rnd.choice([0, 1, (1 << (8 * eb)) - 1, rnd.getrandbits(8 * eb)])
        ok, detail = native_check(built, drv, f, op, inputs)
        if not ok:
            detail["key"] = "%s.%s" % (f.tag, op)
            detail["found_by"] = "native replay of closed cases (limb patterns)"
            return [ob.fail(detail, "native", time.time() - t0, 0)]
    return [ob.ok("native replay x%d" % count, time.time() - t0, 0, syntactic=True)]
