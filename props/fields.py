"""Catalog of field / scalar types (the specification side: moduli and
representation conventions are written here from the standards, not read
from the code) and generators for their verification drivers."""
from engines.llsym.build import Driver

P25519 = 2**255 - 19
P255E = 2**255 - 18651
P255S = 2**255 - 3957
P256 = 2**256 - 2**224 + 2**192 + 2**96 - 1
PSECP = 2**256 - 2**32 - 977
P448 = 2**448 - 2**224 - 1
L25519 = 2**252 + 27742317777372353535851937790883648493
N256 = 0xFFFFFFFF00000000FFFFFFFFFFFFFFFFBCE6FAADA7179E84F3B9CAC2FC632551
NSECP = 0xFFFFFFFFFFFFFFFFFFFFFFFFFFFFFFFEBAAEDCE6AF48A03BBFD25E8CD0364141
RJQE = 2**254 - 131528281291764213006042413802501683931
RJQS = 2**254 + 56904135270672826811114353017034461895
RGLS = 2**253 + 83877821160623817322862211711964450037
L448 = 2**446 - 13818066809895115352007386748515426880336692474882178609894547503885


class Field:
    def __init__(self, tag, rust, n, q, kind, enc_len, ops, small=None, feature=None,
                 limb_bits=64):
        self.tag, self.rust, self.n, self.q, self.kind = tag, rust, n, q, kind
        self.enc_len, self.ops, self.small = enc_len, ops, small
        self.limb_bits = limb_bits
        self.R = 1 << (64 * n)

    # value represented by raw limbs X (an int): spec convention
    def val(self, X):
        if self.kind == "raw":
            return X % self.q
        return (X * pow(self.R, -1, self.q)) % self.q

    def valid(self, X):
        return True if self.kind == "raw" else X < self.q


LIN_OPS = ["add", "sub", "neg", "half", "mul2", "mul4", "mul8", "mul16", "mul32"]
GF255_OPS = LIN_OPS + ["mul_small", "mul", "square", "xsquare2", "xsquare0"]
MONTY_OPS = LIN_OPS + ["mul3", "mul", "square", "xsquare2", "xsquare0"]

FIELDS = [
    Field("gf25519", "crate::backend::GF255::<19>", 4, P25519, "raw", 32, GF255_OPS),
    Field("gf255e", "crate::backend::GF255::<18651>", 4, P255E, "raw", 32, GF255_OPS),
    Field("gf255s", "crate::backend::GF255::<3957>", 4, P255S, "raw", 32, GF255_OPS),
    Field("gfsecp256k1", "crate::backend::GFsecp256k1", 4, PSECP, "raw", 32,
          LIN_OPS + ["mul3", "mul21", "mul_u16", "mul", "square", "xsquare2", "xsquare0"]),
    Field("gf448", "crate::backend::GF448", 7, P448, "raw", 56,
          LIN_OPS + ["mul_small", "mul", "square", "xsquare2", "xsquare0"]),
    Field("gfp256", "crate::backend::GFp256", 4, P256, "monty", 32, MONTY_OPS),
    Field("sc25519", "crate::ed25519::Scalar", 4, L25519, "monty", 32, MONTY_OPS),
    Field("scp256", "crate::p256::Scalar", 4, N256, "monty", 32, MONTY_OPS),
    Field("scsecp256k1", "crate::secp256k1::Scalar", 4, NSECP, "monty", 32, MONTY_OPS),
    Field("scjq255e", "crate::jq255e::Scalar", 4, RJQE, "monty", 32, MONTY_OPS),
    Field("scjq255s", "crate::jq255s::Scalar", 4, RJQS, "monty", 32, MONTY_OPS),
    Field("scgls254", "crate::gls254::Scalar", 4, RGLS, "monty", 32, MONTY_OPS),
    Field("sc448", "crate::ed448::Scalar", 7, L448, "monty", 56,
          MONTY_OPS + ["mul_small"]),
]
BYTAG = {f.tag: f for f in FIELDS}

# user-defined instantiations of the public define_gfgen! macro (the property quantifies over them); the type
# is defined in the drivers' module by `prelude`.  Used by C05 (encoding length / strict decoding).
def _gfgen_prelude(name, limbs):
    return ("    pub struct %sParams;\n    impl %sParams { const MODULUS: [u64; %d] = [%s]; }\n"
            "    crate::backend::define_gfgen!(%s, %sParams, %s_mod, false);\n"
            % (name, name, len(limbs), ", ".join("0x%016X" % l for l in limbs), name, name, name.lower()))


EXTRA_FIELDS = [
    Field("gfgen256", "VGen256", 4, P256, "monty", 32, MONTY_OPS),
]
EXTRA_FIELDS[0].prelude = _gfgen_prelude("VGen256", [(P256 >> (64 * i)) & (2**64 - 1) for i in range(4)])
BYTAG.update({f.tag: f for f in EXTRA_FIELDS})

# op -> (arity, python spec on values, rust expression)
OPSPEC = {
    "add": (2, lambda a, b, q: (a + b) % q, "x + y"),
    "sub": (2, lambda a, b, q: (a - b) % q, "x - y"),
    "mul": (2, lambda a, b, q: (a * b) % q, "x * y"),
    "neg": (1, lambda a, q: (-a) % q, "-x"),
    "half": (1, lambda a, q: (a * pow(2, -1, q)) % q, "x.half()"),
    "mul2": (1, lambda a, q: (2 * a) % q, "x.mul2()"),
    "mul3": (1, lambda a, q: (3 * a) % q, "x.mul3()"),
    "mul4": (1, lambda a, q: (4 * a) % q, "x.mul4()"),
    "mul8": (1, lambda a, q: (8 * a) % q, "x.mul8()"),
    "mul16": (1, lambda a, q: (16 * a) % q, "x.mul16()"),
    "mul32": (1, lambda a, q: (32 * a) % q, "x.mul32()"),
    "mul21": (1, lambda a, q: (21 * a) % q, "x.mul21()"),
    "square": (1, lambda a, q: (a * a) % q, "x.square()"),
    "xsquare2": (1, lambda a, q: pow(a, 4, q), "x.xsquare(2)"),
    "xsquare0": (1, lambda a, q: a % q, "x.xsquare(0)"),
    "mul_small": ("k32", lambda a, k, q: (a * k) % q, "x.mul_small(k)"),
    "mul_u16": ("k16", lambda a, k, q: (a * k) % q, "x.mul_u16(k)"),
}


def raw_in(f, v):
    return "let %s: %s = unsafe { transmute::<[u64; %d], %s>(*%s) };" % (
        {"a": "x", "b": "y"}[v], f.rust, f.n, f.rust, v)


def op_driver(f, op):
    """raw-limb driver: limbs in -> op -> limbs out"""
    ar = OPSPEC[op][0]
    expr = OPSPEC[op][2]
    params = [("a", "in", 8, f.n)]
    body = ["        " + raw_in(f, "a")]
    if ar == 2:
        params.append(("b", "in", 8, f.n))
        body.append("        " + raw_in(f, "b"))
    elif ar == "k32":
        params.append(("k", "val", 4, 1))
    elif ar == "k16":
        params.append(("k", "val", 2, 1))
    params.append(("out", "out", 8, f.n))
    body.append("        let r: %s = %s;" % (f.rust, expr))
    body.append("        *out = unsafe { transmute::<%s, [u64; %d]>(r) };" % (f.rust, f.n))
    return Driver("drv_%s_%s" % (f.tag, op), params, "\n".join(body))


def encode_driver(f):
    params = [("a", "in", 8, f.n), ("out", "out", 1, f.enc_len)]
    # copied through a slice so that a change of the encoding length still compiles (drv_*_enclen reports it)
    body = ["        " + raw_in(f, "a"),
            "        let e = x.encode(); let m = if e.len() < %d { e.len() } else { %d };" % (f.enc_len, f.enc_len),
            "        *out = [0u8; %d]; out[..m].copy_from_slice(&e[..m]);" % f.enc_len]
    return Driver("drv_%s_encode" % f.tag, params, "\n".join(body))


def enclen_driver(f):
    return Driver("drv_%s_enclen" % f.tag, [("a", "in", 8, f.n), ("olen", "out", 4, 1)],
                  "        " + raw_in(f, "a") + "\n        olen[0] = x.encode().len() as u32;")


def limbs_int(ws, bits=64):
    return sum(w << (bits * i) for i, w in enumerate(ws))


def int_limbs(x, n, bits=64):
    return [(x >> (bits * i)) & ((1 << bits) - 1) for i in range(n)]
