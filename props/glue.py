"""Hooks used by the protocol-glue checks (C07-C09): selected callees of the
function under test are replaced, in the symbolic executor, by *contract
stubs* that record their arguments and return fresh symbolic results; hash
compression functions become uninterpreted functions so that "the hash
input is exactly R || A || M" is a structural fact about the term DAG.
The callees keep separate symbols because /repo is built with
--cfg pornin_crrl_verif_cut (inline(never) hooks, add-only)."""
import re
from engines.llsym import terms as T
from engines.llsym.llexec import Executor, Ptr, ExecError, UNDEF


class Recorder:
    def __init__(self):
        self.calls = []     # (tag, dict)
        self.n = 0

    def fresh(self, prefix, w, lo=None, hi=None):
        self.n += 1
        return T.var("%s_%d" % (prefix, self.n), w, lo, hi) if lo is not None else T.var("%s_%d" % (prefix, self.n), w)


def uf(name, idx, args, w, widths=None):
    """uninterpreted function application; widths = bit widths of the arguments
    (needed for constant arguments)"""
    if widths is None:
        widths = tuple(x.w if isinstance(x, T.Term) else 8 for x in args)
    return T._mk("uf:" + name, tuple(args), w, (idx, tuple(widths)))


def discover_layout(module, pattern, objsize, nargs_extra=0):
    """Run the real function once on an object of distinct symbolic bytes and
    see which byte ranges it reads and writes (first pointer argument)."""
    names = module.find_functions(pattern)
    if not names:
        return None
    ex = Executor(module)
    bs = [T.var("lay%d" % i, 8) for i in range(objsize)]
    p = ex.alloc_bytes(bs, "self")
    ex.record_trace = True
    fn = module.function(names[0])
    args = [p] + [0] * (len(fn.params) - 1)
    try:
        ex.call_function(fn, args)
    except ExecError:
        return None
    rd, wr = set(), set()
    for ev in ex.trace:
        if ev[0] == "load" and ev[1] == p.obj:
            rd.add(ev[2])
        elif ev[0] == "store" and ev[1] == p.obj:
            wr.add(ev[2])
    return {"name": names[0], "reads": sorted(rd), "writes": sorted(wr)}


def sha2_layout(module, big=True):
    """(h offset, buf offset) of the SHA2Big / SHA2Small object"""
    pat = r"sha2.*SHA2Big.*process" if big else r"sha2.*SHA2Small.*process"
    wb = 8 if big else 4
    size = (64 + 128 + 8) if big else (32 + 64 + 8)
    lay = discover_layout(module, pat, size)
    if lay is None:
        return None
    wr = lay["writes"]
    if not wr:
        return None
    hoff = min(wr)
    # buffer = read offsets outside [hoff, hoff + 8*wb)
    rd = [o for o in lay["reads"] if not (hoff <= o < hoff + 8 * wb)]
    if not rd:
        return None
    boff = min(rd)
    return {"pattern": pat, "h": hoff, "buf": boff, "w": wb, "blk": 128 if big else 64, "size": size}


def install_sha2_uf(ex, lay, rec, tag):
    """compression function := uninterpreted function of (state, block)"""
    wb, blk = lay["w"], lay["blk"]

    def hook(ex_, name, argv, rty):
        self_p = argv[0]
        h = [ex_.load(Ptr(self_p.obj, self_p.off + lay["h"] + wb * i), wb) for i in range(8)]
        b = ex_.read_bytes(Ptr(self_p.obj, self_p.off + lay["buf"]), blk)
        rec.calls.append((tag, {"h": h, "block": b}))
        for i in range(8):
            ex_.store(Ptr(self_p.obj, self_p.off + lay["h"] + wb * i), wb,
                      uf(tag, i, h + b, 8 * wb, [8 * wb] * 8 + [8] * blk))
        return None
    ex.add_call_hook(lay["pattern"], hook)


SHA512_IV = [0x6A09E667F3BCC908, 0xBB67AE8584CAA73B, 0x3C6EF372FE94F82B, 0xA54FF53A5F1D36F1,
             0x510E527FADE682D1, 0x9B05688C2B3E6C1F, 0x1F83D9ABFB41BD6B, 0x5BE0CD19137E2179]
SHA256_IV = [0x6A09E667, 0xBB67AE85, 0x3C6EF372, 0xA54FF53A, 0x510E527F, 0x9B05688C, 0x1F83D9AB, 0x5BE0CD19]


def sha2_uf_spec(msg_bytes, tag, big=True):
    """FIPS 180-4 padding and chaining over the uninterpreted compression
    function; msg_bytes: list of 8-bit terms/ints.  Returns digest bytes."""
    wb, blk = (8, 128) if big else (4, 64)
    iv = SHA512_IV if big else SHA256_IV
    n = len(msg_bytes)
    m = list(msg_bytes) + [0x80]
    lenbytes = 16 if big else 8
    while (len(m) + lenbytes) % blk:
        m.append(0)
    m += list((8 * n).to_bytes(lenbytes, "big"))
    h = list(iv)
    for i in range(0, len(m), blk):
        b = m[i:i + blk]
        h = [uf(tag, k, h + b, 8 * wb, [8 * wb] * 8 + [8] * blk) for k in range(8)]
    out = []
    for x in h:
        for k in range(wb):
            out.append(T.t_extract(x, 8 * (wb - 1 - k), 8) if isinstance(x, T.Term) else (x >> (8 * (wb - 1 - k))) & 255)
    return out


def same_terms(xs, ys):
    if len(xs) != len(ys):
        return False
    for x, y in zip(xs, ys):
        if isinstance(x, T.Term) or isinstance(y, T.Term):
            if x is not y:
                return False
        elif x != y:
            return False
    return True


def fn_sig(module, pattern):
    names = module.find_functions(pattern)
    if not names:
        return None, None
    f = module.function(names[0])
    return names[0], f
