"""Transcriptions of the hash standards used as the oracle of C17.

  FIPS 180-4  SHA-224/256/384/512, SHA-512/224, SHA-512/256
  FIPS 202    Keccak-p[1600,24], SHA3-224/256/384/512, SHAKE128/256
  RFC 7693    BLAKE2s (keyed, any digest length 1..32)

Everything is written over the term constructors of engines.llsym.terms.
Those constructors fold to plain Python ints when all operands are ints, so
the SAME transcription is
  * a plain-Python reference implementation (inputs are ints), validated
    against hashlib by `selftest()` on every run, and
  * the symbolic specification (inputs are terms) the real code is compared
    with.
Nothing here is derived from the library under test: round constants and
initial values are recomputed from their definitions (fractional parts of
square/cube roots of primes, the Keccak LFSR, the rho/pi walk, the SHA-512/t
IV generation function); only BLAKE2s' SIGMA table is a literal (RFC 7693
section 2.7).

The mode functions (padding, chaining, sponge, BLAKE2s counter/flag rules) take
the compression function as a parameter: the real one (reference digests) or
an uninterpreted constructor (`uf_*`), see C17.py layer 1."""
import hashlib
from engines.llsym import terms as T

M32 = 0xFFFFFFFF
M64 = 0xFFFFFFFFFFFFFFFF


# ---------------------------------------------------------------- arithmetic helpers

def _primes(n):
    ps, c = [], 2
    while len(ps) < n:
        if all(c % p for p in ps if p * p <= c):
            ps.append(c)
        c += 1
    return ps


def _iroot(v, k):
    """floor(v ** (1/k)) by bisection on integers"""
    lo, hi = 0, 1
    while hi ** k <= v:
        hi *= 2
    while lo + 1 < hi:
        mid = (lo + hi) // 2
        if mid ** k <= v:
            lo = mid
        else:
            hi = mid
    return lo


def _frac_root(p, k, bits):
    """first `bits` bits of the fractional part of p ** (1/k)"""
    return _iroot(p << (k * bits), k) & ((1 << bits) - 1)


PRIMES = _primes(80)
K256 = [_frac_root(p, 3, 32) for p in PRIMES[:64]]
K512 = [_frac_root(p, 3, 64) for p in PRIMES[:80]]
IV256 = [_frac_root(p, 2, 32) for p in PRIMES[:8]]
IV512 = [_frac_root(p, 2, 64) for p in PRIMES[:8]]
IV384 = [_frac_root(p, 2, 64) for p in PRIMES[8:16]]
IV224 = [x & M32 for x in IV384]          # "second 32 bits of the fractional parts ..."


def rotr(x, n, w):
    return T.t_or(T.t_lshr(x, n, w), T.t_shl(x, w - n, w), w)


def rotl(x, n, w):
    n %= w
    if n == 0:
        return x
    return T.t_or(T.t_shl(x, n, w), T.t_lshr(x, w - n, w), w)


def be_word(bs):
    """big-endian word from a list of byte values (first byte most significant)"""
    r, wr = bs[-1], 8
    for b in reversed(bs[:-1]):
        r = T.t_concat(b, r, 8, wr)
        wr += 8
    return r


def le_word(bs):
    """little-endian word (first byte least significant)"""
    r, wr = bs[0], 8
    for b in bs[1:]:
        r = T.t_concat(b, r, 8, wr)
        wr += 8
    return r


def word_bytes_be(x, w):
    return [T.t_extract(x, w - 8 - 8 * i, 8) for i in range(w // 8)]


def word_bytes_le(x, w):
    return [T.t_extract(x, 8 * i, 8) for i in range(w // 8)]


# ---------------------------------------------------------------- SHA-2 (FIPS 180-4)

SHA2_ROT = {
    #      Sigma0        Sigma1        sigma0 (r,r,shr)  sigma1 (r,r,shr)
    32: ((2, 13, 22), (6, 11, 25), (7, 18, 3), (17, 19, 10)),
    64: ((28, 34, 39), (14, 18, 41), (1, 8, 7), (19, 61, 6)),
}


def sha2_compress(w, h, block, trace=None):
    """FIPS 180-4 section 6.2.2 / 6.4.2.  h: 8 words; block: 64 (w=32) or 128
    (w=64) byte values.  Returns the 8 words of H(i).  `trace`, when a list,
    receives (label, value) for the message schedule and every round; labels
    starting with "h:" mark values that carry the whole state from one round to
    the next (C17 abstracts those to fresh variables, the others are merged)."""
    S0, S1, s0, s1 = SHA2_ROT[w]
    K = K256 if w == 32 else K512
    nr = len(K)
    bw = w // 8
    X = lambda a, b: T.t_xor(a, b, w)
    A = lambda a, b: T.t_and(a, b, w)
    ADD = lambda *xs: T.t_addn(list(xs), w)
    NOT = lambda a: T.t_not(a, w)

    def Ch(x, y, z):
        return X(A(x, y), A(NOT(x), z))

    def Maj(x, y, z):
        return X(X(A(x, y), A(x, z)), A(y, z))

    def BS(x, r):
        return X(X(rotr(x, r[0], w), rotr(x, r[1], w)), rotr(x, r[2], w))

    def SS(x, r):
        return X(X(rotr(x, r[0], w), rotr(x, r[1], w)), T.t_lshr(x, r[2], w))

    W = [be_word(block[bw * t:bw * t + bw]) for t in range(16)]
    for t in range(16, nr):
        W.append(ADD(SS(W[t - 2], s1), W[t - 7], SS(W[t - 15], s0), W[t - 16]))
        if trace is not None:
            trace.append(("h:W%d" % t, W[t]))
    a, b, c, d, e, f, g, hh = h
    for t in range(nr):
        s1e, che, s0a, mja = BS(e, S1), Ch(e, f, g), BS(a, S0), Maj(a, b, c)
        T1 = ADD(hh, s1e, che, K[t], W[t])
        T2 = ADD(s0a, mja)
        if trace is not None:
            trace += [("r%d.S1" % t, s1e), ("r%d.Ch" % t, che), ("r%d.S0" % t, s0a), ("r%d.Maj" % t, mja),
                      ("r%d.T1" % t, T1), ("r%d.T2" % t, T2)]
        hh, g, f, e, d, c, b, a = g, f, e, ADD(d, T1), c, b, a, ADD(T1, T2)
        if trace is not None:
            trace.append(("h:r%d.e" % t, e))
            trace.append(("h:r%d.a" % t, a))
    return [ADD(x, y) for x, y in zip((a, b, c, d, e, f, g, hh), h)]


def _sha512t_iv(t):
    """FIPS 180-4 section 5.3.6: SHA-512/t IV generation function"""
    h0 = [x ^ 0xA5A5A5A5A5A5A5A5 for x in IV512]
    d = _sha2_raw(64, h0, list(("SHA-512/%d" % t).encode()), sha2_compress)
    return d


def sha2_pad(w, n):
    """FIPS 180-4 section 5.1: the padding appended to an n-byte message"""
    blk = 2 * w           # block bytes: 64 / 128
    lenb = w // 4         # length field bytes: 8 / 16
    k = (-(n + 1 + lenb)) % blk
    return [0x80] + [0] * k + list((8 * n).to_bytes(lenb, "big"))


def _sha2_raw(w, iv, msg, compress):
    blk = 2 * w
    data = list(msg) + sha2_pad(w, len(msg))
    assert len(data) % blk == 0
    h = list(iv)
    for i in range(0, len(data), blk):
        h = compress(w, h, data[i:i + blk])
    return h


SHA2 = {
    # name: (word bits, IV, digest bytes)
    "sha224": (32, IV224, 28),
    "sha256": (32, IV256, 32),
    "sha384": (64, IV384, 48),
    "sha512": (64, IV512, 64),
    "sha512_224": (64, None, 28),
    "sha512_256": (64, None, 32),
}


def sha2_iv(name):
    w, iv, dl = SHA2[name]
    if iv is None:
        iv = _sha512t_iv(8 * dl)
        SHA2[name] = (w, iv, dl)
    return iv


def sha2_digest(name, msg, compress=None):
    """digest bytes of `msg` (list of byte values); `compress(w, h, block)`"""
    w, _, dl = SHA2[name]
    h = _sha2_raw(w, sha2_iv(name), msg, compress or sha2_compress)
    out = []
    for x in h:
        out += word_bytes_be(x, w)
    return out[:dl]


# ---------------------------------------------------------------- Keccak / SHA-3 (FIPS 202)

def _keccak_rc():
    """FIPS 202 algorithm 5 (rc) and 6 (iota): the 24 round constants"""
    def rc(t):
        if t % 255 == 0:
            return 1
        R = [1, 0, 0, 0, 0, 0, 0, 0]
        for _ in range(t % 255):
            R = [0] + R
            R[0] ^= R[8]
            R[4] ^= R[8]
            R[5] ^= R[8]
            R[6] ^= R[8]
            R = R[:8]
        return R[0]
    out = []
    for ir in range(24):
        v = 0
        for j in range(7):
            v |= rc(j + 7 * ir) << ((1 << j) - 1)
        out.append(v)
    return out


def _keccak_rho():
    """FIPS 202 algorithm 2: rotation offsets, indexed [x + 5*y]"""
    off = [0] * 25
    x, y = 1, 0
    for t in range(24):
        off[x + 5 * y] = ((t + 1) * (t + 2) // 2) % 64
        x, y = y, (2 * x + 3 * y) % 5
    return off


KECCAK_RC = _keccak_rc()
KECCAK_RHO = _keccak_rho()


def keccak_round(A, ir, trace=None):
    """one round Rnd(A, ir) = iota(chi(pi(rho(theta(A)))), ir); A[x + 5*y]"""
    X = lambda a, b: T.t_xor(a, b, 64)

    def tr(lab, vals):
        if trace is not None:
            for i, v in enumerate(vals):
                trace.append(("%sr%d.%s%d" % ("h:" if lab == "out" else "", ir, lab, i), v))
    # theta
    C = [X(X(X(X(A[x], A[x + 5]), A[x + 10]), A[x + 15]), A[x + 20]) for x in range(5)]
    tr("C", C)
    D = [X(C[(x - 1) % 5], rotl(C[(x + 1) % 5], 1, 64)) for x in range(5)]
    tr("D", D)
    A = [X(A[i], D[i % 5]) for i in range(25)]
    tr("theta", A)
    # rho
    A = [rotl(A[i], KECCAK_RHO[i], 64) for i in range(25)]
    tr("rho", A)
    # pi: A'[x, y] = A[(x + 3y) mod 5, x]
    B = [None] * 25
    for x in range(5):
        for y in range(5):
            B[x + 5 * y] = A[((x + 3 * y) % 5) + 5 * x]
    # chi
    A = [X(B[x + 5 * y], T.t_and(T.t_not(B[(x + 1) % 5 + 5 * y], 64), B[(x + 2) % 5 + 5 * y], 64))
         for y in range(5) for x in range(5)]
    tr("chi", A[:1])
    # iota
    A[0] = X(A[0], KECCAK_RC[ir])
    tr("out", A)
    return A


def keccak_f(A, trace=None):
    """Keccak-p[1600, 24] on 25 lanes (lane x + 5*y, little-endian bytes)"""
    A = list(A)
    for ir in range(24):
        A = keccak_round(A, ir, trace)
    return A


SHA3 = {
    # name: (rate bytes, domain suffix byte, digest bytes or None for XOF)
    "sha3_224": (144, 0x06, 28),
    "sha3_256": (136, 0x06, 32),
    "sha3_384": (104, 0x06, 48),
    "sha3_512": (72, 0x06, 64),
    "shake128": (168, 0x1F, None),
    "shake256": (136, 0x1F, None),
}


def sponge(rate, suffix, msg, outlen, f=None):
    """FIPS 202 algorithm 8 with pad10*1 on byte strings: the message bits are
    followed by the domain suffix bits and the first padding bit (together:
    `suffix`, LSB first) and the final padding bit 0x80 of the last rate byte."""
    f = f or keccak_f
    data = list(msg)
    q = rate - (len(data) % rate)
    if q == 1:
        data += [suffix | 0x80]
    else:
        data += [suffix] + [0] * (q - 2) + [0x80]
    S = [0] * 25
    for i in range(0, len(data), rate):
        # S ^= block || 0^c, one byte at a time: byte p of the block is bits 8*(p mod 8).. of lane p div 8
        for p in range(rate):
            b = data[i + p]
            S[p >> 3] = T.t_xor(S[p >> 3], T.t_shl(T.t_zext(b, 64), 8 * (p & 7), 64), 64)
        S = f(S)
    out = []
    while True:
        for j in range(rate // 8):
            out += word_bytes_le(S[j], 64)
        if len(out) >= outlen:
            return out[:outlen]
        S = f(S)


def sha3_digest(name, msg, outlen=None, f=None):
    rate, suffix, dl = SHA3[name]
    return sponge(rate, suffix, msg, dl if dl is not None else outlen, f)


# ---------------------------------------------------------------- BLAKE2s (RFC 7693)

BLAKE2S_SIGMA = [
    [0, 1, 2, 3, 4, 5, 6, 7, 8, 9, 10, 11, 12, 13, 14, 15],
    [14, 10, 4, 8, 9, 15, 13, 6, 1, 12, 0, 2, 11, 7, 5, 3],
    [11, 8, 12, 0, 5, 2, 15, 13, 10, 14, 3, 6, 7, 1, 9, 4],
    [7, 9, 3, 1, 13, 12, 11, 14, 2, 6, 5, 10, 4, 0, 15, 8],
    [9, 0, 5, 7, 2, 4, 10, 15, 14, 1, 11, 12, 6, 8, 3, 13],
    [2, 12, 6, 10, 0, 11, 8, 3, 4, 13, 7, 5, 15, 14, 1, 9],
    [12, 5, 1, 15, 14, 13, 4, 10, 0, 7, 6, 3, 9, 2, 8, 11],
    [13, 11, 7, 14, 12, 1, 3, 9, 5, 0, 15, 4, 8, 6, 2, 10],
    [6, 15, 14, 9, 11, 3, 0, 8, 12, 2, 13, 7, 1, 4, 10, 5],
    [10, 2, 8, 4, 7, 6, 1, 5, 15, 11, 9, 14, 3, 12, 13, 0],
]
BLAKE2S_IV = IV256


def blake2s_F(h, block, t, last, trace=None):
    """RFC 7693 section 3.2.  h: 8 words, block: 64 byte values, t: 64-bit
    offset counter, last: final-block flag (0/1, int or 1-bit term)."""
    w = 32
    X = lambda a, b: T.t_xor(a, b, w)
    ADD = lambda *xs: T.t_addn(list(xs), w)
    m = [le_word(block[4 * i:4 * i + 4]) for i in range(16)]
    v = list(h) + list(BLAKE2S_IV)
    v[12] = X(v[12], T.t_extract(t, 0, 32) if isinstance(t, T.Term) else t & M32)
    v[13] = X(v[13], T.t_extract(t, 32, 32) if isinstance(t, T.Term) else (t >> 32) & M32)
    if isinstance(last, T.Term):
        v[14] = X(v[14], T.t_sext(last, 1, 32))
    elif last:
        v[14] = X(v[14], M32)

    def G(a, b, c, d, x, y, tag):
        def tr(step, k):
            if trace is not None:
                trace.append(("%s%s.s%d.v%d" % ("h:" if step >= 5 else "", tag, step, k), v[k]))
        v[a] = ADD(v[a], v[b], x)
        tr(1, a)
        v[d] = rotr(X(v[d], v[a]), 16, w)
        tr(2, d)
        v[c] = ADD(v[c], v[d])
        tr(3, c)
        v[b] = rotr(X(v[b], v[c]), 12, w)
        tr(4, b)
        v[a] = ADD(v[a], v[b], y)
        tr(5, a)
        v[d] = rotr(X(v[d], v[a]), 8, w)
        tr(6, d)
        v[c] = ADD(v[c], v[d])
        tr(7, c)
        v[b] = rotr(X(v[b], v[c]), 7, w)
        tr(8, b)
    for r in range(10):
        s = BLAKE2S_SIGMA[r]
        G(0, 4, 8, 12, m[s[0]], m[s[1]], "r%d.g0" % r)
        G(1, 5, 9, 13, m[s[2]], m[s[3]], "r%d.g1" % r)
        G(2, 6, 10, 14, m[s[4]], m[s[5]], "r%d.g2" % r)
        G(3, 7, 11, 15, m[s[6]], m[s[7]], "r%d.g3" % r)
        G(0, 5, 10, 15, m[s[8]], m[s[9]], "r%d.g4" % r)
        G(1, 6, 11, 12, m[s[10]], m[s[11]], "r%d.g5" % r)
        G(2, 7, 8, 13, m[s[12]], m[s[13]], "r%d.g6" % r)
        G(3, 4, 9, 14, m[s[14]], m[s[15]], "r%d.g7" % r)
    return [X(X(h[i], v[i]), v[i + 8]) for i in range(8)]


def blake2s_digest(msg, key=(), outlen=32, F=None):
    """RFC 7693 section 3.3: BLAKE2s(d[0..dd-1], ll, kk, nn)"""
    F = F or blake2s_F
    kk, nn, ll = len(key), outlen, len(msg)
    assert 0 <= kk <= 32 and 1 <= nn <= 32
    h = list(BLAKE2S_IV)
    h[0] = h[0] ^ 0x01010000 ^ (kk << 8) ^ nn
    data = (list(key) + [0] * (64 - kk) if kk else []) + list(msg)
    total = len(data)                       # ll, plus 64 when keyed
    if total == 0:
        data = [0] * 64
    elif total % 64:
        data += [0] * (64 - total % 64)
    dd = len(data) // 64
    for i in range(dd - 1):
        h = F(h, data[64 * i:64 * i + 64], 64 * (i + 1), 0)
    h = F(h, data[64 * (dd - 1):], total, 1)
    out = []
    for x in h:
        out += word_bytes_le(x, 32)
    return out[:nn]


# ---------------------------------------------------------------- uninterpreted compression functions

_uf_cache = {}


def _reg(name, fn):
    """interpretation used by terms.evaluate: the real function, memoised"""
    def impl(idx, vals):
        r = _uf_cache.get((name, vals))
        if r is None:
            if len(_uf_cache) > 4096:
                _uf_cache.clear()
            r = _uf_cache[(name, vals)] = fn(vals)
        return r[idx]
    T.UF_IMPL[name] = impl


def uf_sha2(w, h, block):
    name = "sha2c%d" % w
    args = list(h) + list(block)
    widths = [w] * 8 + [8] * (2 * w)
    return [T.t_uf(name, i, args, widths, w) for i in range(8)]


def uf_keccak(A):
    args = list(A)
    return [T.t_uf("keccakf", i, args, [64] * 25, 64) for i in range(25)]


def uf_blake2s(h, block, t, last):
    args = list(h) + list(block) + [t, last]
    widths = [32] * 8 + [8] * 64 + [64, 1]
    return [T.t_uf("blake2sF", i, args, widths, 32) for i in range(8)]


_reg("sha2c32", lambda v: sha2_compress(32, list(v[:8]), list(v[8:])))
_reg("sha2c64", lambda v: sha2_compress(64, list(v[:8]), list(v[8:])))
_reg("keccakf", lambda v: keccak_f(list(v)))
_reg("blake2sF", lambda v: blake2s_F(list(v[:8]), list(v[8:72]), v[72], v[73]))


# ---------------------------------------------------------------- reference digests

HASHLIB = {"sha224": "sha224", "sha256": "sha256", "sha384": "sha384", "sha512": "sha512",
           "sha512_224": "sha512_224", "sha512_256": "sha512_256",
           "sha3_224": "sha3_224", "sha3_256": "sha3_256", "sha3_384": "sha3_384",
           "sha3_512": "sha3_512", "shake128": "shake_128", "shake256": "shake_256"}


def reference(name, msg, outlen=None, key=()):
    """plain-Python digest (this file's transcription on ints); list of ints"""
    msg = list(msg)
    if name in SHA2:
        return sha2_digest(name, msg)
    if name in SHA3:
        return sha3_digest(name, msg, outlen)
    if name == "blake2s":
        return blake2s_digest(msg, list(key), outlen or 32)
    raise KeyError(name)


def hashlib_digest(name, msg, outlen=None, key=()):
    """second opinion from hashlib where it implements the function; None otherwise"""
    try:
        if name == "blake2s":
            return list(hashlib.blake2s(bytes(msg), digest_size=outlen or 32, key=bytes(key)).digest())
        h = hashlib.new(HASHLIB[name], bytes(msg))
        if name.startswith("shake"):
            return list(h.digest(outlen))
        return list(h.digest())
    except (ValueError, KeyError):
        return None


# ---------------------------------------------------------------- one-step (mid-stream) forms of the mode rules
#
# The same padding / chaining / counter rules as above, written as transition functions over the
# ABSTRACT streaming state of each construction, so that "state after the bytes seen so far, plus
# some more bytes" can be compared with the real code started from an arbitrary context
# (props/C17_step.py).  Abstract states:
#   SHA-2    (h, pend, n)   h = H(i) after all complete blocks, pend = the n mod block bytes not yet
#                           compressed, n = number of message bytes so far
#   BLAKE2s  (h, pend, t)   pend = bytes not yet compressed; a complete block stays pending because
#                           it may be the last one (RFC 7693 3.3: the final block is compressed with
#                           the flag set); t = bytes so far (key block included); |pend| = 0 when
#                           t = 0, else ((t-1) mod 64)+1
#   sponge   (S, p)         S = state with p < rate bytes of the current block already XORed in;
#                           while squeezing, p <= rate output bytes of S are already delivered
# n / t may be ints or terms (64 bits; 128 for the SHA-512 family).  By construction
#   step_update(step_update(s, a), b) == step_update(s, a || b)   and
#   step_final(step_update(init, m)) == digest(m);
# `selftest_step` checks the second equation (over random splits) against hashlib on every run.

def _cadd(x, c, w):
    return T.t_add(x, c & ((1 << w) - 1), w) if isinstance(x, T.Term) else (x + c) & ((1 << w) - 1)


def sha2_step_update(w, h, pend, n, data, compress=None):
    """FIPS 180-4 6.2.2/6.4.2 chaining applied to pend || data.  Returns (h', pend', n')."""
    compress = compress or sha2_compress
    blk = 2 * w
    assert len(pend) < blk
    buf = list(pend) + list(data)
    h = list(h)
    while len(buf) >= blk:
        h = compress(w, h, buf[:blk])
        buf = buf[blk:]
    return h, buf, _cadd(n, len(data), 2 * w)


def sha2_step_final(name, h, pend, n, compress=None):
    """FIPS 180-4 5.1 padding for a message of n bytes whose last |pend| bytes are pending, then
    the remaining one or two compressions and the truncation of 6.x.  n: int or term of 64 bits
    (SHA-224/256) / 128 bits (SHA-384/512 family); the length field is the 64/128-bit big-endian
    value 8*n (n < 2^61 / 2^125 is the standard's domain)."""
    compress = compress or sha2_compress
    w, _, dl = SHA2[name]
    blk, lenb = 2 * w, w // 4
    assert len(pend) < blk
    if isinstance(n, T.Term):
        assert n.w == 8 * lenb
        L = T.t_shl(n, 3, 8 * lenb)
    else:
        assert n % blk == len(pend)
        L = (8 * n) & ((1 << (8 * lenb)) - 1)
    k = (-(len(pend) + 1 + lenb)) % blk
    data = list(pend) + [0x80] + [0] * k + word_bytes_be(L, 8 * lenb)
    assert len(data) in (blk, 2 * blk)
    h = list(h)
    for i in range(0, len(data), blk):
        h = compress(w, h, data[i:i + blk])
    out = []
    for x in h:
        out += word_bytes_be(x, w)
    return out[:dl]


def blake2s_init(outlen, key=()):
    """RFC 7693 3.3 initialisation as an abstract state (h, pend, t)"""
    kk = len(key)
    h = list(BLAKE2S_IV)
    h[0] = h[0] ^ 0x01010000 ^ (kk << 8) ^ outlen
    if kk:
        return h, list(key) + [0] * (64 - kk), 64
    return h, [], 0


def blake2s_pending(t):
    """number of pending bytes of a BLAKE2s stream that has seen t bytes"""
    return 0 if t == 0 else ((t - 1) % 64) + 1


def blake2s_step_update(h, pend, t, data, F=None):
    """all blocks of pend || data except the last (possibly complete) one are compressed with
    the offset counter = number of bytes up to and including that block, flag clear"""
    F = F or blake2s_F
    assert len(pend) <= 64
    buf = list(pend) + list(data)
    h = list(h)
    done = _cadd(t, -len(pend), 64)          # bytes already compressed
    off = 0
    while len(buf) - off > 64:
        off += 64
        h = F(h, buf[off - 64:off], _cadd(done, off, 64), 0)
    return h, buf[off:], _cadd(t, len(data), 64)


def blake2s_step_final(h, pend, t, outlen, F=None):
    """the pending bytes, zero-padded, are the last block: counter = total byte count, flag set"""
    F = F or blake2s_F
    assert len(pend) <= 64
    h = F(list(h), list(pend) + [0] * (64 - len(pend)), t, 1)
    out = []
    for x in h:
        out += word_bytes_le(x, 32)
    return out[:outlen]


def _xor_byte(S, p, b):
    S[p >> 3] = T.t_xor(S[p >> 3], T.t_shl(T.t_zext(b, 64), 8 * (p & 7), 64), 64)


def sponge_step_absorb(rate, S, p, data, f=None):
    """FIPS 202 algorithm 8 step 6, one byte at a time, from a partially absorbed block"""
    f = f or keccak_f
    assert 0 <= p < rate
    S = list(S)
    for b in data:
        _xor_byte(S, p, b)
        p += 1
        if p == rate:
            S = f(S)
            p = 0
    return S, p


def sponge_step_pad(rate, suffix, S, p):
    """suffix bits and pad10*1 XORed into the current block (before the permutation)"""
    assert 0 <= p < rate
    S = list(S)
    _xor_byte(S, p, suffix)
    _xor_byte(S, rate - 1, 0x80)
    return S


def sponge_step_squeeze(rate, S, p, n, f=None):
    """n more output bytes from a squeezing state that already delivered p <= rate bytes of S"""
    f = f or keccak_f
    assert 0 <= p <= rate
    S = list(S)
    out = []
    for _ in range(n):
        if p == rate:
            S = f(S)
            p = 0
        out.append(T.t_extract(S[p >> 3], 8 * (p & 7), 8) if isinstance(S[p >> 3], T.Term) else (S[p >> 3] >> (8 * (p & 7))) & 0xFF)
        p += 1
    return out, S, p


def selftest_step():
    """the one-step forms, chained over random splits from the initial state, against hashlib;
    returns the number of comparisons"""
    import random
    r = random.Random(20261003)
    n = 0

    def splits(L):
        cuts = sorted(r.randint(0, L) for _ in range(r.randint(0, 4)))
        return [b - a for a, b in zip([0] + cuts, cuts + [L])]
    for name in SHA2:
        w = SHA2[name][0]
        for L in (0, 1, 2 * w - 1, 2 * w, 3 * w + 5, 4 * w, 4 * w + 1, 9 * w + 3):
            m = [r.getrandbits(8) for _ in range(L)]
            hl = hashlib_digest(name, m)
            if hl is None:
                continue
            h, pend, cnt, pos = list(sha2_iv(name)), [], 0, 0
            for c in splits(L):
                h, pend, cnt = sha2_step_update(w, h, pend, cnt, m[pos:pos + c])
                pos += c
            assert cnt == L and sha2_step_final(name, h, pend, cnt) == hl, (name, L)
            n += 1
    for L in (0, 1, 63, 64, 65, 128, 129, 300):
        for kl in (0, 7, 32):
            for ol in (1, 20, 32):
                m = [r.getrandbits(8) for _ in range(L)]
                k = [r.getrandbits(8) for _ in range(kl)]
                h, pend, t = blake2s_init(ol, k)
                pos = 0
                for c in splits(L):
                    h, pend, t = blake2s_step_update(h, pend, t, m[pos:pos + c])
                    assert len(pend) == blake2s_pending(t)
                    pos += c
                assert blake2s_step_final(h, pend, t, ol) == hashlib_digest("blake2s", m, ol, k), (L, kl, ol)
                n += 1
    # the counter really is 64 bits: a block compressed across 2^32 carries into the high word
    h0 = [r.getrandbits(32) for _ in range(8)]
    blk = [r.getrandbits(8) for _ in range(64)]
    h1, p1, t1 = blake2s_step_update(h0, blk, 0xFFFFFFC0 + 64, [1])
    assert t1 == 0x100000001 and p1 == [1] and h1 == blake2s_F(h0, blk, 0x100000000, 0)
    n += 1
    for name in SHA3:
        rate, suffix, dl = SHA3[name]
        for L in (0, 1, rate - 1, rate, rate + 1, 2 * rate + 7):
            m = [r.getrandbits(8) for _ in range(L)]
            S, p, pos = [0] * 25, 0, 0
            for c in splits(L):
                S, p = sponge_step_absorb(rate, S, p, m[pos:pos + c])
                pos += c
            S = sponge_step_pad(rate, suffix, S, p)
            ol = dl if dl is not None else rate + 40
            p2, got = rate, []
            for c in splits(ol):
                o, S, p2 = sponge_step_squeeze(rate, S, p2, c)
                got += o
            assert got == hashlib_digest(name, m, ol), (name, L)
            n += 1
    return n


def selftest():
    """the transcriptions on ints against hashlib and the standards' own
    examples; returns the number of comparisons.  Raises AssertionError."""
    import random
    r = random.Random(20260217)
    n = 0
    # constants (spot values printed in the standards)
    assert K256[0] == 0x428A2F98 and K256[63] == 0xC67178F2
    assert K512[0] == 0x428A2F98D728AE22 and K512[79] == 0x6C44198C4A475817
    assert IV256[0] == 0x6A09E667 and IV224[0] == 0xC1059ED8 and IV384[7] == 0x47B5481DBEFA4FA4
    assert sha2_iv("sha512_256")[0] == 0x22312194FC2BF72C and sha2_iv("sha512_224")[7] == 0x1112E6AD91D692A1
    assert KECCAK_RC[0] == 1 and KECCAK_RC[23] == 0x8000000080008008 and KECCAK_RC[2] == 0x800000000000808A
    assert KECCAK_RHO[1] == 1 and KECCAK_RHO[5] == 36 and KECCAK_RHO[24] == 14
    lens = {"sha2s": [0, 1, 3, 55, 56, 57, 63, 64, 65, 119, 120, 128, 200],
            "sha2b": [0, 1, 111, 112, 113, 127, 128, 129, 239, 240, 256, 300],
            "sha3": [0, 1, 71, 72, 73, 103, 104, 135, 136, 137, 143, 144, 167, 168, 169, 300]}
    for name in SHA2:
        for L in lens["sha2s" if SHA2[name][0] == 32 else "sha2b"]:
            m = [r.getrandbits(8) for _ in range(L)]
            hl = hashlib_digest(name, m)
            if hl is None:
                continue
            assert reference(name, m) == hl, (name, L)
            n += 1
    for name in SHA3:
        for L in lens["sha3"]:
            m = [r.getrandbits(8) for _ in range(L)]
            ol = None if SHA3[name][2] else r.choice([1, 32, 135, 136, 137, 168, 169, 400])
            assert reference(name, m, ol) == hashlib_digest(name, m, ol), (name, L)
            n += 1
    for L in [0, 1, 63, 64, 65, 127, 128, 129, 200]:
        for kl in (0, 1, 16, 31, 32):
            for ol in (1, 20, 32):
                m = [r.getrandbits(8) for _ in range(L)]
                k = [r.getrandbits(8) for _ in range(kl)]
                assert reference("blake2s", m, ol, k) == hashlib_digest("blake2s", m, ol, k), (L, kl, ol)
                n += 1
    # examples printed in the standards
    assert bytes(reference("sha256", b"abc")).hex() == \
        "ba7816bf8f01cfea414140de5dae2223b00361a396177a9cb410ff61f20015ad"
    assert bytes(reference("sha512_224", b"abc")).hex() == \
        "4634270f707b6a54daae7530460842e20e37ed265ceee9a43e8924aa"
    assert bytes(reference("sha512_256", b"abc")).hex() == \
        "53048e2681941ef99b2e29b76b4c7dabe4c2d0c634fc6d46e0e2f13107e7af23"
    assert bytes(reference("blake2s", b"abc")).hex() == \
        "508c5e8c327c14e2e1a72ba34eeb452f37458b209ed63a294d999b4c86675982"
    assert bytes(reference("sha3_256", b"")).hex() == \
        "a7ffc6f8bf1ed76651c14756a061d662f580ff4de43b49fa82d80a4b80f8434a"
    return n + 5
