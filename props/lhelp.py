"""Helpers shared by the engine-L property scripts."""
import random, time, zlib
from engines.llsym import terms as T
from engines.llsym.llexec import Executor, ExecError, PanicReached, SymbolicControl, Unsupported
from engines.llsym.intenc import IntEnc, Lin
from engines.llsym import prove as PR
from engines.llsym.smt import run_solver, parse_model, BVEmitter
from vlib.common import Obligation, SEED


class MachineryError(Exception):
    pass


def rng(*parts):
    return random.Random(SEED * 7919 + zlib.crc32("|".join(str(p) for p in parts).encode()))


def sym_run(built, drv, executor_setup=None, concrete=None):
    """symbolic run of a driver; every 'in' element and 'val' is a fresh
    variable unless given in `concrete` (param name -> list/int).
    returns (executor, ins, outs)"""
    ex = Executor(built.module)
    if executor_setup:
        executor_setup(ex)
    d = built.drivers[drv]
    ins, outs, args, outptr = {}, {}, [], {}
    concrete = concrete or {}
    for name, kind, eb, cnt in d.params:
        if kind == "in":
            if name in concrete:
                vs = list(concrete[name])
                ins[name] = vs
                args.append(ex.alloc_words(vs, eb, name))
            elif eb == 1 and cnt >= 8:
                # byte buffer backed by 64-bit word variables (+ tail bytes)
                nw = cnt // 8
                words = [T.var("%s_w%d" % (name, i), 64) for i in range(nw)]
                tail = [T.var("%s%d" % (name, i), 8) for i in range(8 * nw, cnt)]
                oid = ex.new_obj(cnt, name)
                for i, w in enumerate(words):
                    ex.mem[oid].cells[8 * i] = (8, w)
                for i, b in enumerate(tail):
                    ex.mem[oid].cells[8 * nw + i] = (1, b)
                from engines.llsym.llexec import Ptr as _Ptr
                args.append(_Ptr(oid, 0))
                ins[name] = [T.t_extract(words[i // 8], 8 * (i % 8), 8) for i in range(8 * nw)] + tail
                if not hasattr(ex, "in_wide"):
                    ex.in_wide = {}
                ex.in_wide[name] = [(w, 64) for w in words] + [(b, 8) for b in tail]
            else:
                vs = [T.var("%s%d" % (name, i), 8 * eb) for i in range(cnt)]
                ins[name] = vs
                args.append(ex.alloc_words(vs, eb, name))
        elif kind == "out":
            p = ex.alloc_uninit(eb * cnt, name)
            outptr[name] = (p, eb, cnt)
            args.append(p)
        else:
            v = concrete[name] if name in concrete else T.var(name, 8 * eb)
            ins[name] = v
            args.append(v)
    ex.run(drv, args)
    # byte buffers are first read as 64-bit little-endian words (reading bytes
    # splits the memory cells; whole words keep the integer encoding small)
    ex.wide = {}
    for name, (p, eb, cnt) in outptr.items():
        if eb == 1 and cnt % 8 == 0 and cnt:
            try:
                ex.wide[name] = ex.read_words(p, cnt // 8, 8)
            except ExecError:
                pass      # output not (fully) written on this path
    for name, (p, eb, cnt) in outptr.items():
        try:
            outs[name] = ex.read_words(p, cnt, eb)
        except ExecError:
            outs[name] = None
    return ex, ins, outs


def env_from_inputs(built, drv, inputs):
    env = {}
    d = built.drivers[drv]
    for name, kind, eb, cnt in d.params:
        if kind == "in":
            for i, w in enumerate(inputs[name]):
                env["%s%d" % (name, i)] = w
            if eb == 1 and cnt >= 8:
                for j in range(cnt // 8):
                    env["%s_w%d" % (name, j)] = int.from_bytes(bytes(inputs[name][8 * j:8 * j + 8]), "little")
        elif kind == "val":
            env[name] = inputs[name]
    return env


def wide_in_form(enc, ex, name, ins):
    """integer value (little-endian) of a byte-buffer input as a form"""
    w = getattr(ex, "in_wide", {}).get(name)
    if w is None:
        return word_form(enc, ins[name], 8)
    f = Lin(0)
    sh = 0
    for t, bits in w:
        f = f + enc.form(t)[0].scale(1 << sh)
        sh += bits
    return f


def validate(built, drv, outs, sampler, count=16):
    """DAG evaluated concretely == native driver, on `count` sampled inputs"""
    for it in range(count):
        inputs = sampler(it)
        env = env_from_inputs(built, drv, inputs)
        nat = built.native(drv, inputs)
        for name, terms in outs.items():
            got = T.evaluate(terms, env)
            if list(got) != list(nat[name]):
                raise MachineryError("translator validation failed for %s/%s on %r: dag=%r native=%r"
                                     % (drv, name, inputs, got, nat[name]))
    return count


def word_form(enc, terms, bits):
    f = Lin(0)
    for i, t in enumerate(terms):
        f = f + enc.form(t)[0].scale(1 << (bits * i))
    return f


def atom_samples(enc, built, drv, sampler, outs_check=None, count=48):
    envs = []
    for it in range(count):
        inputs = sampler(it)
        env = env_from_inputs(built, drv, inputs)
        try:
            ae = enc.eval_atoms(env)
        except AssertionError as e:
            raise MachineryError("integer encoder self-check failed for %s: %s" % (drv, e))
        if outs_check:
            for form, terms, bits in outs_check:
                vals = T.evaluate(terms, env)
                if form.eval(ae) != sum(v << (bits * i) for i, v in enumerate(vals)):
                    raise MachineryError("integer encoder value mismatch for %s" % drv)
        envs.append(ae)
    if envs:
        try:
            enc.validate_on(envs[0])
            enc.validate_on(envs[-1])
        except AssertionError as e:
            raise MachineryError("encoder validation failed for %s: %s" % (drv, e))
    return envs


def model_inputs(model, built, drv):
    d = built.drivers[drv]
    inputs = {}
    for name, kind, eb, cnt in d.params:
        if kind == "in":
            inputs[name] = [model.get("x_%s%d" % (name, i), model.get("%s%d" % (name, i), 0))
                            for i in range(cnt)]
            if eb == 1 and cnt >= 8:
                for j in range(cnt // 8):
                    w = model.get("x_%s_w%d" % (name, j), model.get("%s_w%d" % (name, j), 0))
                    inputs[name][8 * j:8 * j + 8] = list(int(w).to_bytes(8, "little"))
        elif kind == "val":
            inputs[name] = model.get("x_" + name, model.get(name, 0))
    return inputs


def hexl(v):
    return [hex(x) for x in v] if isinstance(v, (list, tuple)) else v


def decide(ob, enc, goal_smt, built, drv, native_ok, extra=(), timeout=60, hunt_sampler=None,
           key=None):
    """Prove goal under enc's constraints.  On `sat`, replay natively
    (native_ok(inputs) -> (bool, detail)); only a reproduced failure is a
    violation."""
    r = PR.prove(enc, goal_smt, extra=extra, timeout=timeout)
    if r.status == "proved":
        return ob.ok("z3-int", r.seconds, r.queries)
    if r.status == "refuted":
        inputs = model_inputs(r.model, built, drv)
        ok, detail = native_ok(inputs)
        if not ok:
            detail["key"] = key or ob.name
            detail["found_by"] = "z3-int model"
            return ob.fail(detail, "z3-int", r.seconds)
        # abstraction artefact: try exact products / boundary replay
        if hunt_sampler:
            for it in range(300):
                inputs = hunt_sampler(it)
                ok, detail = native_ok(inputs)
                if not ok:
                    detail["key"] = key or ob.name
                    detail["found_by"] = "boundary replay after abstract model"
                    return ob.fail(detail, "z3-int+replay", r.seconds)
        return ob.unknown("model does not reproduce natively (abstraction artefact)", "z3-int", r.seconds)
    if hunt_sampler:
        for it in range(300):
            inputs = hunt_sampler(it)
            ok, detail = native_ok(inputs)
            if not ok:
                detail["key"] = key or ob.name
                detail["found_by"] = "boundary replay after solver timeout"
                return ob.fail(detail, "replay", r.seconds)
    return ob.unknown("solver: %s" % r.info.get("reason"), "z3-int", r.seconds)


def bv_equal(ob, pairs, built, drv, native_ok, timeout=60, assumptions=(), key=None, solver="z3"):
    """pairs: list of (term_or_int, term_or_int, width) that must be equal
    for all inputs; decided by a BV solver unless syntactically identical."""
    t0 = time.time()
    diffs = []
    em = BVEmitter()
    for x, y, w in pairs:
        if x is y or (not isinstance(x, T.Term) and not isinstance(y, T.Term) and x == y):
            continue
        diffs.append("(distinct %s %s)" % (em.ref(x, w), em.ref(y, w)))
    if not diffs:
        return ob.ok("syntactic (hash-consed terms identical)", time.time() - t0, 0, syntactic=True)
    asr = [em.ref(a, 1) + "" for a in ()]
    script = em.script(list(assumptions) + ["(or %s)" % " ".join(diffs)] if len(diffs) > 1
                       else list(assumptions) + [diffs[0]])
    v, mod, dt = run_solver(script, solver, timeout)
    if v == "unsat":
        return ob.ok("%s-bv" % solver, time.time() - t0, 1)
    if v == "sat":
        inputs = model_inputs(parse_model(mod), built, drv)
        ok, detail = native_ok(inputs)
        if not ok:
            detail["key"] = key or ob.name
            detail["found_by"] = "%s-bv model" % solver
            return ob.fail(detail, "%s-bv" % solver, time.time() - t0)
        return ob.unknown("BV model does not reproduce natively", "%s-bv" % solver, time.time() - t0)
    return ob.unknown("solver: " + v, "%s-bv" % solver, time.time() - t0)


# ---------------------------------------------------------------------------
# path exploration (forking by re-execution with a decision list)

class Path:
    def __init__(self):
        self.conds = []      # (1-bit term, taken value)
        self.outcome = None  # 'ret' | 'panic' | 'error'
        self.info = None
        self.ins = None
        self.outs = None
        self.steps = 0


def _feasible(conds, timeout):
    """is the conjunction of (term == val) satisfiable?  returns 'sat'/'unsat'/'unknown', model"""
    em = BVEmitter()
    asr = ["(= %s %s)" % (em.ref(c, 1), "#b1" if v else "#b0") for c, v in conds]
    v, mod, dt = run_solver(em.script(asr), "z3", timeout)
    if v == "sat":
        return "sat", parse_model(mod)
    if v == "unsat":
        return "unsat", None
    return "unknown", None


def explore(built, drv, concrete=None, max_paths=48, feas_timeout=20, max_steps=20_000_000):
    """all paths of a driver whose branches may depend on symbolic data.
    Infeasible sides are pruned with the solver; 'unknown' sides are kept
    (they only matter if they end in a panic, which is then re-checked)."""
    work = [[]]
    paths = []
    nq = 0
    while work and len(paths) < max_paths:
        decisions = work.pop()
        path = Path()
        pos = [0]

        def policy(ex_, c, where, decisions=decisions, path=path, pos=pos):
            nonlocal nq
            i = pos[0]
            pos[0] += 1
            if i < len(decisions):
                path.conds.append((c, decisions[i]))
                return decisions[i]
            # new branch: which sides are feasible?
            sides = []
            for val in (1, 0):
                st, _ = _feasible(path.conds + [(c, val)], feas_timeout)
                nq += 1
                if st != "unsat":
                    sides.append(val)
            if not sides:
                raise ExecError("both sides of a branch infeasible at %s" % where)
            take = sides[0]
            if len(sides) == 2:
                work.append(decisions[:i] + [sides[1]])
            decisions.append(take)
            path.conds.append((c, take))
            return take

        def setup(ex_):
            ex_.branch_policy = policy
            ex_.max_steps = max_steps
        try:
            ex, ins, outs = sym_run(built, drv, executor_setup=setup, concrete=concrete)
            path.outcome, path.ins, path.outs, path.steps = "ret", ins, outs, ex.steps
        except PanicReached as e:
            path.outcome, path.info = "panic", {"callee": e.callee, "where": e.where}
        except SymbolicControl as e:
            path.outcome, path.info = "error", {"msg": str(e)}
        except ExecError as e:
            path.outcome, path.info = "error", {"msg": str(e)}
        paths.append(path)
    return paths, nq, bool(work)


def native_crashes(built, drv, inputs, timeout=60):
    """run the native driver in a child process; True if it aborts (panic)"""
    import json, subprocess, sys, glob, os
    so = glob.glob(os.path.join(built.scratch.target, "release", "deps", "libcrrl*.so"))[0]
    d = built.drivers[drv]
    code = r"""
import ctypes, json, sys
so, name, params, inputs = json.loads(sys.argv[1])
lib = ctypes.CDLL(so)
f = getattr(lib, name); f.restype = None
args = []
for n, kind, eb, cnt in params:
    cty = {1: ctypes.c_uint8, 2: ctypes.c_uint16, 4: ctypes.c_uint32, 8: ctypes.c_uint64}[eb]
    if kind == "in":
        args.append((cty * cnt)(*[int(v) for v in inputs[n]]))
    elif kind == "out":
        args.append((cty * cnt)())
    else:
        args.append(cty(int(inputs[n])))
f(*args)
print("RETURNED")
"""
    p = subprocess.run([sys.executable, "-c", code, json.dumps([so, drv, d.params, inputs])],
                       stdout=subprocess.PIPE, stderr=subprocess.PIPE, text=True, timeout=timeout)
    return "RETURNED" not in p.stdout, (p.stderr or "")[-400:]


# ---------------------------------------------------------------------------
# cut points located by simulation (word-level sweeping)

def discover_cuts(roots, envs, values, nlimbs, lb, prefix, timeout=20):
    """`values[e]` is an integer (per sample env e) expected to be held by the
    DAG in `nlimbs` limbs of `lb` bits (possibly packed into wider words).
    Returns (primaries, variables, mapping) where primaries[k] is the DAG
    term chosen as limb k, variables[k] a fresh variable standing for it and
    mapping {term id -> replacement over the variables} covers every node
    that the solver proves equal to a packing of the primaries."""
    memos = [T.evaluate_all(roots, e) for e in envs]
    nodes = T.topo(roots)
    bysig = {}
    for t in nodes:
        if t.op == "var":
            continue
        sig = tuple(m[t.id] for m in memos)
        bysig.setdefault(sig, []).append(t)
    M = (1 << lb) - 1
    prim = []
    for k in range(nlimbs):
        sig = tuple((v >> (lb * k)) & M for v in values)
        cands = [t for t in bysig.get(sig, []) if t.w >= lb]
        if not cands:
            return None
        cands.sort(key=lambda t: (t.w, t.id))
        prim.append(cands[0])
    vs = [T.var("%s%d" % (prefix, k), lb) for k in range(nlimbs)]
    mapping = {}
    nq = 0
    for i in range(nlimbs):
        for j in range(i, nlimbs):
            bits = lb * (j - i + 1)
            sig = tuple((v >> (lb * i)) & ((1 << bits) - 1) for v in values)
            for N in bysig.get(sig, []):
                if N.w < bits or N.id in mapping:
                    continue

                def pack(xs, w):
                    e = 0
                    for k, x in enumerate(xs):
                        xx = T.t_zext(T.t_trunc(x, lb) if (isinstance(x, T.Term) and x.w > lb) else x, w)
                        e = T.t_add(e, T.t_shl(xx, lb * k, w), w) if k else xx
                    return e
                if i == j and N is prim[i]:
                    mapping[N.id] = T.t_zext(vs[i], N.w)
                    continue
                Ep = pack(prim[i:j + 1], N.w)
                if Ep is N:
                    mapping[N.id] = pack(vs[i:j + 1], N.w)
                    continue
                # prove N == packing of the primaries (over-approximated cones, shared cut variables)
                ok = False
                for depth in (6, 12):
                    em = BVEmitter()
                    a, b = T.cut(N, depth), T.cut(Ep, depth)
                    if a is b:
                        ok = True
                        break
                    v, _, _ = run_solver(em.script(["(distinct %s %s)" % (em.ref(a, N.w), em.ref(b, N.w))],
                                                   get_model=False), "z3", timeout)
                    nq += 1
                    if v == "unsat":
                        ok = True
                        break
                if ok:
                    mapping[N.id] = pack(vs[i:j + 1], N.w)
    return prim, vs, mapping, nq


def status_word_exact(term, width=32, timeout=20):
    """is the term always 0 or all-ones?  Tries over-approximations first
    (deep sub-terms cut to fresh variables).  returns ('unsat'|'sat'|'unknown', model)"""
    from engines.llsym.smt import bvc
    if not isinstance(term, T.Term):
        return ("unsat" if term in (0, (1 << width) - 1) else "sat"), {}
    A1 = (1 << width) - 1
    for depth in (8, 16, 32):
        em0 = BVEmitter()
        sr0 = em0.ref(T.cut(term, depth), width)
        v0, _, _ = run_solver(em0.script(["(and (distinct %s %s) (distinct %s %s))"
                                          % (sr0, bvc(0, width), sr0, bvc(A1, width))], get_model=False),
                              "z3", timeout)
        if v0 == "unsat":
            return "unsat", None
    em = BVEmitter()
    sr = em.ref(term, width)
    v, mod, dt = run_solver(em.script(["(and (distinct %s %s) (distinct %s %s))"
                                       % (sr, bvc(0, width), sr, bvc(A1, width))]), "z3", timeout * 3)
    if v == "sat":
        return "sat", parse_model(mod)
    return ("unsat" if v == "unsat" else "unknown"), None
