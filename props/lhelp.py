"""Helpers shared by the engine-L property scripts."""
import random, time, zlib
from engines.llsym import terms as T
from engines.llsym.llexec import Executor, ExecError, PanicReached, SymbolicControl
from engines.llsym.intenc import IntEnc, Lin
from engines.llsym import prove as PR
from engines.llsym.smt import run_solver, parse_model, BVEmitter
from vlib.common import Obligation, SEED


class MachineryError(Exception):
    pass


def rng(*parts):
    return random.Random(SEED * 7919 + zlib.crc32("|".join(str(p) for p in parts).encode()))


def sym_run(built, drv, executor_setup=None, concrete=None):
    """symbolic run of a driver; every 'in' element and 'val' is a fresh
    variable unless given in `concrete` (param name -> list/int).
    returns (executor, ins, outs)"""
    ex = Executor(built.module)
    if executor_setup:
        executor_setup(ex)
    d = built.drivers[drv]
    ins, outs, args, outptr = {}, {}, [], {}
    concrete = concrete or {}
    for name, kind, eb, cnt in d.params:
        if kind == "in":
            if name in concrete:
                vs = list(concrete[name])
                ins[name] = vs
                args.append(ex.alloc_words(vs, eb, name))
            elif eb == 1 and cnt >= 8:
                # byte buffer backed by 64-bit word variables (+ tail bytes)
                nw = cnt // 8
                words = [T.var("%s_w%d" % (name, i), 64) for i in range(nw)]
                tail = [T.var("%s%d" % (name, i), 8) for i in range(8 * nw, cnt)]
                oid = ex.new_obj(cnt, name)
                for i, w in enumerate(words):
                    ex.mem[oid].cells[8 * i] = (8, w)
                for i, b in enumerate(tail):
                    ex.mem[oid].cells[8 * nw + i] = (1, b)
                from engines.llsym.llexec import Ptr as _Ptr
                args.append(_Ptr(oid, 0))
                ins[name] = [T.t_extract(words[i // 8], 8 * (i % 8), 8) for i in range(8 * nw)] + tail
                if not hasattr(ex, "in_wide"):
                    ex.in_wide = {}
                ex.in_wide[name] = [(w, 64) for w in words] + [(b, 8) for b in tail]
            else:
                vs = [T.var("%s%d" % (name, i), 8 * eb) for i in range(cnt)]
                ins[name] = vs
                args.append(ex.alloc_words(vs, eb, name))
        elif kind == "out":
            p = ex.alloc_uninit(eb * cnt, name)
            outptr[name] = (p, eb, cnt)
            args.append(p)
        else:
            v = concrete[name] if name in concrete else T.var(name, 8 * eb)
            ins[name] = v
            args.append(v)
    ex.run(drv, args)
    # byte buffers are first read as 64-bit little-endian words (reading bytes
    # splits the memory cells; whole words keep the integer encoding small)
    ex.wide = {}
    for name, (p, eb, cnt) in outptr.items():
        if eb == 1 and cnt % 8 == 0 and cnt:
            ex.wide[name] = ex.read_words(p, cnt // 8, 8)
    for name, (p, eb, cnt) in outptr.items():
        outs[name] = ex.read_words(p, cnt, eb)
    return ex, ins, outs


def env_from_inputs(built, drv, inputs):
    env = {}
    d = built.drivers[drv]
    for name, kind, eb, cnt in d.params:
        if kind == "in":
            for i, w in enumerate(inputs[name]):
                env["%s%d" % (name, i)] = w
            if eb == 1 and cnt >= 8:
                for j in range(cnt // 8):
                    env["%s_w%d" % (name, j)] = int.from_bytes(bytes(inputs[name][8 * j:8 * j + 8]), "little")
        elif kind == "val":
            env[name] = inputs[name]
    return env


def wide_in_form(enc, ex, name, ins):
    """integer value (little-endian) of a byte-buffer input as a form"""
    w = getattr(ex, "in_wide", {}).get(name)
    if w is None:
        return word_form(enc, ins[name], 8)
    f = Lin(0)
    sh = 0
    for t, bits in w:
        f = f + enc.form(t)[0].scale(1 << sh)
        sh += bits
    return f


def validate(built, drv, outs, sampler, count=16):
    """DAG evaluated concretely == native driver, on `count` sampled inputs"""
    for it in range(count):
        inputs = sampler(it)
        env = env_from_inputs(built, drv, inputs)
        nat = built.native(drv, inputs)
        for name, terms in outs.items():
            got = T.evaluate(terms, env)
            if list(got) != list(nat[name]):
                raise MachineryError("translator validation failed for %s/%s on %r: dag=%r native=%r"
                                     % (drv, name, inputs, got, nat[name]))
    return count


def word_form(enc, terms, bits):
    f = Lin(0)
    for i, t in enumerate(terms):
        f = f + enc.form(t)[0].scale(1 << (bits * i))
    return f


def atom_samples(enc, built, drv, sampler, outs_check=None, count=48):
    envs = []
    for it in range(count):
        inputs = sampler(it)
        env = env_from_inputs(built, drv, inputs)
        try:
            ae = enc.eval_atoms(env)
        except AssertionError as e:
            raise MachineryError("integer encoder self-check failed for %s: %s" % (drv, e))
        if outs_check:
            for form, terms, bits in outs_check:
                vals = T.evaluate(terms, env)
                if form.eval(ae) != sum(v << (bits * i) for i, v in enumerate(vals)):
                    raise MachineryError("integer encoder value mismatch for %s" % drv)
        envs.append(ae)
    if envs:
        try:
            enc.validate_on(envs[0])
            enc.validate_on(envs[-1])
        except AssertionError as e:
            raise MachineryError("encoder validation failed for %s: %s" % (drv, e))
    return envs


def model_inputs(model, built, drv):
    d = built.drivers[drv]
    inputs = {}
    for name, kind, eb, cnt in d.params:
        if kind == "in":
            inputs[name] = [model.get("x_%s%d" % (name, i), model.get("%s%d" % (name, i), 0))
                            for i in range(cnt)]
            if eb == 1 and cnt >= 8:
                for j in range(cnt // 8):
                    w = model.get("x_%s_w%d" % (name, j), model.get("%s_w%d" % (name, j), 0))
                    inputs[name][8 * j:8 * j + 8] = list(int(w).to_bytes(8, "little"))
        elif kind == "val":
            inputs[name] = model.get("x_" + name, model.get(name, 0))
    return inputs


def hexl(v):
    return [hex(x) for x in v] if isinstance(v, (list, tuple)) else v


def decide(ob, enc, goal_smt, built, drv, native_ok, extra=(), timeout=60, hunt_sampler=None,
           key=None):
    """Prove goal under enc's constraints.  On `sat`, replay natively
    (native_ok(inputs) -> (bool, detail)); only a reproduced failure is a
    violation."""
    r = PR.prove(enc, goal_smt, extra=extra, timeout=timeout)
    if r.status == "proved":
        return ob.ok("z3-int", r.seconds, r.queries)
    if r.status == "refuted":
        inputs = model_inputs(r.model, built, drv)
        ok, detail = native_ok(inputs)
        if not ok:
            detail["key"] = key or ob.name
            detail["found_by"] = "z3-int model"
            return ob.fail(detail, "z3-int", r.seconds)
        # abstraction artefact: try exact products / boundary replay
        if hunt_sampler:
            for it in range(300):
                inputs = hunt_sampler(it)
                ok, detail = native_ok(inputs)
                if not ok:
                    detail["key"] = key or ob.name
                    detail["found_by"] = "boundary replay after abstract model"
                    return ob.fail(detail, "z3-int+replay", r.seconds)
        return ob.unknown("model does not reproduce natively (abstraction artefact)", "z3-int", r.seconds)
    if hunt_sampler:
        for it in range(300):
            inputs = hunt_sampler(it)
            ok, detail = native_ok(inputs)
            if not ok:
                detail["key"] = key or ob.name
                detail["found_by"] = "boundary replay after solver timeout"
                return ob.fail(detail, "replay", r.seconds)
    return ob.unknown("solver: %s" % r.info.get("reason"), "z3-int", r.seconds)


def bv_equal(ob, pairs, built, drv, native_ok, timeout=60, assumptions=(), key=None, solver="z3"):
    """pairs: list of (term_or_int, term_or_int, width) that must be equal
    for all inputs; decided by a BV solver unless syntactically identical."""
    t0 = time.time()
    diffs = []
    em = BVEmitter()
    for x, y, w in pairs:
        if x is y or (not isinstance(x, T.Term) and not isinstance(y, T.Term) and x == y):
            continue
        diffs.append("(distinct %s %s)" % (em.ref(x, w), em.ref(y, w)))
    if not diffs:
        return ob.ok("syntactic (hash-consed terms identical)", time.time() - t0, 0, syntactic=True)
    asr = [em.ref(a, 1) + "" for a in ()]
    script = em.script(list(assumptions) + ["(or %s)" % " ".join(diffs)] if len(diffs) > 1
                       else list(assumptions) + [diffs[0]])
    v, mod, dt = run_solver(script, solver, timeout)
    if v == "unsat":
        return ob.ok("%s-bv" % solver, time.time() - t0, 1)
    if v == "sat":
        inputs = model_inputs(parse_model(mod), built, drv)
        ok, detail = native_ok(inputs)
        if not ok:
            detail["key"] = key or ob.name
            detail["found_by"] = "%s-bv model" % solver
            return ob.fail(detail, "%s-bv" % solver, time.time() - t0)
        return ob.unknown("BV model does not reproduce natively", "%s-bv" % solver, time.time() - t0)
    return ob.unknown("solver: " + v, "%s-bv" % solver, time.time() - t0)
