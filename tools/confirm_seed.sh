#!/bin/bash
# usage: confirm_seed.sh <dir with patch.diff demo.rs meta.json> <dest id>
# Confirms in a scratch worktree of /repo: pristine+demo passes; mutated full suite passes; mutated+demo fails.
# On success copies the material to /verif/seeded/<dest id>/ and appends what was run to meta.json.
set -u
SRC=$1; ID=$2
WT=$(mktemp -d /tmp/mut/wt_XXXXXX)
rmdir "$WT"
git -C /repo worktree add -q --detach "$WT" HEAD || exit 9
cleanup() { git -C /repo worktree remove --force "$WT" 2>/dev/null; rm -rf "$WT"; }
trap cleanup EXIT
cd "$WT"
export CARGO_TARGET_DIR=/tmp/mut/seed_target
mkdir -p tests; cp "$SRC/demo.rs" tests/seed_demo.rs
A=$(cargo test --offline --test seed_demo 2>&1 | grep "test result" | tail -1)
echo "pristine+demo: $A"
git apply "$SRC/patch.diff" || { echo "PATCH DOES NOT APPLY"; exit 2; }
B=$(cargo test --offline --lib 2>&1 | grep "test result" | tail -1)
echo "mutated suite: $B"
C=$(cargo test --offline --test seed_demo 2>&1 | grep "test result" | tail -1)
echo "mutated+demo: $C"
ok=1
echo "$A" | grep -q "ok\." || ok=0
echo "$B" | grep -q "ok. 120 passed; 0 failed" || ok=0
echo "$C" | grep -q "FAILED" || ok=0
if [ $ok = 1 ]; then
  mkdir -p /verif/seeded/$ID
  cp "$SRC/patch.diff" "$SRC/demo.rs" /verif/seeded/$ID/
  python3 - "$SRC/meta.json" /verif/seeded/$ID/meta.json "$A" "$B" "$C" <<'PY'
import json,sys
m=json.load(open(sys.argv[1]))
m["confirmed"]={"worktree":"git worktree of /repo HEAD under /tmp/mut (removed afterwards)",
  "pristine_plus_demo":sys.argv[3],"mutated_full_suite":sys.argv[4],"mutated_plus_demo":sys.argv[5],
  "commands":["cargo test --offline --test seed_demo (pristine)","git apply patch.diff","cargo test --offline --lib","cargo test --offline --test seed_demo"]}
json.dump(m,open(sys.argv[2],"w"),indent=1)
PY
  echo "CONFIRMED $ID"
else
  echo "NOT CONFIRMED $ID"
fi
