#!/usr/local/bin/python3-vt
"""runs the registered checks against every seeded change under /verif/seeded and records which checks
catch it (in seeded/<id>/meta.json -> detected_by, and seeded/MATRIX.md).  Uses a private copy of /repo."""
import json, os, subprocess, sys, glob, re
V = "/verif"
# seeded id -> list of (check id, extra args) to try, in order
PLAN = {
 "C01_m1": [("C01", ["--only", "gf25519"])], "C01_m2": [("C01", ["--only", "scsecp256k1"])],
 "C01_m3": [("C01", ["--only", "gfsecp256k1"])], "C01_m4": [("C01", ["--only", "gf448"])],
 "C05_m1": [("C05", ["--only", "bin"])], "C05_m2": [("C05", ["--only", "gf448"])],
 "C05_m3": [("C05", ["--only", "gfgen256"])], "C05_m4": [("C05", ["--only", "gfsecp256k1"])],
 "C16_m1": [("C16", [])], "C16_m2": [("C16", [])], "C16_m3": [("C16", [])],
 "C20_m1": [("C20", ["--only", "lookup"])], "C20_m2": [("C03", []), ("C06", ["--only", "ristretto255"])],
 "C20_m3": [("C03", []), ("C06", ["--only", "decaf448"])], "C20_m4": [("C20", ["--only", "ed25519"])],
 "C07_m1": [("C06", ["--only", "ed25519"])], "C07_m2": [("C07", ["--only", "ed25519"])],
 "C07_m3": [("C07", ["--only", "ed448"])], "C07_m4": [("C06", ["--only", "ed448"])],
 "C08_m1": [("C08", ["--only", "p256"])], "C08_m2": [("C08", ["--only", "secp256k1"])],
 "C08_m3": [("C11", ["--only", "theta"])], "C08_m4": [("C08", ["--only", "p256"])],
 "C09_m1": [("C09", ["--only", "jq255e"])], "C09_m2": [("C09", ["--only", "gls254"])],
 "C09_m3": [("C09", ["--only", "jq255s"])], "C09_m4": [("C09", ["--only", "jq255e"])],
 "C02_m1": [("C02", ["--only", "drv_ct_jq255e_ecdh"])], "C02_m2": [("C02", ["--only", "gf25519"])],
 "C02_m3": [("C02", ["--only", "p256"])], "C02_m4": [("C02", ["--only", "ed25519"])],
 "C04_m1": [("C11", ["--only", "zz"])], "C04_m2": [("C11", ["--only", "zz"])],
 "C04_m3": [("C11", ["--only", "theta"])], "C04_m4": [("C11", ["--only", "zz"])],
 "C06_m1": [("C06", ["--only", "ristretto255"])], "C06_m2": [("C06", ["--only", "ed25519"])],
 "C06_m3": [("C06", ["--only", "p256"])], "C06_m4": [("C06", ["--only", "ed448"])],
 "C10_m1": [("C10", [])], "C10_m2": [("C10", [])], "C10_m3": [("C10", [])], "C10_m4": [("C10", [])],
 "C12_m1": [("C12", [])], "C12_m2": [("C12", []), ("C01", ["--only", "gf448"])], "C12_m3": [("C12", []), ("C02", ["--only", "gf25519"])],
 "C12_m4": [("C12", [])],
 "C19_m1": [("C06", ["--only", "ed448"]), ("C19", ["--only", "ed448"])], "C19_m2": [("C06", ["--only", "secp256k1"]), ("C19", ["--only", "secp256k1"])],
 "C19_m3": [("C15", []), ("C19", ["--only", "frost"])], "C19_m4": [("C08", ["--only", "p256"]), ("C19", ["--only", "p256"])],
 "C03_m1": [("C03", [])], "C03_m2": [("C03", [])], "C03_m3": [("C03", []), ("C20", ["--only", "ed25519"])], "C03_m4": [("C03", [])],
 "C13_m1": [("C13", [])], "C13_m2": [("C13", [])], "C13_m3": [("C13", [])], "C13_m4": [("C13", [])],
 "C14_m1": [("C14", [])], "C14_m2": [("C01", ["--only", "gf448"]), ("C14", [])], "C14_m3": [("C14", [])], "C14_m4": [("C14", [])],
 "C15_m1": [("C06", ["--only", "ed448"])], "C15_m2": [("C06", ["--only", "p256"])], "C15_m3": [("C06", ["--only", "secp256k1"])],
 "C15_m4": [("C06", ["--only", "ristretto255"])],
 "C17_m1": [("C17", [])], "C17_m2": [("C17", [])], "C17_m3": [("C17", [])], "C17_m4": [("C17", [])],
 "C18_m1": [("C11", ["--only", "zz"])], "C18_m2": [("C11", ["--only", "zz"])], "C18_m3": [("C08", ["--only", "p256"])],
 "C18_m4": [("C09", ["--only", "jq255s"])],
 "C10_m1": [("C10", [])],
 "C08s_m1": [("C08", ["--only", "p256"])], "C08s_m2": [("C08", ["--only", "secp256k1"])], "C08s_m3": [("C08", ["--only", "key"])],
 "C08s_m4": [("C08", ["--only", "p256"])],
 "C09s_m1": [("C11", ["--only", "zz"])], "C09s_m2": [("C11", ["--only", "zz"])], "C09s_m3": [("C09", ["--only", "jq255s"])], "C09s_m4": [("C09", ["--only", "gls254"])],
 "C17_m1": [("C17", ["--only", "step"])],
 "C03r_m1": [("C03", [])], "C03r_m2": [("C03", [])], "C03r_m3": [("C03", [])], "C03r_m4": [("C03", [])],
 "C06r_m1": [("C06", ["--only", "secp256k1"])], "C06r_m2": [("C06", ["--only", "p256"])], "C06r_m3": [("C05", ["--only", "gf448"]), ("C06", ["--only", "decaf448"])],
 "C06r_m4": [("C06", ["--only", "decaf448"])],
 "C10r_m1": [("C10", [])], "C10r_m2": [("C10", [])], "C10r_m3": [("C10", ["--only", "helper"])],
 "C19r_m1": [("C06", ["--only", "ed25519"])], "C19r_m2": [("C10", []), ("C19", ["--only", "jq255s"])], "C19r_m3": [("C08", ["--only", "secp256k1"])],
 "C19r_m4": [("C19", [])],
 "C20r_m1": [("C20", ["--only", "jq255s"])], "C20r_m2": [("C20", ["--only", "gfsecp256k1"])], "C20r_m3": [("C20", ["--only", "lookup"]), ("C20", [])],
 "C20r_m4": [("C20", ["--only", "sc448"])],
 "C01r_m1": [("C01", [])], "C01r_m2": [("C01", ["--only", "gf25519"])], "C01r_m3": [("C01", ["--only", "gfsecp256k1"])],
 "C01r_m4": [("C01", ["--only", "gf448"])],
 "C04r_m1": [("C11", ["--only", "zz"])], "C04r_m2": [("C03", [])], "C04r_m3": [("C11", ["--only", "secp256k1.split_theta"])], "C04r_m4": [("C03", [])],
 "C05r_m1": [("C05", ["--only", "scsecp256k1"]), ("C05", ["--only", "sc25519"])], "C05r_m2": [("C05", ["--only", "gf448"])],
 "C05r_m3": [("C05", ["--only", "gf25519"])], "C05r_m4": [("C05", ["--only", "gfsecp256k1"])],
 "C12r_m1": [("C01", ["--only", "gfsecp256k1"]), ("C12", [])], "C12r_m2": [("C12", ["--only", "lin"])], "C12r_m3": [("C12", ["--only", "lin"])], "C12r_m4": [("C12", ["--only", "batch"])],
 "C15r_m1": [("C06", ["--only", "p256"])], "C15r_m2": [("C10", [])], "C15r_m3": [("C06", ["--only", "ed448"])], "C15r_m4": [("C11", ["--only", "secp256k1.split_theta"])],
 "C16r_m1": [("C16", [])], "C16r_m2": [("C16", [])], "C16r_m3": [("C16", ["--only", "corpus"])], "C16r_m4": [("C16", ["--only", "corpus"])],
 "C18r_m1": [("C11", ["--only", "zz"])], "C18r_m2": [("C01", ["--only", "gf25519"])], "C18r_m3": [("C01", ["--only", "gfsecp256k1"])],
 "C18r_m4": [("C06", ["--only", "ed448"])],
 "C07s_m1": [("C07", ["--only", "sign"])], "C07s_m2": [("C07", ["--only", "sign"])], "C07s_m3": [("C07", ["--only", "sign"])],
 "C07s_m4": [("C07", ["--only", "sign"])], "C07s_m5": [("C17", []), ("C07", ["--only", "sign"])],
 "C11_m1": [("C11", ["--only", "zz"])], "C11_m2": [("C11", ["--only", "theta"])],
 "C11_m3": [("C11", ["--only", "split"]), ("C11", ["--only", "kani"])], "C11_m4": [("C11", ["--only", "kani"]), ("C11", ["--only", "split"])],
}
only = sys.argv[1:]
for sd in sorted(glob.glob(os.path.join(V, "seeded", "*_m*"))):
    sid = os.path.basename(sd)
    if only and sid not in only:
        continue
    if only == ["--table"]:
        break
    plan = PLAN.get(sid, [(sid.split("_")[0], [])])
    meta = json.load(open(os.path.join(sd, "meta.json")))
    det = []
    for cid, args in plan:
        p = subprocess.run([os.path.join(V, "tools", "mut_test.sh"), os.path.join(sd, "patch.diff"), cid] + args,
                           stdout=subprocess.PIPE, stderr=subprocess.STDOUT, text=True)
        out = p.stdout
        viol = len(re.findall(r"^VIOLATION", out, re.M))
        inc = len(re.findall(r"^INCONCLUSIVE", out, re.M))
        m = re.search(r"exit=(\d+)", out)
        rc = int(m.group(1)) if m else -1
        verdict = "VIOLATION" if rc == 1 and viol else ("inconclusive only" if inc else ("machinery" if rc == 3 else "missed"))
        det.append({"check": cid, "args": " ".join(args), "verdict": verdict, "violations": viol, "inconclusive": inc})
        print(sid, cid, " ".join(args), verdict, flush=True)
        if verdict == "VIOLATION":
            break
    meta["detected_by"] = det
    json.dump(meta, open(os.path.join(sd, "meta.json"), "w"), indent=1)
# the table is always regenerated from the meta.json files
rows = []
for sd in sorted(glob.glob(os.path.join(V, "seeded", "*_m*"))):
    meta = json.load(open(os.path.join(sd, "meta.json")))
    rows.append((os.path.basename(sd), meta.get("file", ""), meta.get("function", ""), meta.get("what", "")[:140], meta.get("detected_by", [])))
with open(os.path.join(V, "seeded", "MATRIX.md"), "w") as fh:
    fh.write("# Seeded changes and the checks that catch them\n\nEach change compiles, passes the 120 existing tests, and breaks the property (demo.rs fails on it).\n"
             "`VIOLATION` = the check exits 1 with a natively reproduced counterexample; `inconclusive only` = the check notices "
             "(an obligation no longer closes) but cannot produce a witness, exit 0; `missed` = not noticed.\n\n"
             "| id | file / function | change | result |\n|---|---|---|---|\n")
    for sid, f, fn, what, det in rows:
        res = "; ".join("%s %s: **%s**" % (d["check"], d["args"], d["verdict"]) for d in det) or "not run yet"
        fh.write("| %s | %s `%s` | %s | %s |\n" % (sid, f, fn, what.replace("|", "/").replace("\n", " "), res))
    caught = sum(1 for r in rows if any(d["verdict"] == "VIOLATION" for d in r[4]))
    fh.write("\n%d of %d seeded changes are reported as violations by a registered check (quick tier unless the row says `--tier thorough`).\n" % (caught, len(rows)))
