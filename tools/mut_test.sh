#!/bin/bash
# usage: mut_test.sh <patch.diff> <check id> [extra args...]  -- applies patch to /repo, runs check, reverts
set -u
PATCH=$1; shift
ID=$1; shift
cd /repo || exit 9
if ! git diff --quiet; then echo "repo dirty, abort"; exit 9; fi
git apply "$PATCH" || { echo "patch does not apply"; exit 9; }
trap 'git -C /repo checkout -- . ' EXIT
cd /verif
VERIF_NO_EVIDENCE=1 bin/check "$ID" "$@" 2>&1 | grep -E "VIOLATION|SUMMARY|KNOWN|MACHINERY|INCONCLUSIVE" | cut -c1-260
echo "exit=${PIPESTATUS[0]}"
