#!/bin/bash
# usage: mut_test.sh <patch.diff> <check id> [extra args...]
# applies the patch to a private copy of /repo (so that concurrently running checks are not
# disturbed), runs the check against it via VERIF_REPO, removes the copy.
set -u
PATCH=$1; shift
ID=$1; shift
D=$(mktemp -d /tmp/mut/repo_XXXXXX)
trap 'rm -rf "$D"' EXIT
rsync -a --exclude target --exclude .git /repo/ "$D/"
( cd "$D" && git init -q . 2>/dev/null && git apply "$PATCH" ) || { echo "patch does not apply"; exit 9; }
cd /verif
VERIF_REPO="$D" VERIF_EVIDENCE_DIR=/tmp/mut/ev timeout ${MUT_TIMEOUT:-1500} bin/check "$ID" "$@" 2>&1 | grep -E "VIOLATION|SUMMARY|KNOWN|MACHINERY|INCONCLUSIVE" | cut -c1-260
echo "exit=${PIPESTATUS[0]}"
