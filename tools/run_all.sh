#!/bin/bash
# runs every registered quick check sequentially; prints one summary line each
cd "$(dirname "$0")/.."
IDS=${ORDER:-$(python3 -c "import json;print(' '.join(c['property_id'] for c in json.load(open('MANIFEST.json'))['checks']))")}
for id in $IDS; do
  s=$(date +%s)
  out=$(bin/check $id --tier ${1:-quick} 2>&1)
  rc=$?
  e=$(date +%s)
  echo "$id rc=$rc $((e-s))s $(echo "$out" | grep SUMMARY | cut -c1-150)"
  echo "$out" | grep -E "^VIOLATION|^INCONCLUSIVE|^MACHINERY|^KNOWN" | cut -c1-200 | head -5
done
