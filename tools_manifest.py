#!/usr/local/bin/python3-vt
"""regenerates MANIFEST.json from the table below (keeps it schema-valid)"""
import json, os
V = os.path.dirname(os.path.abspath(__file__))
props = [json.loads(l) for l in open(os.path.join(V, "properties.jsonl"))]
ids = [p["id"] for p in props]

CLAIMED = {
    "C01": dict(
        engine="llsym",
        technique="symbolic execution of optimized LLVM IR; LIA encoding with solver-proved carry lemmas; z3",
        category="model_checking",
        text=("Every field operation of the default 64-bit backend is executed symbolically from the "
              "optimized LLVM IR of the current tree with all raw limbs symbolic; z3 decides, for all "
              "limb patterns, that the result represents spec(a,b) mod q and stays an admissible "
              "representation. Bounded only in xsquare count and in the set of types per tier."),
        design_ref="DESIGN.md 3 C01, 8",
        note=("Trusted: llsym's IR semantics (validated against the native build on every run), the "
              "moduli/representation table in props/fields.py, abstract partial products as a sound "
              "over-approximation. Montgomery squarings and a few multiplications have no symbolic certificate within budget "
              "(listed in evidence); for those a native closed-case corpus of limb patterns is replayed and reported as ground facts."),
    ),
    "C03": dict(
        engine="polyid",
        technique="symbolic execution of rustc MIR over an abstract commutative ring; polynomial identities decided by z3 (NIA) with sympy cofactor certificates; native replay",
        category="model_checking",
        text=("The point-formula functions of all nine groups are executed from the MIR of the current tree over an "
              "abstract ring with free projective scalings; z3 decides that outputs satisfy the curve equation and "
              "equal the affine group law in the generic, P=Q, P=-Q, neutral and low-order cases. Unbounded in the "
              "operands (identities over Z[x]); bounded in xdouble/mul_small counts."),
        design_ref="DESIGN.md 2.3, 3 C03; engines/polyid/NOTES.md",
        note=("Trusted: field operations meet C01 (abstract ring), published completeness/non-vanishing facts "
              "(d non-square, RCB completeness), sympy only as untrusted certificate generator; constants checked as ground facts."),
    ),
    "C05": dict(
        engine="llsym",
        technique="symbolic execution of optimized LLVM IR; LIA encoding; z3 decides status/value/canonicity for all byte strings per length",
        category="model_checking",
        text=("encode, strict decode_ct and decode_reduce of every prime-field/scalar type of the default backend are "
              "executed symbolically with all bytes/limbs symbolic at each length in the bound; z3 decides canonicity "
              "(< q), status-word exactness, zero-on-failure, length rejection and value congruence."),
        design_ref="DESIGN.md 3 C05, 8",
        note=("Lengths bounded (strict: 0,1,L-1,L,L+1,2L; reducing: up to 97 quick / 161 thorough). Montgomery strict-decode "
              "value obligation and long Montgomery reducing decodes are not posed (listed in evidence). Binary fields outside."),
    ),
    "C20": dict(
        engine="llsym",
        technique="symbolic execution of optimized LLVM IR; bit-vector equivalence queries (z3) with symbolic operands, tables and indices",
        category="model_checking",
        text=("set_cond/select/cswap of every field type and set_cond/select/set_condneg of the point types are executed "
              "symbolically with the control word constrained to {0, 0xFFFFFFFF}; iszero for all representations; "
              "GF255::lookup16_x3/x4 for all 2^32 indices and Point::lookup for every k in -16..16 over arbitrary tables; "
              "z3 decides bit-exact equality with the specification."),
        design_ref="DESIGN.md 3 C20, 8",
        note=("Conditional negation / signed lookups are compared with the library's own negation (C03 decides that it is the "
              "group negation); bitwise differences are replayed at the value level on valid points before being reported. "
              "AVX2 paths, GFb254 lookups and point equals/isneutral are outside (listed in evidence)."),
    ),
    "C02": dict(
        engine="llsym",
        technique="single-path symbolic execution of optimized LLVM IR with all secrets symbolic; every branch condition/address/length/divisor must fold to a constant or be proved secret-independent by z3",
        category="model_checking",
        text=("Constant-time entry points (all field operations incl. inversion, sqrt, Legendre, codecs; point add/double/"
              "encode; full scalar multiplications; X25519; Ed25519 key generation and signing; SHA-256) are executed from "
              "the -O3 IR with every secret byte symbolic; a non-constant control/address term triggers a two-value "
              "reachability query."),
        design_ref="DESIGN.md 3 C02, 8",
        note=("Level: optimized LLVM IR before instruction selection, default target features; public lengths fixed per "
              "driver. Micro-architectural timing and the x86 lowering of select are outside."),
    ),
    "C19": dict(
        engine="llsym",
        technique="path-forking symbolic execution of optimized LLVM IR with all input bytes symbolic; z3 prunes infeasible branches; panic calls and inexact status words are the violations; native crash replay",
        category="model_checking",
        text=("Every decoder (field, scalar, point, public key), ECDH with an arbitrary peer string, hash-to-curve / "
              "one-way maps and X25519 are executed from the -O3 IR at each length in the bound with all bytes symbolic; "
              "all feasible paths must return without reaching a panic routine or an out-of-bounds access, and status "
              "words must be exactly 0 or 0xFFFFFFFF (z3 on over-approximated cones)."),
        design_ref="DESIGN.md 3 C19, 8",
        note=("Lengths bounded (0, L-1, L, L+1; SEC1: 0,1,32,33,64,65,66). Variable-time verification functions and "
              "split_vartime are covered by engine K contributions where present (FROST, LMS, Lagrange); truncated "
              "verification is outside."),
    ),
    "C11": dict(
        engine="llsym+kani",
        technique="symbolic execution of optimized LLVM IR: constant-time splits (totality, sign words; z3) and ModInt256::split_vartime with the Lagrange routines as contract stubs (path forking; products located by sampled values and cut; staged lemmas for modular add/sub in LIA and normalisation/absolute value in BV; selection rule in BV); Kani/CBMC harnesses for the Lagrange reductions on bounded operands and the split_vartime glue",
        category="model_checking",
        text=("split_mu / split_theta / split_mu_odd are straight-line in the optimized IR for every scalar (no panic "
              "branch reachable) and their sign words are exact; eigenvalue relations are ground facts. "
              "ModInt256::split_vartime (p256 and ed25519 scalars in quick; four types in thorough): every path returns for all scalars and "
              "all stub results, fallback paths return the truncated generic reduction, and on the main path c1 = u1 and c0 is the low half "
              "of a candidate k*(u1 + b*2^128) that is within +/-2^128 or least in absolute value, the zero denominator excluded; a native "
              "corpus replays the inputs of the three repaired defects. Kani part: Lagrange reductions on bounded operands, glue, helpers. "
              "Constant-time splits: mul_divr_rounded of secp256k1, jq255e and GLS254 = floor((k*e + (r-1)/2)/r) for all k, e (staged cuts, LIA); "
              "for jq255e and GLS254 split_mu the whole contract k = k0 + k1*mu, |k0|, |k1| < 2^127 (quotient stubs, constants' identities, "
              "magnitude lemma, glue modulo 2^128); for secp256k1 split_theta the constants and the magnitude lemma; zz.rs helpers exact."),
        design_ref="DESIGN.md 3 C11, 8; engines/kani/NOTES_C11.md",
        note="Partial claim: the linear glue of secp256k1 split_theta, gls254 split_mu_odd's algebra and full-width Lagrange reduction are not posed; see evidence.outside_claim.",
    ),
    "C18": dict(
        engine="llsym",
        technique="the C01/C05/C20 obligation sets (symbolic execution of optimized LLVM IR; LIA/BV; z3) re-run on non-default build configurations against the same backend-independent specifications",
        category="model_checking",
        text=("For the w32_backend build (32-bit limbs on x86-64) and the +avx2 build, field operations, codecs, masked "
              "selects, zero tests and table lookups are decided equal to the same mathematical specification as the "
              "default backend for all inputs, which gives byte-identical encodings and status words across backends."),
        design_ref="DESIGN.md 3 C18, 8",
        note=("Only the obligations that close are posed (w32: linear field ops except sub, codecs except strict decode at "
              "the exact length, selects/zero tests; avx2: lookups/selects). gf255_m51, clmul binary fields and zz32 have no obligations yet."),
    ),
    "C12": dict(
        engine="llsym+polyid",
        technique="symbolic execution of optimized LLVM IR (LIA with abstract partial products, BV; staged cuts located by sampled values) for the GCD's linear-combination steps and the square-root tails; interpretation of rustc MIR over an abstract field with an uninterpreted inverse (z3 NIA + sympy cofactors, all zero patterns) for batch inversion",
        category="model_checking",
        text=("The two linear-algebra kernels of the division/Legendre binary GCD -- lin (u*f+v*g mod q) and "
              "lindiv31abs (|a*f+b*g|/2^31 with sign) -- are decided exact for all operands and update factors on "
              "three field backends. The end-to-end statement x/y*y=x needs the convergence theorem of the "
              "approximate GCD (eprint 2020/972) and is honestly outside a bounded solver check. batch_invert of five backends: result[i]*x[i] = 1 "
              "or result[i] = 0 for every zero pattern at slice lengths 0..4 (0..8 and sub-batch size + 1 thorough), inversion as an uninterpreted "
              "inverse. Square-root tails (GF255<19>, GF448, GFsecp256k1; three more thorough): for every candidate root the exponentiation may "
              "produce, normalisation, even-root selection, the squaring check, the status word and the returned value are as documented."),
        design_ref="DESIGN.md 3 C12, 8",
        note="Partial: step-level for division (plus a native closed-case corpus for x/y*y = x and the Legendre symbol); exponent-chain correctness of the square roots (completeness for squares), the Legendre value, ModInt256 scalar sqrt and binary fields are not posed.",
    ),
    "C08": dict(
        engine="llsym",
        technique="path-forking symbolic execution of optimized LLVM IR with contract stubs at cut-point functions (point/scalar decoding, division, double multiplication, point encoding); z3 decides path conditions, argument wiring and result; native replay against a reference ECDSA verifier",
        category="model_checking",
        text=("For all key/signature/hash bytes at the listed lengths, ECDSA verify_hash on P-256 and secp256k1 accepts "
              "exactly when the signature has even length, surplus leading bytes are zero, r and s strictly decode "
              "below n and are non-zero, and r equals x([h/s]G+[r/s]Q) mod n with h the big-endian first 32 hash bytes. "
              "sign_hash of both curves: h, the documented nonce (P-256: RFC 6979 HMAC-SHA-256 chain with the extra randomness in both "
              "keying steps; secp256k1: SHA-512(le(x) || le(h) || extra) mod n, 0 -> 1), R = mulgen(k), r, s = (h + x*r)/k, the output "
              "layout, the acceptance conditions and the documented next candidate on rejection."),
        design_ref="DESIGN.md 3 C08, 8",
        note="Glue only (stub contracts: C01/C04/C05/C06/C10/C12/C17). Retry loop of sign_hash bounded to its first iteration; that a produced signature verifies is not separately decided.",
    ),
    "C09": dict(
        engine="llsym",
        technique="path-forking symbolic execution of optimized LLVM IR with contract stubs (point decoding, double multiplication, point encoding, BLAKE2s compression as uninterpreted function); z3 decides; native replay through the library's signer and an independent BLAKE2s",
        category="model_checking",
        text=("For all key/signature/hash-name/data bytes at the listed lengths, jq255e and jq255s verify accepts exactly "
              "when the signature is 48 bytes, s is canonical and the first 16 bytes of BLAKE2s(encode([s]B-[c]Q) || pk || "
              "tag || data) equal c, with c the little-endian 128-bit multiplier; GLS254 likewise with c0 + c1*mu. Signing (deterministic, seeded, "
              "randomized) of the three groups: per-signature secret, R, challenge, response scalar and layout as documented, and the "
              "verifier run on the signer's output terms accepts (sign_then_verify). ECDH: both outcomes, key derivation inputs."),
        design_ref="DESIGN.md 3 C09, 8",
        note="Glue only (stub contracts: C04/C05/C06/C10/C17); the group identity [s]B - [c']Q = [k]B is an assumption of sign_then_verify. ECDH totality: C19, constant time: C02.",
    ),
    "C04": dict(
        engine="polyid",
        technique="symbolic execution of rustc MIR in algorithm mode over the free module (digits symbolic, group elements as linear forms); z3 decides coefficient identities; recoders decided for all scalars; precomputed tables as native ground facts",
        category="model_checking",
        text=("set_mul and set_mulgen of the curves in the tier are executed from MIR with the signed-digit recoder and the "
              "constant-time lookup replaced by their contracts; z3 decides that the result's coefficient is sum d_i 2^(w i) "
              "for all in-range digit vectors; the recoders' contracts are decided for all scalars; every precomputed table "
              "entry is checked natively."),
        design_ref="DESIGN.md 2.4, 3 C04; engines/polyid/NOTES.md",
        note="Abstract group operations are the group law by C03; lookups by C20. gls254::set_mul is not abstractable (listed).",
    ),
    "C10": dict(
        engine="polyid",
        technique="MIR algorithm mode: wNAF multi-scalar loops executed over the free module with symbolic digits, per-column lemmas decided by z3; wNAF recoders decided for all integers; native replay",
        category="model_checking",
        text=("The variable-time u*P+v*G routines (and 128-bit / mu variants in the thorough tier) equal the plain "
              "combination for all valid wNAF digit arrays (skipped zero columns, coalesced doublings and the neutral-"
              "accumulator flag are symbolic); the NAF recoders meet their contracts for all inputs. verify_helper_vartime of p256, ed25519, ed448 "
              "(and the secp256k1 / ristretto255 / decaf448 wrappers): from entry to the last recoder call every path has multipliers inside the "
              "recoders' domains, ss = s*C1, k*C1 = C0, C1 != 0 and no reachable panic (split_vartime by contract); from there to the return the "
              "digit loop satisfies V' = 2V + D_i on every path of every column and returns the neutral / low-order test of the accumulator."),
        design_ref="DESIGN.md 3 C10; engines/polyid/NOTES.md",
        note="split_vartime enters by contract (C11; for ed448 the magnitude bound 2^224 is assumed); has_low_order <=> cofactor*P = 0 is checked natively only; digits assumed 0 or odd with |d|<=15.",
    ),
    "C14": dict(
        engine="polyid",
        technique="symbolic execution of rustc MIR of x25519()/x448() over an abstract ring with symbolic scalar bits; per-iteration equality with RFC 7748's pseudo-code decided by z3; native RFC vectors",
        category="model_checking",
        text=("Clamping, u-coordinate decoding (top bit ignored, reduction), ladder initialisation, each of the 255/448 "
              "ladder steps, the final division and the base-point variants' birational map are decided equal to RFC 7748 "
              "section 5 as ring identities."),
        design_ref="DESIGN.md 3 C14; engines/polyid/NOTES.md",
        note="'The ladder computes x([k]P)' is the classical theorem (trusted); field ops are C01/C05/C12.",
    ),
    "C15": dict(
        engine="kani",
        technique="Kani/CBMC proof harnesses inside each FROST suite module over the real src/frost.rs with contract stubs for scalar/point arithmetic; concrete-playback replay without stubs",
        category="model_checking",
        text=("Wire formats of every FROST type (round trip, exact length, identifier 0, lists), and panic-freedom of "
              "verify_signature_share / assemble_signature / verify_split / sign / decode* for arbitrary small inputs, on "
              "all five suites (quick: ed25519 fully + one codec check per other suite)."),
        design_ref="DESIGN.md 3 C15; engines/kani/NOTES_C15.md",
        note="Algebraic claims (Lagrange interpolation, aggregate verifies) are not posed; choose only for <= 2 commitments (thorough).",
    ),
    "C13": dict(
        engine="llsym",
        technique="path-forking symbolic execution of optimized LLVM IR of p256 prepare_truncate with all signature bytes symbolic at every length; z3-bv decides accept condition and output encoding",
        category="model_checking",
        text=("Only the documented preparation step of truncated ECDSA/P-256 signatures is decided (accept iff r, s in "
              "range; r re-encoded on 32 big-endian bytes; s normalised below 2^255 in little-endian). The reconstruction "
              "search of verify_trunc_* (Ed25519 and P-256) is not encodable within reach and is NOT claimed for all inputs; closed cases "
              "(signer -> truncation -> completion round trips, flipped kept bits, the s = 0 corner, all-zero transmitted s part) are replayed natively as ground facts."),
        design_ref="DESIGN.md 3 C13, 8",
        note="Partial claim, stated as such: soundness/completeness of the truncated-signature search for all inputs are outside; the native closed cases are not solver coverage.",
    ),
    "C16": dict(
        engine="kani",
        technique="Kani/CBMC proof harnesses inside each LMS parameter-set module: one step of sign from an arbitrary key state (induction over all histories), verify against an RFC 8554 transcription with stand-in hashes; concrete-playback replay",
        category="model_checking",
        text=("From an arbitrary PrivateKey state: sign returns None and leaves the state bit-identical iff the key is "
              "exhausted; otherwise the signature carries the old leaf index, the state is advanced before the RNG is "
              "first used, and the authentication path is RFC 8554's; verify equals the RFC algorithm for all signature "
              "strings and rejects every wrong length / type word / out-of-range index. All four parameter sets."),
        design_ref="DESIGN.md 3 C16; engines/kani/NOTES_C16.md",
        note="Hash functions are deterministic stand-ins (collision resistance is outside); Winternitz chain lengths fixed by Q=00..00 / FF..FF; symbolic current_leaf harness in the thorough tier. Beyond the harness bounds (long messages, every digit value, all leaves, exhaustion) a native sign -> verify corpus is replayed and reported as ground facts, not solver coverage.",
    ),
    "C17": dict(
        engine="llsym",
        technique="symbolic execution of optimized LLVM IR: (1) every call pattern in the bound with all message/key bytes symbolic and the compression function uninterpreted, against the standards' padding/chaining rules (QF_UFBV / hash-consed equality); (2) each compression function equal to the standard's round function by word-level sweeping with z3 lemmas",
        category="model_checking",
        text=("SHA-2, SHA-3/SHAKE and BLAKE2s buffering, padding, counters, output extraction, reset/clone/keyed modes are "
              "decided for all messages at every enumerated call shape (10k shapes quick, 360k thorough); the four "
              "compression functions are proved equal to FIPS 180-4 / FIPS 202 / RFC 7693 round functions. Inductive steps from an ARBITRARY "
              "mid-stream context (symbolic chaining value, buffer, and full-width byte counter, every fill level): update, finalisation "
              "(padding, 64/128-bit length field for every counter value, BLAKE2s offset counter incl. the carry into t[1], last-block flag), "
              "reset variants, SHA-3/SHAKE absorb / pad / squeeze at every block position."),
        design_ref="DESIGN.md 3 C17; engines/llsym/NOTES_C17.md",
        note="Call shapes from a fresh context: lengths up to 2 blocks + 9, at most two input split points / three extract calls; arbitrary-state steps: one call of at most 2 blocks + 8 bytes; the composition law of the one-step rules is tested against hashlib, not proved; AVX2 and portable BLAKE2s paths are not compiled in the default build.",
    ),
    "C06": dict(
        engine="llsym",
        technique="symbolic execution of optimized LLVM IR of every Point::set_decode with all bytes symbolic; bit-vector queries (z3) on over-approximated cones for: exact status, failure => NEUTRAL, rejection of every byte-level forbidden string; Point::equals / Point::isneutral of all nine groups with all coordinate limbs symbolic against the specified comparison formulas (z3 bit-vectors, shared multiplications cut)",
        category="model_checking",
        text=("Strictness half of the property: for every group and each length in the bound, decoding rejects wrong "
              "lengths, field-level non-canonical coordinates (>= p), forbidden headers / sign / padding bits, and on "
              "failure returns status 0 with the neutral; SEC1 curves accept the one-byte 00 and reject 32/64-byte strings. "
              "Equality and neutral tests of all nine groups return exactly the specified formula's status for every internal representation."),
        design_ref="DESIGN.md 3 C06, 8",
        note=("The algebraic half (encode(decode(b))=b, equality <=> equal encodings, coset independence, maps land on the "
              "curve) needs field semantics and is not posed. For coordinates that are products of cleared coordinates the "
              "failure => NEUTRAL claim is restricted to the words decided (stated per obligation)."),
    ),
    "C07": dict(
        engine="llsym",
        technique="path-forking symbolic execution of optimized LLVM IR with contract stubs at cut-point functions (point/scalar decoding, SHA-512 compression as uninterpreted function, verification helper); z3 decides path conditions and results; native replay against a reference verifier",
        category="model_checking",
        text=("For all key/signature/context/message bytes at the listed lengths, Ed25519 PublicKey::decode + "
              "verify_raw/ctx/ph accept exactly when len=64, A and R decode, S<L, and the cofactored helper accepts "
              "(A, R, S, k) with k the reduction of SHA-512(dom2 || R || A || M): argument wiring, hash input and "
              "acceptance condition are decided on the real IR."),
        design_ref="DESIGN.md 3 C07, 8",
        note=("Glue only: the stubs' contracts are C05/C06/C17/C10/C04. Ed448 verification glue (SHAKE256 via uninterpreted Keccak-f) and Ed25519 "
              "and Ed448 from_seed / sign_raw / sign_ctx / sign_ph glue (deterministic RFC 8032 signature) are included. "
              "Uses the in-repo cfg hook pornin_crrl_verif_cut (inline(never) on cut points)."),
    ),
}

NA_REASON = "no check"

checks = []
for pid in ids:
    if pid in CLAIMED:
        c = CLAIMED[pid]
        checks.append({
            "property_id": pid,
            "quick_cmd": "bin/check %s --tier quick" % pid,
            "thorough_cmd": "bin/check %s --tier thorough" % pid,
            "evidence_file": "evidence/%s.json" % pid,
            "replay_cmd_template": "bin/check %s --replay {path}" % pid,
            "engine": c["engine"],
            "technique": c["technique"],
            "level_claimed": {"category": c["category"], "text": c["text"], "design_ref": c["design_ref"]},
            "level_note": c["note"],
        })
na = [{"property_id": pid, "reason": NA.get(pid, NA_REASON) if (NA := globals().get("NA_TABLE", {})) is not None else NA_REASON}
      for pid in ids if pid not in CLAIMED]
man = {
    "version": 1,
    "setup_cmd": "bin/setup",
    "hooks": {
        "guard": "pornin_crrl_verif",
        "enable": "RUSTFLAGS='--cfg pornin_crrl_verif' for the drivers/harnesses that checks append to a scratch copy of /repo; '--cfg pornin_crrl_verif_cut' additionally turns on the in-repo hook (inline(never) on cut-point functions) for the protocol-glue checks",
        "baseline_off_cmd": "cd /repo && cargo test --workspace --no-fail-fast --offline",
        "source_commits": ["7439f2c", "62d817a", "3783dbd"],
        "add_only": True,
    },
    "engines": [
        {"name": "kani", "path": "engines/kani", "serves_properties": ["C11", "C15", "C16", "C19"],
         "kind_free_text": "Kani/CBMC proof harnesses wired into a scratch copy of the crate; concrete-playback replay"},
        {"name": "polyid", "path": "engines/polyid", "serves_properties": ["C03", "C04", "C10", "C12", "C14"],
         "kind_free_text": "interpreter over rustc MIR executing point formulas over an abstract ring; z3 decides polynomial identities"},
        {"name": "llsym", "path": "engines/llsym", "serves_properties": ["C01", "C02", "C05", "C06", "C07", "C08", "C09", "C11", "C12", "C13", "C17", "C18", "C19", "C20"],
         "kind_free_text": "symbolic executor over rustc's optimized LLVM IR (concrete control, symbolic data) with bit-vector and integer SMT encodings; z3/cvc5 decide"},
    ],
    "checks": checks,
    "not_applicable": na,
    "notes": "Solver-based checking of the real code; see DESIGN.md. Exit 0 = all posed obligations discharged or inconclusive-within-budget (reported), 1 = natively reproduced violation, 3 = machinery self-check failed.",
}
json.dump(man, open(os.path.join(V, "MANIFEST.json"), "w"), indent=1)
print("MANIFEST.json written:", len(checks), "checks,", len(na), "not applicable")
