#!/usr/local/bin/python3-vt
"""regenerates MANIFEST.json from the table below (keeps it schema-valid)"""
import json, os
V = os.path.dirname(os.path.abspath(__file__))
props = [json.loads(l) for l in open(os.path.join(V, "properties.jsonl"))]
ids = [p["id"] for p in props]

CLAIMED = {
    "C01": dict(
        engine="llsym",
        technique="symbolic execution of optimized LLVM IR; LIA encoding with solver-proved carry lemmas; z3",
        category="model_checking",
        text=("Every field operation of the default 64-bit backend is executed symbolically from the "
              "optimized LLVM IR of the current tree with all raw limbs symbolic; z3 decides, for all "
              "limb patterns, that the result represents spec(a,b) mod q and stays an admissible "
              "representation. Bounded only in xsquare count and in the set of types per tier."),
        design_ref="DESIGN.md 3 C01, 8",
        note=("Trusted: llsym's IR semantics (validated against the native build on every run), the "
              "moduli/representation table in props/fields.py, abstract partial products as a sound "
              "over-approximation. Montgomery squarings and gfgen multiplication are deferred (listed in evidence)."),
    ),
}

NA_REASON = "check not built yet (work in progress; see DESIGN.md section 8)"

checks = []
for pid in ids:
    if pid in CLAIMED:
        c = CLAIMED[pid]
        checks.append({
            "property_id": pid,
            "quick_cmd": "bin/check %s --tier quick" % pid,
            "thorough_cmd": "bin/check %s --tier thorough" % pid,
            "evidence_file": "evidence/%s.json" % pid,
            "replay_cmd_template": "bin/check %s --replay {path}" % pid,
            "engine": c["engine"],
            "technique": c["technique"],
            "level_claimed": {"category": c["category"], "text": c["text"], "design_ref": c["design_ref"]},
            "level_note": c["note"],
        })
na = [{"property_id": pid, "reason": NA.get(pid, NA_REASON) if (NA := globals().get("NA_TABLE", {})) is not None else NA_REASON}
      for pid in ids if pid not in CLAIMED]
man = {
    "version": 1,
    "setup_cmd": "bin/setup",
    "hooks": {
        "guard": "pornin_crrl_verif",
        "enable": "RUSTFLAGS='--cfg pornin_crrl_verif' (checks append their drivers/harnesses to a scratch copy of /repo; /repo itself carries no hook so far)",
        "baseline_off_cmd": "cd /repo && cargo test --workspace --no-fail-fast --offline",
        "source_commits": [],
        "add_only": True,
    },
    "engines": [
        {"name": "llsym", "path": "engines/llsym", "serves_properties": ["C01"],
         "kind_free_text": "symbolic executor over rustc's optimized LLVM IR (concrete control, symbolic data) with bit-vector and integer SMT encodings; z3/cvc5 decide"},
    ],
    "checks": checks,
    "not_applicable": na,
    "notes": "Solver-based checking of the real code; see DESIGN.md. Exit 0 = all posed obligations discharged or inconclusive-within-budget (reported), 1 = natively reproduced violation, 3 = machinery self-check failed.",
}
json.dump(man, open(os.path.join(V, "MANIFEST.json"), "w"), indent=1)
print("MANIFEST.json written:", len(checks), "checks,", len(na), "not applicable")
