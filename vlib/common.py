"""Shared driver pieces: scratch copies of /repo, obligations, evidence,
known findings, exit-code policy (DESIGN.md section 2.7)."""
import atexit, hashlib, json, os, shutil, subprocess, sys, tempfile, time

VERIF = os.path.dirname(os.path.dirname(os.path.abspath(__file__)))
REPO = os.environ.get("VERIF_REPO", "/repo")
GUARD = "pornin_crrl_verif"
SEED = int(os.environ.get("VERIF_SEED", "0") or 0)
NCPU = min(16, os.cpu_count() or 4)

_scratch_dirs = []


def _cleanup():
    for d in _scratch_dirs:
        shutil.rmtree(d, ignore_errors=True)


atexit.register(_cleanup)


def log(*a):
    print(*a, file=sys.stderr, flush=True)


def scratch_root():
    base = os.environ.get("TMPDIR") or "/tmp"
    d = tempfile.mkdtemp(prefix="crrl-verif-", dir=base)
    _scratch_dirs.append(d)
    return d


def repo_tree_hash(extra=()):
    """sha256 over the content of /repo's tracked-looking source files
    (src/, Cargo.toml, Cargo.lock) plus extra strings."""
    h = hashlib.sha256()
    paths = []
    for root, dirs, files in os.walk(os.path.join(REPO, "src")):
        dirs.sort()
        for f in sorted(files):
            paths.append(os.path.join(root, f))
    for f in ("Cargo.toml", "Cargo.lock"):
        p = os.path.join(REPO, f)
        if os.path.exists(p):
            paths.append(p)
    for p in paths:
        h.update(p.encode())
        with open(p, "rb") as fh:
            h.update(fh.read())
    for e in extra:
        h.update(e.encode() if isinstance(e, str) else e)
    return h.hexdigest()


def file_hash(path):
    with open(path, "rb") as fh:
        return hashlib.sha256(fh.read()).hexdigest()[:16]


class Scratch:
    """A private copy of /repo's working tree (no target/, no .git)."""

    def __init__(self):
        self.root = scratch_root()
        self.src = os.path.join(self.root, "crrl")
        subprocess.run(
            ["rsync", "-a", "--exclude", "/target", "--exclude", ".git",
             REPO.rstrip("/") + "/", self.src + "/"], check=True)
        self.target = os.path.join(self.root, "target")

    def append(self, rel, text):
        with open(os.path.join(self.src, rel), "a") as fh:
            fh.write("\n" + text + "\n")

    def write(self, rel, text):
        p = os.path.join(self.src, rel)
        os.makedirs(os.path.dirname(p), exist_ok=True)
        with open(p, "w") as fh:
            fh.write(text)

    def read(self, rel):
        with open(os.path.join(self.src, rel)) as fh:
            return fh.read()

    def run(self, cmd, env=None, timeout=None, cwd=None):
        e = dict(os.environ)
        e["CARGO_NET_OFFLINE"] = "true"
        if env:
            e.update(env)
        t0 = time.time()
        p = subprocess.run(cmd, cwd=cwd or self.src, env=e, timeout=timeout,
                           stdout=subprocess.PIPE, stderr=subprocess.STDOUT,
                           text=True)
        return p.returncode, p.stdout, time.time() - t0

    def remove(self):
        shutil.rmtree(self.root, ignore_errors=True)


# --------------------------------------------------------------------------
# obligations / evidence

class Obligation:
    """One solver question.  verdict in
    {'discharged','violated','inconclusive','known'}"""

    def __init__(self, name, engine, functions=(), bounds="", desc=""):
        self.name = name
        self.engine = engine
        self.functions = list(functions)
        self.bounds = bounds
        self.desc = desc
        self.verdict = "inconclusive"
        self.reason = ""
        self.solver = ""
        self.seconds = 0.0
        self.queries = 0
        self.syntactic = False   # closed without a solver call
        self.model = None        # counterexample (dict) when violated
        self.replay = None       # path of replay file
        self.known = None

    def ok(self, solver="", seconds=0.0, queries=1, syntactic=False):
        self.verdict = "discharged"
        self.solver, self.seconds, self.queries = solver, seconds, queries
        self.syntactic = syntactic
        return self

    def fail(self, model, solver="", seconds=0.0, queries=1):
        self.verdict = "violated"
        self.model = model
        self.solver, self.seconds, self.queries = solver, seconds, queries
        return self

    def unknown(self, reason, solver="", seconds=0.0, queries=1):
        self.verdict = "inconclusive"
        self.reason = reason
        self.solver, self.seconds, self.queries = solver, seconds, queries
        return self

    def to_json(self):
        d = {"name": self.name, "engine": self.engine, "verdict": self.verdict,
             "solver": self.solver, "seconds": round(self.seconds, 3),
             "queries": self.queries}
        if self.functions:
            d["functions"] = self.functions
        if self.bounds:
            d["bounds"] = self.bounds
        if self.desc:
            d["desc"] = self.desc
        if self.reason:
            d["reason"] = self.reason
        if self.model is not None:
            d["model"] = self.model
        if self.replay:
            d["replay"] = self.replay
        if self.known:
            d["known_finding"] = self.known
        return d


def load_known_findings():
    p = os.path.join(VERIF, "known_findings.json")
    if not os.path.exists(p):
        return {"findings": [], "fixed": []}
    with open(p) as fh:
        return json.load(fh)


def match_known(pid, ob):
    """A finding entry names the property, the obligation (role) and a
    'key' that must equal the obligation's model key (call site / input
    shape).  A different violation of the same property is not matched."""
    kf = load_known_findings()
    for f in kf.get("findings", []):
        if f.get("property") != pid:
            continue
        if f.get("obligation") and f["obligation"] != ob.name:
            continue
        m = ob.model or {}
        mk = m.get("key")
        if f.get("key") is not None:
            if f["key"] != mk:
                continue
            return f
        if f.get("function") is not None:
            # function-level finding: the leak sits in an out-of-line function; any entry that reaches it shows it
            if (f["function"] == m.get("function") and f.get("kind") == m.get("kind")
                    and str(mk or "").startswith(str(f.get("configuration")) + "|")):
                return f
            continue
        return f
    return None


def write_replay(pid, ob):
    d = os.environ.get("VERIF_REPLAY_DIR") or (os.path.join(os.environ["VERIF_EVIDENCE_DIR"], "replay")
                                               if os.environ.get("VERIF_EVIDENCE_DIR") else os.path.join(VERIF, "replay"))
    os.makedirs(d, exist_ok=True)
    tag = ""
    k = (ob.model or {}).get("key")
    if k:
        tag = "_" + hashlib.sha256(str(k).encode()).hexdigest()[:6]
    p = os.path.join(d, "%s_%s%s.json" % (pid, ob.name.replace("/", "_").replace(" ", "_"), tag))
    with open(p, "w") as fh:
        json.dump({"property": pid, "obligation": ob.to_json()}, fh, indent=1)
    ob.replay = p
    return p


def finish(pid, tier, obligations, t0, level="model_checking",
           functions_encoded=None, bounds=None, stubs=None, assumptions=None,
           outside=None, ground_facts=None, extra=None, machinery_error=None, rule=None):
    """Write evidence, print the interface lines, return the exit code."""
    nviol = 0
    lines = []
    for ob in obligations:
        if ob.verdict == "violated":
            k = match_known(pid, ob)
            if k is not None:
                ob.verdict = "known"
                ob.known = k.get("what", "")
                lines.append("KNOWN-FINDING: property=%s %s" % (pid, k.get("what", ob.name)))
            else:
                nviol += 1
                p = write_replay(pid, ob)
                lines.append("VIOLATION property=%s replay=%s" % (pid, p))
        elif ob.verdict == "inconclusive":
            lines.append("INCONCLUSIVE: property=%s %s %s" % (pid, ob.name, ob.reason))
    n = len(obligations)
    disc = sum(1 for o in obligations if o.verdict == "discharged")
    inc = sum(1 for o in obligations if o.verdict == "inconclusive")
    known = sum(1 for o in obligations if o.verdict == "known")
    nontriv = sum(1 for o in obligations
                  if o.verdict in ("discharged", "violated", "known") and not o.syntactic)
    samples = []
    seen_kinds = set()
    for o in obligations:
        kind = (o.engine, o.name.split(":")[0])
        if kind in seen_kinds and o.verdict == "discharged":
            continue
        seen_kinds.add(kind)
        samples.append(o.to_json())
        if len(samples) >= 12:
            break
    for o in obligations:
        if o.verdict in ("violated", "known") and o.to_json() not in samples:
            samples.append(o.to_json())
    cov = {
        "evaluations": max(n, 1),
        "distinct_nontrivial": nontriv,
        "rule": rule or ("one evaluation = one solver obligation over symbolic inputs of the real "
                 "code; non-trivial = a solver (or CBMC) actually ran and returned a verdict; "
                 "distinct by obligation name (function x claim x configuration)"),
        "samples": samples,
        "obligations": n,
        "discharged": disc,
        "inconclusive": inc,
        "known_findings": known,
        "violated": nviol,
        "solver_seconds": round(sum(o.seconds for o in obligations), 2),
        "queries": sum(o.queries for o in obligations),
        "all_obligations": [
            {"name": o.name, "verdict": o.verdict, "solver": o.solver,
             "s": round(o.seconds, 2)} for o in obligations],
    }
    if functions_encoded:
        cov["functions_encoded"] = functions_encoded
    if bounds:
        cov["bounds"] = bounds
    if stubs:
        cov["stubs"] = stubs
    if outside:
        cov["outside_claim"] = outside
    if ground_facts:
        cov["ground_facts"] = ground_facts
    if extra:
        cov.update(extra)
    ev = {
        "property_id": pid, "tier": tier, "seed": SEED, "level": level,
        "coverage": cov,
        "assumptions": assumptions or [],
        "wall_s": round(time.time() - t0, 2),
        "violations": nviol,
    }
    if machinery_error:
        ev["coverage"]["machinery_error"] = machinery_error
    evdir = os.environ.get("VERIF_EVIDENCE_DIR") or os.path.join(VERIF, "evidence")
    os.makedirs(evdir, exist_ok=True)
    with open(os.path.join(evdir, pid + ".json"), "w") as fh:
        json.dump(ev, fh, indent=1, default=str)
    for l in lines:
        print(l)
    print("SUMMARY property=%s tier=%s obligations=%d discharged=%d inconclusive=%d known=%d violated=%d wall=%.1fs"
          % (pid, tier, n, disc, inc, known, nviol, time.time() - t0))
    sys.stdout.flush()
    if machinery_error:
        print("MACHINERY-ERROR property=%s %s" % (pid, machinery_error))
        # a natively reproduced violation stands on its own: it is reported (exit 1) even when
        # another part of the machinery could not run
        return 1 if nviol else 3
    return 1 if nviol else 0
