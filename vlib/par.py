"""fork-based parallel map that survives worker crashes and time-outs"""
import multiprocessing as mp, os, signal, time, traceback


def _worker(fn, item, q, idx):
    try:
        q.put((idx, "ok", fn(item)))
    except BaseException as e:
        q.put((idx, "err", "%s: %s\n%s" % (type(e).__name__, e, traceback.format_exc()[-1500:])))


def pmap(fn, items, nproc=16, timeout=None):
    """returns list of (status, value) in item order; status ok/err/timeout"""
    ctx = mp.get_context("fork")
    q = ctx.Queue()
    res = [None] * len(items)
    pending = list(enumerate(items))
    running = {}
    done = 0
    while done < len(items):
        while pending and len(running) < nproc:
            idx, it = pending.pop(0)
            p = ctx.Process(target=_worker, args=(fn, it, q, idx))
            p.start()
            running[idx] = (p, time.time())
        try:
            idx, st, val = q.get(timeout=1.0)
            res[idx] = (st, val)
            p, _ = running.pop(idx)
            p.join(5)
            done += 1
            continue
        except Exception:
            pass
        now = time.time()
        for idx, (p, t0) in list(running.items()):
            if timeout and now - t0 > timeout:
                try:
                    os.kill(p.pid, signal.SIGKILL)
                except OSError:
                    pass
                p.join(2)
                running.pop(idx)
                res[idx] = ("timeout", "worker exceeded %ds" % timeout)
                done += 1
            elif not p.is_alive() and res[idx] is None:
                # died without reporting (e.g. OOM kill)
                time.sleep(0.2)
                if q.empty():
                    running.pop(idx)
                    res[idx] = ("err", "worker died (exit %s)" % p.exitcode)
                    done += 1
    return res
